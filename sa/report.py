"""Obligations, verdicts, evidence and known-findings handling."""
import hashlib
import json
import os
import time

VERIF = os.path.dirname(os.path.dirname(os.path.abspath(__file__)))
DISCHARGED, REFUTED, INCONCLUSIVE = "discharged", "refuted", "inconclusive"


class Ob(object):
    def __init__(self, rule, construct, expect, status, derived=None, detail=None, loc=None, stmt=None,
                 nontrivial=True, path=None):
        self.rule = rule
        self.construct = construct  # module:function (+ normalised statement), never a line number
        self.expect = expect
        self.status = status
        self.derived = derived
        self.detail = detail
        self.loc = loc
        self.stmt = stmt
        self.nontrivial = nontrivial
        self.path = path

    def key(self):
        return "%s|%s|%s" % (self.rule, self.construct, self.stmt or "")

    def as_dict(self):
        d = {"rule": self.rule, "construct": self.construct, "expect": self.expect, "status": self.status}
        for k in ("derived", "detail", "loc", "stmt", "path"):
            v = getattr(self, k)
            if v is not None:
                d[k] = v
        return d


class Check(object):
    def __init__(self, pid, tier, program):
        self.pid = pid
        self.tier = tier
        self.P = program
        self.obs = []
        self.notes = []
        self.t0 = time.time()
        self.functions = set()
        self.call_sites = 0
        self.api_rows = set()
        self.paths = 0
        self.rules = {}
        self.assumptions = []
        self.files = set()
        self.stmts = 0

    # -- recording
    def rule(self, rid, text):
        self.rules[rid] = text

    def ob(self, rule, construct, expect, ok, derived=None, detail=None, loc=None, stmt=None, nontrivial=True,
           inconclusive=False, path=None):
        status = DISCHARGED if ok else (INCONCLUSIVE if inconclusive else REFUTED)
        o = Ob(rule, construct, expect, status, derived, detail, loc, stmt, nontrivial, path)
        self.obs.append(o)
        return o

    def note(self, text):
        if text not in self.notes:
            self.notes.append(text)

    def absorb_interp(self, I):
        self.functions |= set(I.stats["functions"])
        self.call_sites += I.stats["calls"] + I.stats["libcalls"]
        self.stmts += I.stats["stmts"]
        self.paths += I.stats["joins"] + I.stats["loops"]
        for e in I.events:
            if e.kind == "api-row":
                self.api_rows.add(e.name)

    def floor(self, rule, minimum):
        n = sum(1 for o in self.obs if o.rule == rule)
        if any(o.status == REFUTED for o in self.obs):
            return  # a definite refutation stands on its own; floors guard against vacuous *passes*
        if n < minimum:
            from .program import AnalysisError
            raise AnalysisError("instance floor not met for %s: found %d obligations, confirmed %d on the pinned tree"
                                % (rule, n, minimum))


def load_known():
    p = os.path.join(VERIF, "known_findings.json")
    if not os.path.exists(p):
        return {"known": [], "fixed": []}
    with open(p) as f:
        return json.load(f)


def finish(chk, seed=0):
    """Print the verdict, write evidence and replay files, return the exit code."""
    known = load_known()
    known_keys = {}
    for k in known.get("known", []):
        if k.get("property") == chk.pid:
            known_keys[(k["rule"], k["construct"])] = k
    refuted = [o for o in chk.obs if o.status == REFUTED]
    inconc = [o for o in chk.obs if o.status == INCONCLUSIVE]
    new_viol = []
    known_hit = []
    for o in refuted:
        k = known_keys.get((o.rule, o.construct))
        if k is not None:
            known_hit.append((o, k))
        else:
            new_viol.append(o)
    wall = time.time() - chk.t0
    by_rule = {}
    for o in chk.obs:
        r = by_rule.setdefault(o.rule, {"obligations": 0, "discharged": 0, "refuted": 0, "inconclusive": 0})
        r["obligations"] += 1
        r[o.status] += 1
    samples = []
    seen_rules = set()
    for o in chk.obs:
        if o.rule not in seen_rules or o.status != DISCHARGED:
            seen_rules.add(o.rule)
            samples.append(o.as_dict())
        if len(samples) >= 40:
            break
    distinct = len({o.key() for o in chk.obs if o.nontrivial})
    rels = sorted(chk.files) or None
    ev = {
        "property_id": chk.pid, "tier": chk.tier, "seed": int(seed), "level": "other",
        "coverage": {
            "explanation": "static analysis of /repo's working tree (ast only, nothing executed). Rules: "
                           + " | ".join("%s: %s" % kv for kv in sorted(chk.rules.items())),
            "obligations": len(chk.obs),
            "discharged": sum(1 for o in chk.obs if o.status == DISCHARGED),
            "refuted": len(refuted), "inconclusive": len(inconc), "known_findings_matched": len(known_hit),
            "evaluations": len(chk.obs), "distinct_nontrivial": distinct,
            "rule": "one evaluation = one rule instance (rule id, construct, expectation) enumerated from the tree; "
                    "non-trivial = its discharge needed at least one transfer step, path or sibling comparison; "
                    "distinct = different (rule, construct, statement) keys",
            "samples": samples, "per_rule": by_rule,
            "functions_analysed": len(chk.functions), "functions": sorted(chk.functions)[:200],
            "call_sites": chk.call_sites, "statements_interpreted": chk.stmts, "paths_or_joins": chk.paths,
            "api_rows_used": sorted(chk.api_rows), "trusted_base": sorted(chk.api_rows),
            "file_digests": chk.P.digests(rels), "checker_cmd": "./check %s --tier %s" % (chk.pid, chk.tier),
            "notes": chk.notes[:60], "exhaustive": False,
            "selftest": getattr(chk, "selftest", None),
        },
        "assumptions": chk.assumptions + [
            "the API table rows (sa/api.py) state NumPy/SciPy behaviour correctly (trusted base, listed in coverage.api_rows_used)",
            "no eqsig code is executed; dynamic features (setattr/exec/monkey-patching) are absent from eqsig/ (checked)"],
        "wall_s": round(wall, 3), "violations": len(new_viol),
    }
    evdir = os.environ.get("VERIF_EVIDENCE_DIR") or os.path.join(VERIF, "evidence")
    os.makedirs(evdir, exist_ok=True)
    with open(os.path.join(evdir, chk.pid + ".json"), "w") as f:
        json.dump(ev, f, indent=1, default=str)
    print("property %s tier=%s: %d obligations, %d discharged, %d refuted (%d known), %d inconclusive; "
          "%d functions, %d call sites; %.2fs" % (chk.pid, chk.tier, len(chk.obs), ev["coverage"]["discharged"],
                                                  len(refuted), len(known_hit), len(inconc), len(chk.functions),
                                                  chk.call_sites, wall))
    for r, c in sorted(by_rule.items()):
        print("  rule %-14s %3d obligations  %3d discharged  %d refuted  %d inconclusive" %
              (r, c["obligations"], c["discharged"], c["refuted"], c["inconclusive"]))
    for n in chk.notes[:30]:
        print("  NOTE " + n)
    for o, k in known_hit:
        print("KNOWN-FINDING: property=%s %s at %s: %s" % (chk.pid, o.rule, o.construct, k.get("what", o.detail)))
    code = 0
    if new_viol:
        rdir = os.environ.get("VERIF_REPLAY_DIR") or os.path.join(VERIF, "out", "replay")
        os.makedirs(rdir, exist_ok=True)
        rp = os.path.join(rdir, "%s.json" % chk.pid)
        with open(rp, "w") as f:
            json.dump({"property": chk.pid, "violations": [o.as_dict() for o in new_viol]}, f, indent=1, default=str)
        for o in new_viol:
            print("REFUTED %s %s [%s] expected: %s; derived: %s%s" % (
                o.rule, o.construct, o.loc or "?", o.expect, o.derived, (" -- " + o.detail) if o.detail else ""))
            if o.path:
                print("   path: " + " -> ".join(o.path))
        print("VIOLATION property=%s replay=%s" % (chk.pid, rp))
        code = 1
    elif inconc:
        for o in inconc:
            print("INCONCLUSIVE %s %s [%s] expected: %s; derived: %s%s" % (
                o.rule, o.construct, o.loc or "?", o.expect, o.derived, (" -- " + o.detail) if o.detail else ""))
        print("ANALYSIS-ERROR property=%s: %d obligation(s) inconclusive (unmodelled construct); nothing shown, nothing refuted"
              % (chk.pid, len(inconc)))
        code = 2
    return code

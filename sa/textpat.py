"""Text written by a function, as a pattern (C16's writer side).

A small syntax-directed abstract evaluation of ONE function over a string domain: a text is a sequence of pieces
    ("lit", "<characters>")                literal characters
    ("fld", role, conv, prec)              a formatted value; role in label / count / dt / value / other:<expr>
    ("rep", [pieces], sep)                 zero or more repetitions of a piece sequence, `sep` (a string or None) between them
a list of texts is a sequence of segments ("one", pieces) / ("many", [pieces, ...]) (a repeated group of elements).
The evaluation follows assignments, list literals, append / += in and out of loops, % / str.format / f-string formatting,
str.join over lists, comprehensions and generators, `with open(...)`, file.write / writelines, and loops; anything else that reaches
the written text is recorded in `problems` (the caller reports the rule as inconclusive, never as a pass).

`unroll` expands every repetition twice (body, separator, body), which is enough to expose what sits between two consecutive
iterations; `lines` then splits the token stream at newlines.  Nothing is executed.
"""
import ast
import re

SPEC = re.compile(r"%(?:%|[-+ #0]*\d*(?:\.(\d+))?([diouxXeEfFgGsr]))")
FSPEC = re.compile(r"\{\{|\}\}|\{([^{}:!]*)(?:![rsa])?(?::([^{}]*))?\}")


def lit(s):
    return ("lit", s)


class TextEval(object):
    def __init__(self, fi, roles):
        """roles: parameter name -> 'label' | 'dt' | 'values' | 'path'"""
        self.fi = fi
        self.roles = dict(roles)
        self.value_vars = set()
        self.count_vars = set()
        self.loop_local = set()
        self.env = {}
        self.problems = []
        self.files = {}          # file variable -> list of pieces written so far
        self.frames = []         # loop frames: dict(writes={file: pieces}, appends={list: [pieces...]}, straug={name: pieces})
        self.opened = []         # (file var, mode text)

    # ------------------------------------------------------------------ roles
    def role(self, e):
        names = {n.id for n in ast.walk(e) if isinstance(n, ast.Name)}
        vals = {p for p, r in self.roles.items() if r == "values"}
        if ("len" in names and names & vals) or (names & self.count_vars and not (names & vals)):
            return "count"
        if names & vals or names & self.value_vars:
            return "value"
        for p, r in self.roles.items():
            if p in names and r in ("dt", "label"):
                return r
        return "other:" + " ".join(ast.unparse(e).split())

    def mentions_values(self, e):
        names = {n.id for n in ast.walk(e) if isinstance(n, ast.Name)}
        return bool(names & ({p for p, r in self.roles.items() if r == "values"} | self.value_vars)) and "len" not in names

    def bind_iter(self, target, it):
        if self.mentions_values(it):
            for n in ast.walk(target):
                if isinstance(n, ast.Name):
                    self.value_vars.add(n.id)

    # ------------------------------------------------------------------ expressions
    def problem(self, node, why):
        self.problems.append("%s at line %d" % (why, getattr(node, "lineno", 0)))
        return ("unk",)

    def fmt_percent(self, fmt, args, node):
        out, pos, k = [], 0, 0
        for m in SPEC.finditer(fmt):
            if m.start() > pos:
                out.append(lit(fmt[pos:m.start()]))
            pos = m.end()
            if m.group(0) == "%%":
                out.append(lit("%"))
                continue
            if k >= len(args):
                return self.problem(node, "format has more conversions than arguments")
            a = args[k]
            k += 1
            sub = self.ev(a) if m.group(2) == "s" else None
            if sub is not None and sub[0] == "str" and not isinstance(a, ast.Name):
                out.extend(sub[1])
            else:
                out.append(("fld", self.role(a), m.group(2), int(m.group(1)) if m.group(1) else None))
        if pos < len(fmt):
            out.append(lit(fmt[pos:]))
        return ("str", out)

    def ev(self, e):
        if isinstance(e, ast.Constant) and isinstance(e.value, str):
            return ("str", [lit(e.value)] if e.value else [])
        if isinstance(e, ast.Name):
            if e.id in self.env:
                return self.env[e.id]
            if self.roles.get(e.id) == "label":
                return ("str", [("fld", "label", "s", None)])
            return ("unk",)
        if isinstance(e, ast.BinOp) and isinstance(e.op, ast.Mod) and isinstance(e.left, ast.Constant) and isinstance(e.left.value, str):
            args = list(e.right.elts) if isinstance(e.right, ast.Tuple) else [e.right]
            return self.fmt_percent(e.left.value, args, e)
        if isinstance(e, ast.BinOp) and isinstance(e.op, ast.Add):
            l, r = self.ev(e.left), self.ev(e.right)
            if l[0] == r[0] == "str":
                return ("str", l[1] + r[1])
            if l[0] == r[0] == "list":
                return ("list", l[1] + r[1])
            return self.problem(e, "concatenation of unrecognised operands `%s`" % ast.unparse(e)[:60])
        if isinstance(e, ast.JoinedStr):
            out = []
            for v in e.values:
                if isinstance(v, ast.Constant):
                    out.append(lit(v.value))
                else:
                    spec = "".join(x.value for x in v.format_spec.values if isinstance(x, ast.Constant)) if v.format_spec is not None else ""
                    m = re.match(r".*?(?:\.(\d+))?([dfeEgGs])?$", spec)
                    sub = self.ev(v.value) if not spec else None
                    if sub is not None and sub[0] == "str" and self.roles.get(getattr(v.value, "id", None)) != "label":
                        out.extend(sub[1])
                    else:
                        out.append(("fld", self.role(v.value), (m.group(2) if m and m.group(2) else ("r" if not spec else "s")),
                                    int(m.group(1)) if (m and m.group(1)) else None))
            return ("str", out)
        if isinstance(e, (ast.List, ast.Tuple)):
            segs = []
            for x in e.elts:
                if isinstance(x, ast.Starred):
                    sub = self.ev(x.value)
                    if sub[0] != "list":
                        return self.problem(e, "starred element `%s` is not a recognised list of texts" % ast.unparse(x.value)[:60])
                    segs.extend(sub[1])
                else:
                    segs.append(("one", self.as_text(x)))
            return ("list", segs)
        if isinstance(e, (ast.ListComp, ast.GeneratorExp)):
            for g in e.generators:
                self.bind_iter(g.target, g.iter)
            if any(g.ifs for g in e.generators):
                return self.problem(e, "filtered comprehension")
            return ("list", [("many", [self.as_text(e.elt)])])
        if isinstance(e, ast.Call):
            fn = e.func
            if isinstance(fn, ast.Attribute) and fn.attr == "join" and len(e.args) == 1:
                sep = self.ev(fn.value)
                if sep[0] != "str" or any(p[0] != "lit" for p in sep[1]):
                    return self.problem(e, "join with a non-literal separator")
                septxt = "".join(p[1] for p in sep[1])
                arg = self.ev(e.args[0])
                if arg[0] != "list":
                    return self.problem(e, "join over something that is not a recognised list of texts")
                return ("str", self.join(septxt, arg[1]))
            if isinstance(fn, ast.Attribute) and fn.attr == "format" and isinstance(fn.value, ast.Constant) and isinstance(fn.value.value, str):
                out, pos, k = [], 0, 0
                fmt = fn.value.value
                for m in FSPEC.finditer(fmt):
                    if m.start() > pos:
                        out.append(lit(fmt[pos:m.start()]))
                    pos = m.end()
                    if m.group(0) in ("{{", "}}"):
                        out.append(lit(m.group(0)[0]))
                        continue
                    idx = m.group(1)
                    a = e.args[int(idx)] if (idx or "").isdigit() else (e.args[k] if k < len(e.args) else None)
                    k += 1
                    if a is None:
                        return self.problem(e, "format field without a positional argument")
                    spec = m.group(2) or ""
                    mm = re.match(r".*?(?:\.(\d+))?([dfeEgGs])?$", spec)
                    out.append(("fld", self.role(a), (mm.group(2) if mm and mm.group(2) else ("r" if not spec else "s")),
                                int(mm.group(1)) if (mm and mm.group(1)) else None))
                if pos < len(fmt):
                    out.append(lit(fmt[pos:]))
                return ("str", out)
            if isinstance(fn, ast.Name) and fn.id in ("str", "repr") and len(e.args) == 1:
                return ("str", [("fld", self.role(e.args[0]), "r", None)])
            if isinstance(fn, ast.Name) and fn.id == "open":
                mode = ast.unparse(e.args[1]) if len(e.args) > 1 else next((ast.unparse(k.value) for k in e.keywords if k.arg == "mode"), "'r'")
                return ("file", mode)
            if isinstance(fn, ast.Name) and fn.id == "list" and len(e.args) == 1:
                return self.ev(e.args[0])
            if ast.unparse(fn) in ("np.char.mod", "numpy.char.mod", "np.strings.mod") and len(e.args) == 2 and not e.keywords and \
                    isinstance(e.args[0], ast.Constant) and isinstance(e.args[0].value, str):
                # element-wise FMT % x: one text per element of the array
                one = self.fmt_percent(e.args[0].value, [e.args[1]], e)
                if one[0] != "str":
                    return one
                return ("list", [("many", [one[1]])])
        return ("unk",)

    def as_text(self, e):
        v = self.ev(e)
        if v[0] == "str":
            return v[1]
        if isinstance(e, ast.Name) and self.roles.get(e.id) == "label":
            return [("fld", "label", "s", None)]
        self.problem(e, "element `%s` is not a recognised text" % ast.unparse(e)[:60])
        return [("fld", "other:" + ast.unparse(e), "?", None)]

    @staticmethod
    def join(sep, segs):
        out = []
        for k, seg in enumerate(segs):
            if k > 0 and sep:
                out.append(lit(sep))
            if seg[0] == "one":
                out.extend(seg[1])
            else:
                body = []
                for j, p in enumerate(seg[1]):
                    if j > 0 and sep:
                        body.append(lit(sep))
                    body.extend(p)
                out.append(("rep", body, sep or None))
        return out

    # ------------------------------------------------------------------ statements
    def emit_write(self, fvar, pieces):
        if self.frames:
            self.frames[-1]["writes"].setdefault(fvar, []).extend(pieces)
        else:
            self.files.setdefault(fvar, []).extend(pieces)

    def block(self, stmts):
        for st in stmts:
            self.stmt(st)

    def stmt(self, st):
        if isinstance(st, ast.Expr) and isinstance(st.value, ast.Constant):
            return
        if isinstance(st, ast.Assign) and len(st.targets) == 1 and isinstance(st.targets[0], ast.Name):
            v = self.ev(st.value)
            name = st.targets[0].id
            if v[0] == "list" and self.frames:
                self.loop_local.add(name)          # a list created afresh in every iteration of the enclosing loop
            if v[0] == "file":
                self.opened.append((name, v[1]))
                self.files.setdefault(name, [])
            if v[0] == "unk" and self.mentions_values(st.value):
                self.value_vars.add(name)
            if v[0] == "unk" and isinstance(st.value, ast.Call) and ast.unparse(st.value.func) == "len" and st.value.args and \
                    {n.id for n in ast.walk(st.value.args[0]) if isinstance(n, ast.Name)} & ({p for p, r in self.roles.items() if r == "values"} | self.value_vars):
                self.count_vars.add(name)           # npts = len(values), hoisted
            self.env[name] = v
            return
        if isinstance(st, ast.AugAssign) and isinstance(st.target, ast.Name) and isinstance(st.op, ast.Add):
            cur = self.env.get(st.target.id, ("unk",))
            v = self.ev(st.value)
            if cur[0] == "str" and v[0] == "str":
                if self.frames:
                    self.frames[-1]["straug"].setdefault(st.target.id, []).extend(v[1])
                else:
                    self.env[st.target.id] = ("str", cur[1] + v[1])
                return
            if cur[0] == "list" and v[0] == "list":
                if self.frames:
                    for seg in v[1]:
                        self.frames[-1]["appends"].setdefault(st.target.id, []).append(seg[1] if seg[0] == "one" else None)
                else:
                    self.env[st.target.id] = ("list", cur[1] + v[1])
                return
            if cur[0] in ("str", "list"):
                self.problem(st, "augmented assignment to the text with an unrecognised operand")
            return
        if isinstance(st, ast.Expr) and isinstance(st.value, ast.Call) and isinstance(st.value.func, ast.Attribute) and \
                isinstance(st.value.func.value, ast.Name):
            call, obj, meth = st.value, st.value.func.value.id, st.value.func.attr
            cur = self.env.get(obj, ("unk",))
            if cur[0] == "list" and meth == "append" and len(call.args) == 1:
                p = self.as_text(call.args[0])
                if self.frames:
                    self.frames[-1]["appends"].setdefault(obj, []).append(p)
                else:
                    cur[1].append(("one", p))
                return
            if cur[0] == "list" and meth in ("extend",) and len(call.args) == 1:
                v = self.ev(call.args[0])
                if v[0] == "list" and not self.frames:
                    cur[1].extend(v[1])
                    return
                self.problem(st, "list.extend in a form not modelled")
                return
            if cur[0] == "list" and meth in ("insert", "pop", "remove", "sort", "reverse", "clear"):
                self.problem(st, "list.%s on the list of lines" % meth)
                return
            if cur[0] == "file":
                if meth == "write" and len(call.args) == 1:
                    v = self.ev(call.args[0])
                    if v[0] != "str":
                        self.problem(st, "write of an unrecognised text `%s`" % ast.unparse(call.args[0])[:60])
                        return
                    self.emit_write(obj, v[1])
                    return
                if meth == "writelines" and len(call.args) == 1:
                    v = self.ev(call.args[0])
                    if v[0] != "list":
                        self.problem(st, "writelines of an unrecognised list")
                        return
                    self.emit_write(obj, self.join("", v[1]))
                    return
                if meth in ("close", "flush"):
                    return
            return
        if isinstance(st, ast.Expr):
            return
        if isinstance(st, ast.With):
            for it in st.items:
                v = self.ev(it.context_expr)
                if v[0] == "file" and isinstance(it.optional_vars, ast.Name):
                    self.env[it.optional_vars.id] = v
                    self.opened.append((it.optional_vars.id, v[1]))
                    self.files.setdefault(it.optional_vars.id, [])
            self.block(st.body)
            return
        if isinstance(st, ast.For):
            self.bind_iter(st.target, st.iter)
            fr = dict(writes={}, appends={}, straug={})
            self.frames.append(fr)
            self.block(st.body)
            self.frames.pop()
            for fvar, pieces in fr["writes"].items():
                self.emit_write(fvar, [("rep", pieces, None)])
            for lst, pats in fr["appends"].items():
                if any(p is None for p in pats):
                    self.problem(st, "repeated group appended in a loop")
                    continue
                seg = ("many", pats)
                if self.frames and lst not in self.loop_local:
                    self.problem(st, "append in a nested loop")
                else:
                    self.env[lst][1].append(seg)
            for name, pieces in fr["straug"].items():
                cur = self.env.get(name, ("str", []))
                new = ("str", cur[1] + [("rep", pieces, None)])
                if self.frames:
                    self.frames[-1]["straug"].setdefault(name, []).append(("rep", pieces, None))
                else:
                    self.env[name] = new
            if st.orelse:
                self.block(st.orelse)
            return
        if isinstance(st, ast.If):
            # a conditional that produces text is outside the model; one that does not is skipped
            probe = TextEval(self.fi, self.roles)
            probe.env = {k: (v if v[0] != "list" else ("list", list(v[1]))) for k, v in self.env.items()}
            probe.value_vars = set(self.value_vars)
            probe.frames = [dict(writes={}, appends={}, straug={})]
            probe.block(st.body + st.orelse)
            fr = probe.frames[0]
            if fr["writes"] or fr["appends"] or fr["straug"] or probe.files:
                self.problem(st, "output produced under a condition `%s`" % ast.unparse(st.test)[:60])
            return
        if isinstance(st, (ast.Return, ast.Pass, ast.Import, ast.ImportFrom)):
            return
        if isinstance(st, (ast.While, ast.Try)):
            self.problem(st, "%s statement in the writer" % type(st).__name__)
            return

    def run(self):
        self.block(self.fi.node.body)
        return self


def unroll(pieces):
    out = []
    for p in pieces:
        if p[0] == "rep":
            body = unroll(p[1])
            out.extend(body)
            if p[2]:
                out.append(lit(p[2]))
            out.extend(body)
        else:
            out.append(p)
    return out


def lines(tokens):
    """[[("txt", s) | ("fld", role, conv, prec), ...], ...]: the token stream split at newlines"""
    res = [[]]
    for t in tokens:
        if t[0] == "lit":
            parts = t[1].split("\n")
            for k, part in enumerate(parts):
                if k > 0:
                    res.append([])
                if part:
                    res[-1].append(("txt", part))
        else:
            res[-1].append(t)
    return res


def show(pieces, depth=0):
    out = []
    for p in pieces:
        if p[0] == "lit":
            out.append(repr(p[1]))
        elif p[0] == "fld":
            out.append("<%s%s>" % (p[1].split(":")[0], "" if p[2] in (None, "s", "r") else ":%%%s%s" % ("." + str(p[3]) if p[3] is not None else "", p[2])))
        else:
            out.append("(%s)*%s" % (show(p[1], depth + 1), "" if not p[2] else " sep %r" % p[2]))
    return " ".join(out)

"""C12 -- zero crossings and switched peaks: the decidable structural clauses.

Exactness over all sign/zero patterns is a statement about values and is NOT decided here."""
import ast
from fractions import Fraction

from ..tyob import *  # noqa
from ..tyob import sibling_defaults, analyse, expect, item, unmodelled_in, against_const
from ..poly import Normaliser, Poly, straightline_env
from ..program import norm_stmt
from ..values import K_SLICE

PK = "eqsig.fns.peaks_and_crossings."
ZC = PK + "get_zero_crossings_array_indices"
SW = PK + "get_switched_peak_array_indices"


def run(chk):
    P = chk.P
    chk.rule("R-ZC-STRICT", "a crossing is a strictly negative product of neighbours, an exact zero is `== 0`, adjacent zeros are dropped "
                            "by `> 1` on the index differences; the result is the sorted concatenation of the two index sets with 0 "
                            "prepended when absent")
    chk.rule("R-TOL-SUB", "with tol > 0 the only operation applied to the tol = 0 result is np.delete (a subsequence); tol < 0 raises")
    chk.rule("R-SW-COVER", "every peak can enter the candidate set of its excursion: the initial candidate for index 0 is peak_values[0], "
                           "not a placeholder; the loop appends the value and the index of the same peak")
    chk.rule("R-SW-SEL", "per excursion the index with the largest |value| is chosen through the candidates' own index list; the final map "
                         "is np.take(peak_indices, .); the excursion ends on a non-strict product `<= 0` with the running reference")
    zero_crossing_rules(chk)
    switched_rules(chk)
    sibling_defaults(chk, "R-ZC-STRICT", [ZC], neutral={"keep_adj_zeros": False, "tol": 0.0}, label="get_zero_crossings_array_indices")
    from ..tyob import leading_zero_tests
    _fi = chk.P.fn(ZC)
    leading_zero_tests(chk, "R-ZC-STRICT", _fi, "all_zc_indices", "eqsig/fns/peaks_and_crossings.py:get_zero_crossings_array_indices",
                       what="a missing index 0", minimum=0)
    from ..tyob import plateau_cleaner_exact
    plateau_cleaner_exact(chk, "R-SW-COVER")
    chk.floor("R-ZC-STRICT", 8)
    chk.floor("R-TOL-SUB", 3)
    chk.floor("R-SW-COVER", 3)
    chk.floor("R-SW-SEL", 5)


def zero_crossing_rules(chk):
    P = chk.P
    fi = P.fn(ZC)
    c = "eqsig/fns/peaks_and_crossings.py:get_zero_crossings_array_indices"
    for kaz in (False, True):
        r = analyse(chk, ZC, lambda I, st, fi, kaz=kaz: dict(values=rec_array("values"), keep_adj_zeros=const_av(kaz), tol=const_av(0.0)))
        cc = "%s(keep_adj_zeros=%s)" % (c, kaz)
        unmodelled_in(r, chk, "R-ZC-STRICT", cc)
        cm = r.events("compare", ZC)
        z = [(against_const(e, 0), e) for e in cm]
        prod = [(n[0], e) for n, e in z if n is not None and n[0] in ("Lt", "LtE", "Gt", "GtE") and "p:values" in n[1].tags and n[1].kind == K_ARRAY
                and alg_degree(n[1].a(R)) in (Exp(2), None)]
        chk.ob("R-ZC-STRICT", cc + "{crossing}", "sign change <=> product of neighbours < 0 (strict)", len(prod) == 1 and prod[0][0] == "Lt",
               derived="%s" % [(op, e.stmt) for op, e in prod], loc=prod[0][1].loc if prod else fi.loc(), inconclusive=not prod)
        zeros = [e for n, e in z if n is not None and n[0] == "Eq" and n[1].kind == K_ARRAY and alg_degree(n[1].a(R)) == Exp(1) and
                 "p:values" in n[1].tags and n[1].shape == (LinExpr("n"),)]       # the series itself (a copy or not), full length
        # any other test of the full-length series (or its absolute value) against a literal is a located, different zero test
        zcand = [e for e in cm if e not in [x for _, x in [(0, y) for y in zeros]] and any(
            s_.kind == K_ARRAY and "p:values" in s_.tags and s_.shape == (LinExpr("n"),) and alg_degree(s_.a(R)) == Exp(1) and o_.has_const()
            for s_, o_ in ((e.left, e.right), (e.right, e.left)))]
        chk.ob("R-ZC-STRICT", cc + "{zeros}", "exact zeros are `values == 0`", len(zeros) == 1, derived="%d `== 0` test(s) on the values%s" % (
            len(zeros), "; other test(s) of the series against a literal: %s" % [e.stmt for e in zcand] if zcand and not zeros else ""),
               loc=zeros[0].loc if zeros else (zcand[0].loc if zcand else fi.loc()), inconclusive=not zeros and not zcand)
        # the test on the distances between successive zero positions: an array of index differences against a literal.  It must hold for
        # a distance of 2 and fail for a distance of 1 (`> 1`, `>= 2`)
        adj = [e for e in cm if e.right.has_const() and type(e.right.const) in (int, float) and "where-index" in e.left.tags and e.left.kind == K_ARRAY and
               "diff" in e.left.tags]
        _T = {"Gt": lambda a_, b_: a_ > b_, "GtE": lambda a_, b_: a_ >= b_, "Lt": lambda a_, b_: a_ < b_, "LtE": lambda a_, b_: a_ <= b_,
              "Eq": lambda a_, b_: a_ == b_, "NotEq": lambda a_, b_: a_ != b_}
        if not kaz:
            chk.ob("R-ZC-STRICT", cc + "{adjacent zeros}", "a zero is kept iff its distance to the previous zero is > 1", len(adj) >= 1 and
                   all(e.op in _T and _T[e.op](2, e.right.const) and not _T[e.op](1, e.right.const) for e in adj),
                   derived="%s" % [(e.op, e.right.const) for e in adj], loc=adj[0].loc if adj else fi.loc(), inconclusive=not adj)
            # the filter runs whenever there are two or more zeros and never on an empty set (np.take of nothing fails): its guard on the
            # number of zeros holds for 2 and fails for 0
            gd = [n for n in ast.walk(fi.node) if isinstance(n, ast.Compare) and len(n.ops) == 1 and isinstance(n.left, ast.Call) and
                  ast.unparse(n.left.func) == "len" and isinstance(n.comparators[0], ast.Constant) and type(n.comparators[0].value) is int and
                  any(isinstance(p_, ast.If) and any(n is y for y in ast.walk(p_.test)) and
                      any(isinstance(y, ast.Name) and y.id == "keep_adj_zeros" for y in ast.walk(p_.test)) for p_ in ast.walk(fi.node))]
            for n in gd[:1]:
                opn, cv = type(n.ops[0]).__name__, n.comparators[0].value
                chk.ob("R-ZC-STRICT", cc + "{adjacent guard}", "the adjacent-zero filter runs for two or more zeros and not for none", opn in _T and
                       _T[opn](2, cv) and not _T[opn](0, cv), derived="len(...) %s %s" % (opn, cv), loc=fi.loc(n), stmt=norm_stmt(n))
        if not kaz:
            # the first zero of the series is always kept.  Two spellings are known: (i) the index differences are taken with a literal
            # to_begin > 1, so the first one passes `> 1`; (ii) a keep-mask allocated by np.ones whose elements [1:] are overwritten by the
            # `> 1` test (element 0 stays True).  Neither found: the rule cannot tell (inconclusive), it does not refute.
            ed = [e for e in r.events("lib-call", ZC) if e.name == "numpy.ediff1d" and "where-index" in e.args[0].tags]
            mk = [e for e in r.events("subscript", ZC) if e.index.kind == K_ARRAY and e.index.dtype == "bool" and "where-index" in e.base.tags and
                  isinstance(e.index.note, tuple) and e.index.note and e.index.note[0] == "init"]
            dfp = [e for e in r.events("lib-call", ZC) if e.name == "numpy.diff" and "where-index" in e.args[0].tags and "prepend" in e.kwargs]
            if ed:
                tb = ed[0].kwargs.get("to_begin")
                oks = len(ed) == 1 and tb is not None and tb.has_const() and isinstance(tb.const, (int, float)) and tb.const > 1
                chk.ob("R-ZC-STRICT", cc + "{first zero}", "the first zero of the series is always kept: its index difference is a literal > 1", oks,
                       derived="to_begin=%s" % ((tb.const if tb.has_const() else "a computed value") if tb is not None else None), loc=ed[0].loc,
                       stmt=ed[0].stmt)
            elif dfp:
                # (iii) np.diff(indices, prepend=c): the first difference is indices[0] - c, which passes `> 1` for every first index
                # (0 included) exactly when c < -1
                pv = dfp[0].kwargs.get("prepend")
                okp = len(dfp) == 1 and pv is not None and pv.has_const() and isinstance(pv.const, (int, float)) and pv.const < -1
                chk.ob("R-ZC-STRICT", cc + "{first zero}", "the first zero of the series is always kept: np.diff(..., prepend=c) needs c < -1 so that "
                       "indices[0] - c > 1 for a first zero at index 0 or 1", okp,
                       derived="prepend=%s" % ((pv.const if pv.has_const() else "a computed value") if pv is not None else None), loc=dfp[0].loc,
                       stmt=dfp[0].stmt, inconclusive=(pv is not None and not pv.has_const()))
            elif mk:
                m = mk[0].index
                oks = "alloc:ones" in m.tags and m.note[2] == frozenset(["all-but-first"])
                chk.ob("R-ZC-STRICT", cc + "{first zero}", "the first zero of the series is always kept: the keep-mask starts as np.ones and only its "
                       "elements [1:] are overwritten", oks, derived="mask allocated by %s, overwritten regions %s" %
                       (sorted(t for t in m.tags if t.startswith("alloc:")), sorted(m.note[2])), loc=mk[0].loc)
            else:
                chk.ob("R-ZC-STRICT", cc + "{first zero}", "the first zero of the series is always kept", False,
                       derived="neither a literal to_begin nor a ones-initialised keep-mask was found", inconclusive=True, loc=fi.loc())
        cats = [e for e in r.events("lib-call", ZC) if e.name == "numpy.concatenate" and e.args and e.args[0].items is not None]
        cat = [e for e in cats if all(i.kind == K_ARRAY for i in e.args[0].items)]                  # joins of index arrays
        pre_cat = [e for e in cats if len(e.args[0].items) == 2 and e.args[0].items[0].kind in (K_LIST, K_TUPLE) and e.args[0].items[0].items is not None
                   and len(e.args[0].items[0].items) == 1 and e.args[0].items[0].items[0].has_const() and e.args[0].items[0].items[0].const == 0
                   and "where-index" in e.args[0].items[1].tags]                                  # np.concatenate(([0], indices))
        # the same prepend with the zero held in a one-element array: np.concatenate((np.zeros(1, dtype=...), indices)) / (np.array([0]), indices)
        pre_cat += [e for e in cats if e not in pre_cat and len(e.args[0].items) == 2 and e.args[0].items[0].kind == K_ARRAY and
                    e.args[0].items[0].shape is not None and tuple(e.args[0].items[0].shape) == (LinExpr(1),) and
                    (e.args[0].items[0].sign == S_ZERO or e.args[0].items[0].f0) and "where-index" in e.args[0].items[1].tags]
        cat = [e for e in cat if e not in pre_cat]
        srt = [e for e in r.events("mutation", ZC) if e.how == "ndarray.sort"] + \
            [e for e in r.events("lib-call", ZC) if e.name in ("numpy.sort", "numpy.unique") and "where-index" in e.args[0].tags]   # unique: sorted
        okc = len(cat) == 1 and len(cat[0].args[0].items) == 2 and all("where-index" in i.tags for i in cat[0].args[0].items) and \
            len(cats) == len(cat) + len(pre_cat)
        chk.ob("R-ZC-STRICT", cc + "{assembly}", "result = sorted concatenation of the zero set and the crossing set (no other source of indices)",
               okc and len(srt) == 1, derived="%d joining concatenate, %d prepending, %d other, %d sort" % (len(cat), len(pre_cat), len(cats) - len(cat) - len(pre_cat),
                                                                                                        len(srt)), loc=cat[0].loc if cat else fi.loc(),
               inconclusive=not cat)
        ins0 = [e for e in r.events("lib-call", ZC) if e.name == "numpy.insert" and e.args[1].has_const() and e.args[1].const == 0 and
                e.args[2].has_const() and e.args[2].const == 0 and "where-index" in e.args[0].tags] + pre_cat
        guard = [e for e in cm if e.op == "NotEq" and e.right.has_const() and e.right.const == 0 and e.left.kind in (K_SCALAR, K_TOP) and "where-index" in e.left.tags]
        chk.ob("R-ZC-STRICT", cc + "{index 0}", "index 0 is prepended exactly when the first index is not 0", len(ins0) == 1 and len(guard) == 1,
               derived="%d prepend(s) of 0, %d `[0] != 0` guard" % (len(ins0), len(guard)), loc=ins0[0].loc if ins0 else fi.loc(),
               inconclusive=not ins0 and not guard)
        # "the first index is not 0" is a statement about the smallest index: it is tested on the SORTED array (on the unsorted concatenation the
        # first entry is the first exact zero, and a series that starts negative gets index 0 twice)
        evs_ = list(r.I.events)
        pos_ = {id(e): k for k, e in enumerate(evs_)}
        if len(srt) == 1 and len(guard) == 1 and id(srt[0]) in pos_ and id(guard[0]) in pos_:
            chk.ob("R-ZC-STRICT", cc + "{index 0: order}", "the test `indices[0] != 0` reads the sorted array (the sort comes first)",
                   pos_[id(srt[0])] < pos_[id(guard[0])], derived="sort %s the test" % ("precedes" if pos_[id(srt[0])] < pos_[id(guard[0])] else "FOLLOWS"),
                   loc=guard[0].loc, stmt=guard[0].stmt)
        expect(chk, "R-ZC-STRICT", cc + ".result", r.ret, dtype="int", sign="nonneg", kind=K_ARRAY, tags_has=["where-index"], loc=fi.loc())
        # a literal result (`return np.array([0])`) is the answer only when NOTHING was found: the test that guards it reads the index set.  A
        # literal result decided from the samples alone (constant record, all zeros ...) skips the zeros an all-zero record has
        # (decided where adjacent zeros are requested: there every zero of an all-zero record is an index of the result)
        for n in (ast.walk(fi.node) if kaz else ()):
            if isinstance(n, ast.If) and len(n.body) >= 1 and isinstance(n.body[-1], ast.Return) and isinstance(n.body[-1].value, ast.Call) and \
                    ast.unparse(n.body[-1].value.func).split(".")[-1] in ("array", "asarray", "zeros") and n.body[-1].value.args and \
                    isinstance(n.body[-1].value.args[0], (ast.List, ast.Tuple, ast.Constant)):
                inside = {id(x) for x in ast.walk(n.test)}
                evs = [e for e in r.events("compare", ZC) if id(e.node) in inside]
                reads_idx = any("where-index" in (e.left.tags | e.right.tags) for e in evs)
                reads_vals = any("p:values" in (e.left.tags | e.right.tags) for e in evs)
                if evs:
                    chk.ob("R-ZC-STRICT", cc + "{literal result: %s}" % " ".join(ast.unparse(n.test).split())[:60],
                           "a literal result is returned only when the index set is empty (the guard reads the indices found)", reads_idx,
                           derived="the guard reads %s" % ("the index set" if reads_idx else ("the samples only" if reads_vals else "neither")),
                           loc=fi.loc(n), stmt=norm_stmt(n.test), inconclusive=not reads_idx and not reads_vals)
        if not kaz:
            # no zero and no sign change at all: the result is [0] (index 0 is always reported), decided by `len(indices) == 0`
            for n in ast.walk(fi.node):
                if isinstance(n, ast.If) and isinstance(n.test, ast.Compare) and len(n.test.ops) == 1 and isinstance(n.test.left, ast.Call) and \
                        ast.unparse(n.test.left.func) == "len" and isinstance(n.test.comparators[0], ast.Constant) and len(n.body) == 1 and \
                        isinstance(n.body[0], ast.Return) and isinstance(n.body[0].value, ast.Call) and \
                        ast.unparse(n.body[0].value.func).split(".")[-1] in ("array", "asarray") and n.body[0].value.args and \
                        isinstance(n.body[0].value.args[0], (ast.List, ast.Tuple)):
                    lit = [e_.value if isinstance(e_, ast.Constant) else "?" for e_ in n.body[0].value.args[0].elts]
                    chk.ob("R-ZC-STRICT", c + "{nothing found}", "with no zero and no crossing the result is [0], decided by len(indices) == 0",
                           isinstance(n.test.ops[0], ast.Eq) and n.test.comparators[0].value == 0 and lit == [0],
                           derived="%s -> %s" % (" ".join(ast.unparse(n.test).split()), lit), loc=fi.loc(n), stmt=norm_stmt(n.test))
            # the product series is led by values[0] so that its positions are sample positions
            for e in r.events("lib-call", ZC):
                if e.name == "numpy.insert" and len(e.args) >= 3 and alg_degree(e.args[0].a(R)) == Exp(2) and e.args[1].has_const() and e.args[1].const == 0:
                    v_ = e.args[2]
                    chk.ob("R-ZC-STRICT", c + "{leading entry}", "the product series is led by the first sample, values[0]",
                           isinstance(v_.note, tuple) and v_.note[:1] == ("first-of",) and "p:values" in v_.tags,
                           derived="note %s" % (v_.note,), loc=e.loc, stmt=e.stmt)
    # tolerance
    r = analyse(chk, ZC, lambda I, st, fi: dict(values=rec_array("values"), tol=AV(kind=K_SCALAR, dtype="real", shape=(), sign=S_POS, origin=frozenset(["lit"]),
                                                                               tags=frozenset(["p:tol"]), note="pyscalar")))
    dele = [e for e in r.events("lib-call", ZC) if e.name == "numpy.delete"]
    rets = r.returns()
    ops_after = [e for e in r.events("lib-call", ZC) if e.name in ("numpy.insert", "numpy.append", "numpy.concatenate") and any("p:tol" in a.tags for a in e.args)]
    masks = [e for e in r.events("subscript", ZC) if e.index.kind == K_ARRAY and e.index.dtype == "bool" and "p:tol" in e.index.tags and
             "where-index" in e.base.tags]               # all_zc_indices[keep]: the same thing as np.delete of the complement
    drops = [("np.delete", e.args[0], e.loc) for e in dele] + [("boolean mask", e.base, e.loc) for e in masks]
    chk.ob("R-TOL-SUB", c + "(tol>0){delete}", "the tolerance only deletes entries of the tol=0 result (np.delete or a boolean keep-mask)",
           len(drops) == 1 and not ops_after and "where-index" in drops[0][1].tags,
           derived="%d deleting op(s) %s, %d inserting op(s) depending on tol" % (len(drops), [d[0] for d in drops], len(ops_after)),
           loc=drops[0][2] if drops else fi.loc(), inconclusive=not drops and not ops_after)
    chk.ob("R-TOL-SUB", c + "(tol>0).result", "the result is a subsequence of the tol=0 result", any("subsequence" in v.tags for v in rets),
           derived="%s" % [sorted(t for t in v.tags if t in ("subsequence",)) for v in rets], loc=fi.loc(),
           # the subsequence tag is derived for np.delete / boolean keep-masks; a result assembled some other way (survivors collected in a list,
           # a rebuilt array) with no deleting and no inserting operation located says nothing either way
           inconclusive=(not drops and not ops_after))
    r = analyse(chk, ZC, lambda I, st, fi: dict(values=rec_array("values"), tol=const_av(-1.0)))
    normal = any(e.kind == "exit" and e.is_entry and e.normal for e in r.I.events)
    chk.ob("R-TOL-SUB", c + "(tol<0)", "a negative tolerance raises", not normal, derived="normal exit: %s" % normal, loc=fi.loc())


def _running_extreme_pairs(chk, fi, c):
    """Another design of the per-excursion maximum: a running pair (position, value) instead of candidate lists.  Where the code itself
    assigns `pos = e` together with `val = A[e]` at two or more places, the pair is `val == A[pos]` by the code's own belief, and every
    assignment to either variable -- the initial one included -- has to keep it: a pair initialised otherwise lets the first sample
    lose against, or win over, samples it should not."""
    def pairs_in(block):
        out = []
        for a, b in zip(block, block[1:]):
            if all(isinstance(x, ast.Assign) and len(x.targets) == 1 and isinstance(x.targets[0], ast.Name) for x in (a, b)):
                out.append((a, b))
        for st in block:
            for fld in ("body", "orelse"):
                sub = getattr(st, fld, None)
                if isinstance(sub, list) and sub and isinstance(sub[0], ast.stmt) and not isinstance(st, (ast.FunctionDef, ast.ClassDef)):
                    out.extend(pairs_in(sub))
        return out

    def reads_at(v, pos_expr):
        return isinstance(v, ast.Subscript) and isinstance(v.value, ast.Name) and ast.dump(v.slice) == ast.dump(pos_expr)
    # only where the loop starts after the first sample (range(1, ...)): a loop from 0 lets the first sample compete by itself, and then
    # any start value below every |value| is right
    lps = [n for n in fi.node.body if isinstance(n, ast.For)]
    if not (len(lps) == 1 and isinstance(lps[0].iter, ast.Call) and ast.unparse(lps[0].iter.func) == "range" and len(lps[0].iter.args) >= 2 and
            isinstance(lps[0].iter.args[0], ast.Constant) and isinstance(lps[0].iter.args[0].value, int) and lps[0].iter.args[0].value >= 1):
        return
    allp = pairs_in(fi.node.body)
    belief = {}
    for a, b in allp:
        for x, y in ((a, b), (b, a)):
            if reads_at(y.value, x.value) and not isinstance(x.value, ast.Constant):
                belief.setdefault((x.targets[0].id, y.targets[0].id, y.value.value.id), []).append((x, y))
    for (pos, val, arr), sites in sorted(belief.items()):
        if len(sites) < 2:
            continue
        # every other assignment to pos or val
        for st in ast.walk(fi.node):
            if isinstance(st, ast.Assign) and len(st.targets) == 1 and isinstance(st.targets[0], ast.Name) and st.targets[0].id in (pos, val):
                if any(st is x or st is y for x, y in sites):
                    continue
                mate = [(a, b) for a, b in allp if st is a or st is b]
                ok = False
                for a, b in mate:
                    x, y = (a, b) if a.targets[0].id == pos else (b, a)
                    if x.targets[0].id == pos and y.targets[0].id == val and reads_at(y.value, x.value) and y.value.value.id == arr:
                        ok = True
                chk.ob("R-SW-COVER", c + "{running pair %s/%s: %s}" % (pos, val, norm_stmt(st)),
                       "%s is %s[%s] wherever either is assigned (as at %d other place(s))" % (val, arr, pos, len(sites)), ok,
                       derived="`%s` without the matching `%s = %s[...]`" % (norm_stmt(st), val if st.targets[0].id == pos else pos, arr) if not ok
                       else "paired", loc=fi.loc(st), stmt=norm_stmt(st),
                       detail="the running maximum does not start from the first sample of the excursion" if not ok else None)


def switched_rules(chk):
    P = chk.P
    fi = P.fn(SW)
    c = "eqsig/fns/peaks_and_crossings.py:get_switched_peak_array_indices"
    loops = [n for n in fi.node.body if isinstance(n, ast.For)]
    if len(loops) != 1:
        chk.ob("R-SW-COVER", c, "one loop over the peaks", False, derived="%d" % len(loops), inconclusive=True, loc=fi.loc())
        return
    lp = loops[0]
    var = lp.target.id if isinstance(lp.target, ast.Name) else None
    # lists appended in lock step inside the loop (unconditionally, at the loop's top level)
    apps = [st.value for st in lp.body if isinstance(st, ast.Expr) and isinstance(st.value, ast.Call) and isinstance(st.value.func, ast.Attribute)
            and st.value.func.attr == "append" and isinstance(st.value.func.value, ast.Name)]
    vals_list = idx_list = src = None
    for a in apps:
        arg = a.args[0]
        if isinstance(arg, ast.Name) and arg.id == var:
            idx_list = a.func.value.id
        elif isinstance(arg, ast.Subscript) and isinstance(arg.slice, ast.Name) and arg.slice.id == var and isinstance(arg.value, ast.Name):
            vals_list, src = a.func.value.id, arg.value.id
    if not (vals_list and idx_list):
        _running_extreme_pairs(chk, fi, c)
        chk.ob("R-SW-COVER", c, "the loop appends peak_values[i] and i to two candidate lists", False, derived="appends %s" % [ast.unparse(a) for a in apps],
               inconclusive=True, loc=fi.loc(lp))
        return
    chk.ob("R-SW-COVER", c + "{lock step}", "value list and index list are appended together for the same peak", True,
           derived="%s.append(%s[%s]); %s.append(%s)" % (vals_list, src, var, idx_list, var), loc=fi.loc(lp))
    rng = lp.iter.args if (isinstance(lp.iter, ast.Call) and ast.unparse(lp.iter.func) == "range") else []
    start = rng[0].value if (len(rng) >= 2 and isinstance(rng[0], ast.Constant)) else (0 if len(rng) == 1 else None)
    stop_ok = bool(rng) and ast.unparse(rng[-1] if len(rng) <= 2 else rng[1]).replace(" ", "") == "len(%s)" % src
    # initial contents before the loop
    init_v = init_i = None
    for st in fi.node.body:
        if st is lp:
            break
        if isinstance(st, ast.Assign) and isinstance(st.targets[0], ast.Name) and isinstance(st.value, ast.List):
            if st.targets[0].id == vals_list:
                init_v = st
            elif st.targets[0].id == idx_list:
                init_i = st
    covered = set()
    ok_init = True
    why = []
    if init_i is not None and init_v is not None and len(init_i.value.elts) == len(init_v.value.elts):
        for ei, ev_ in zip(init_i.value.elts, init_v.value.elts):
            k = ei.value if isinstance(ei, ast.Constant) else None
            if isinstance(ev_, ast.Name):
                # a local bound just before, at the function's top level (last = peak_values[0]): what it holds when the list is built
                prior = [st_ for st_ in fi.node.body if isinstance(st_, ast.Assign) and len(st_.targets) == 1 and isinstance(st_.targets[0], ast.Name)
                         and st_.targets[0].id == ev_.id and st_.lineno < init_v.lineno]
                later = [st_ for st_ in ast.walk(fi.node) if isinstance(st_, (ast.Assign, ast.AugAssign)) and st_.lineno < init_v.lineno and
                         st_ not in prior and any(isinstance(x, ast.Name) and x.id == ev_.id and isinstance(x.ctx, ast.Store) for x in ast.walk(st_))]
                if len(prior) == 1 and not later:
                    ev_ = prior[0].value
            is_elem = isinstance(ev_, ast.Subscript) and isinstance(ev_.value, ast.Name) and ev_.value.id == src and isinstance(ev_.slice, ast.Constant) \
                and ev_.slice.value == k
            if k is None or not is_elem:
                ok_init = False
                why.append("index %s is represented by `%s` instead of %s[%s]" % (ast.unparse(ei), ast.unparse(ev_), src, ast.unparse(ei)))
            else:
                covered.add(k)
    else:
        ok_init = False
        why.append("initial lists not found or of different length")
    full = ok_init and start is not None and set(range(start)) <= covered and stop_ok
    chk.ob("R-SW-COVER", c + "{index coverage}", "every peak index 0..n-1 enters a candidate set with its own value", full,
           derived="; ".join(why) or "initial indices %s, loop covers %s..len(%s)-1" % (sorted(covered), start, src),
           loc=fi.loc(init_v) if init_v is not None else fi.loc(), stmt=norm_stmt(init_v) if init_v is not None else None,
           detail="[5,3,4,-1] returns [2,3]: the global |max| at index 0 never enters the first excursion's candidates" if not full else None)
    chk.ob("R-SW-COVER", c + "{loop range}", "the loop covers every remaining peak: range(%s, len(%s))" % (start, src), stop_ok and start is not None,
           derived="range(%s)" % ", ".join(ast.unparse(a) for a in rng), loc=fi.loc(lp))
    # ---- selection
    pk_rets = []

    def _capture(I):
        orig = I.call_function

        def wrapped(fi_, bound, state, caller_fr, node, self_obj=None, is_entry=False):
            ret, st_, fl = orig(fi_, bound, state, caller_fr, node, self_obj=self_obj, is_entry=is_entry)
            if fi_.qualname.endswith(".get_peak_array_indices") and ret is not None and caller_fr is not None and caller_fr.fi is fi:
                pk_rets.append((ret, fi.loc(node)))
            return ret, st_, fl
        I.call_function = wrapped
    r = analyse(chk, SW, lambda I, st, fi: dict(values=rec_array("values")), setup=_capture)
    unmodelled_in(r, chk, "R-SW-SEL", c)
    am = [e for e in r.events("lib-call", SW) if e.name == "numpy.argmax"]
    seen = set()
    for e in am:
        if e.stmt in seen:
            continue
        seen.add(e.stmt)
        a0 = as_num_(r, e.args[0])
        chk.ob("R-SW-SEL", c + "{%s}" % e.stmt, "argmax over |candidate values|", "abs" in a0.tags and alg_parity(a0.a(R)) in ("even", "any") and
               is_nonneg(a0.sign), derived="%s sign %s" % (alg_str(a0.a(R)), a0.sign), loc=e.loc, stmt=e.stmt)
    if not am:
        chk.ob("R-SW-SEL", c + "{argmax}", "an argmax over the candidates", False, derived="none", loc=fi.loc(), inconclusive=True)
    # chosen index goes through the candidates' own index list
    sel = [n for n in ast.walk(fi.node) if isinstance(n, ast.Call) and isinstance(n.func, ast.Attribute) and n.func.attr == "append" and n.args and
           isinstance(n.args[0], ast.Subscript) and isinstance(n.args[0].value, ast.Name) and n.args[0].value.id == idx_list]
    chk.ob("R-SW-SEL", c + "{index list}", "the chosen position is mapped through the candidates' own index list", len(sel) >= 1 and
           all(isinstance(n.args[0].slice, ast.Name) for n in sel), derived="%d selection site(s)" % len(sel), loc=fi.loc(sel[0]) if sel else fi.loc(), inconclusive=not sel)
    tk = [e for e in r.events("lib-call", SW) if e.name == "numpy.take"]
    final = [e for e in tk if "red:argmax" in e.args[1].tags]
    chk.ob("R-SW-SEL", c + "{final map}", "result = np.take(peak_indices, chosen positions)", len(final) == 1 and "where-index" in final[0].args[0].tags and
           final[0].args[0].dtype == "int", derived="%d take(s) of chosen positions" % len(final), loc=final[0].loc if final else fi.loc(), inconclusive=not final)
    # strictly ascending for EVERY series, constant ones included: the peak finder lists index 0 and index len(cleaned) - 1 -- the same index when
    # the plateau-compressed series has one sample (a constant series; its two entries are both candidates of the one zero-valued "excursion" of an
    # all-zero series) -- so either those two end entries are provably distinct for every length >= 1, or the result passes through a step that
    # removes duplicates
    from ..values import eval_linexpr as _ev_ix, linexpr_from_repr as _lfr
    _det = analyse(chk, "eqsig.fns.peaks_and_crossings.determine_indices_of_peaks_for_cleaned_array", lambda I, st, fi: dict(values=rec_array("values")))
    _pr = _det.ret.parts if _det.ret is not None else None
    if _pr is not None and len(_pr) == 3 and _pr[0] == ("const", 0) and _pr[2][0] == "sym":
        try:
            _last = _lfr(_pr[2][1])
            _coincide = [n_ for n_ in range(1, 40) if _ev_ix(_last, {"n": n_}) == 0]          # lengths at which last entry == first entry (0)
            _unknown = False
        except Exception:
            _coincide, _unknown = [], True
        dedup = [e for e in r.events("lib-call", SW) if e.name == "numpy.unique"]
        chk.ob("R-SW-SEL", c + "{no duplicates}", "the reported indices are strictly ascending for every series: the peak finder's first and last entries are "
               "distinct for every length, or duplicates are removed from the result", bool(dedup) or (not _coincide and not _unknown),
               derived=("np.unique on the result" if dedup else
                        ("first entry 0 and last entry %s coincide when the plateau-compressed series has %s sample(s) (a constant series); no duplicate removal"
                         % (_pr[2][1], _coincide[:2]) if _coincide else "end entries distinct for every length")),
               loc=fi.loc(), inconclusive=(not dedup and _unknown))
    # whatever the spelling: the reported indices are elements of the peak-index array, so that array is read element-wise somewhere
    # (np.take, integer / mask indexing, or a scalar subscript).  Never reading it means positions are reported instead of indices.
    if len(pk_rets) == 1 and pk_rets[0][0].origin:
        po = pk_rets[0][0].origin
        reads = [e for e in tk if e.args[0].origin == po] + \
            [e for e in r.events("subscript", SW) if e.base.origin == po and e.index is not None and e.index.kind != K_SLICE]
        chk.ob("R-SW-SEL", c + "{indices read}", "the reported indices are read out of the peak-index array (np.take / indexing)", bool(reads),
               derived="%d element-wise read(s) of the peak-index array" % len(reads), loc=reads[0].loc if reads else pk_rets[0][1],
               detail="positions within the peak list are reported instead of sample indices" if not reads else None)
    cm = [e for e in r.events("compare", SW) if e.right.has_const() and e.right.const == 0 and alg_degree(e.left.a(R)) == Exp(2)]
    ops = {e.op for e in cm}
    chk.ob("R-SW-SEL", c + "{boundary}", "an excursion ends when value * reference <= 0 (zeros end an excursion)", ops == {"LtE"},
           derived="%s" % sorted(ops), loc=cm[0].loc if cm else fi.loc(), inconclusive=not cm)
    # the boundary decision is that one comparison and nothing else
    bnd = [n for n in ast.walk(fi.node) if isinstance(n, ast.If) and any(isinstance(x, ast.Compare) and isinstance(x.ops[0], (ast.LtE, ast.Lt, ast.GtE, ast.Gt)) and
                                                                         isinstance(x.left, ast.BinOp) and isinstance(x.left.op, ast.Mult) for x in ast.walk(n.test))]
    chk.ob("R-SW-SEL", c + "{boundary test}", "the excursion boundary is decided by the product comparison alone (no further condition)",
           len(bnd) == 1 and isinstance(bnd[0].test, ast.Compare), derived="test `%s`" % (ast.unparse(bnd[0].test) if bnd else None),
           loc=fi.loc(bnd[0]) if bnd else fi.loc(), inconclusive=not bnd)
    expect(chk, "R-SW-SEL", c + ".result", r.ret, deg={R: 0}, parity={R: "even"}, dtype="int", sign="nonneg", loc=fi.loc())


def as_num_(r, v):
    return r.I.api.as_num(v)

"""C15 -- Stockwell transform: two-implementation agreement, linearity, abs-before-argmax and axes (structural clauses only).

Equality with the discrete S-transform in every time-frequency cell, the Fourier marginal and the inverse to rounding are NOT decided."""
import ast

from ..tyob import *  # noqa
from ..program import norm_stmt
from ..tyob import analyse, expect, item, unmodelled_in, concat_pieces

ST = "eqsig.stockwell."
ACC = "eqsig.single.AccSignal"
HALF = "int[div[n,2]]"


def run(chk):
    P = chk.P
    chk.rule("R-ST-SIB", "transform and transform_w_scipy_fft have equal library-call skeletons up to the FFT provider: even truncation "
                         "2*int(len/2) as FFT length, conj on the first Toeplitz argument only, rows 1 : n/2+1, Gaussian window, inverse FFT "
                         "along axis 1, flipud")
    chk.rule("R-ST-LIN", "the transform is linear in the record, complex, (n/2) x n; the inverse is linear, sums over axis 1, leaves bins 0 and "
                         "n/2 at zero and returns the real part")
    chk.rule("R-ST-GAUSS", "the shared window is exp(-(2*pi*f_m/f_k)^2/2) transposed, f_k = k/(2*n_d2) for k = 0..n_d2, f_m the FFT-ordered "
                           "signed frequencies (non-negative half followed by the flipped negated interior), k from 1: normal form of the "
                           "returned expression against the reference spelling")
    chk.rule("R-ST-AXIS", "dominant-frequency helpers take argmax(abs(.), axis=0) and map it through a frequency axis flipped like the rows")

    def gauss_tag(I):
        orig = I.call_function

        def wrapped(fi, bound, state, caller_fr, node, self_obj=None, is_entry=False):
            ret, st, fl = orig(fi, bound, state, caller_fr, node, self_obj=self_obj, is_entry=is_entry)
            if "gaussian" in fi.qualname.split(".")[-1] and ret is not None:         # generate_gaussian and helpers it was split into
                ret = ret.replace(tags=ret.tags | frozenset(["gaussian"]))
            return ret, st, fl
        I.call_function = wrapped
    import sa.tyob as _t
    sks = {}
    for name in ("transform", "transform_w_scipy_fft"):
        q = ST + name
        c = "eqsig/stockwell.py:" + name
        # run with the gaussian tag
        fi = P.fn(q)
        r = analyse(chk, q, lambda I, st, fi: dict(acc=rec_array("acc")), setup=gauss_tag)
        unmodelled_in(r, chk, "R-ST-SIB", c)
        sk, facts = _skeleton_from(r, q)
        sks[name] = sk
        nfft = "2*%s" % HALF
        chk.ob("R-ST-SIB", c + "{fft length}", "FFT length is the even truncation 2*int(len/2)", facts.get("fft.n") == nfft, derived="n=%s" % facts.get("fft.n"),
               loc=fi.loc())
        chk.ob("R-ST-SIB", c + "{fft input}", "the FFT is applied to the record itself", facts.get("fft.input") == ["p:acc"], derived="%s" % facts.get("fft.input"),
               loc=fi.loc())
        tz = facts.get("toeplitz")
        chk.ob("R-ST-SIB", c + "{conjugation}", "conj on the first Toeplitz argument (first n/2+1 bins) only", tz is not None and tz[0] is True and tz[1] is False
               and tz[2] == HALF + "+1" and tz[3] == nfft, derived="%s" % (tz,), loc=fi.loc(), inconclusive=tz is None)     # no Toeplitz call: another construction
        chk.ob("R-ST-SIB", c + "{rows}", "rows 1 : n/2+1 (the zero-frequency row is dropped)", facts.get("rows") == ("1", HALF + "+1"), derived="%s" % (facts.get("rows"),),
               loc=fi.loc(), inconclusive=facts.get("rows") is None)
        chk.ob("R-ST-SIB", c + "{inverse fft}", "inverse FFT of (spectrum rows x Gaussian) along axis 1", facts.get("ifft.axis") == 1 and facts.get("ifft.window") is True,
               derived="axis=%s, window applied: %s" % (facts.get("ifft.axis"), facts.get("ifft.window")), loc=fi.loc(),
               # several inverse transforms (a blocked / row-by-row design): the single-expression facts do not describe it
               inconclusive=sum(1 for s_ in sk if s_[0] == "ifft") != 1)
        ifc = [n for n in ast.walk(fi.node) if isinstance(n, ast.Call) and ast.unparse(n.func).split(".")[-1] == "ifft" and n.args and
               isinstance(n.args[0], ast.BinOp)]
        for n in ifc[:1]:
            chk.ob("R-ST-SIB", c + "{window product}", "the voice spectrum is MULTIPLIED by the Gaussian window before the inverse FFT",
                   isinstance(n.args[0].op, ast.Mult), derived=" ".join(ast.unparse(n.args[0]).split()), loc=fi.loc(n), stmt=norm_stmt(n))
        chk.ob("R-ST-SIB", c + "{flip}", "rows are flipped (Nyquist first)", any(s_ == ("flipud",) and k_ > [k for k, s in enumerate(sk) if s[0] == "ifft"][0] for k_, s_ in enumerate(sk))
               if any(s[0] == "ifft" for s in sk) else False, derived="%s" % [s[0] for s in sk], loc=fi.loc())
        expect(chk, "R-ST-LIN", c + ".result", r.ret, lin=[R], dtype="complex", shape=(HALF, LinExpr(HALF).scale(2)), kind=K_ARRAY, tags_has=["flip", "gaussian", "conj"],
               loc=fi.loc())
        # the lag matrix built by scipy's toeplitz is the construction the {conjugation} / {rows} rules read; another construction of the
        # voices is not located by them
        chk.ob("R-ST-LIN", c + ".result[via:toeplitz]", "derives through toeplitz", r.ret is not None and "toeplitz" in r.ret.tags,
               derived="tags %s" % sorted(t for t in (r.ret.tags if r.ret is not None else ()) if t == "toeplitz"), loc=fi.loc(),
               inconclusive=not (r.ret is not None and "toeplitz" in r.ret.tags) and tz is None)
    chk.ob("R-ST-SIB", "transform~transform_w_scipy_fft", "equal skeletons", sks["transform"] == sks["transform_w_scipy_fft"] and len(sks["transform"]) >= 6,
           derived="%s vs %s" % (sks["transform"], sks["transform_w_scipy_fft"]),
           inconclusive=(sks["transform"] == sks["transform_w_scipy_fft"]) or       # equal but shorter than the known construction: not located
           len(sks["transform"]) != len(sks["transform_w_scipy_fft"]))         # a different number of steps: another design, not a located difference
    # window depends only on n/2
    r = analyse(chk, ST + "generate_gaussian", lambda I, st, fi: dict(n_d2=int_scalar("n_d2", "h")))
    expect(chk, "R-ST-LIN", "eqsig/stockwell.py:generate_gaussian", r.ret, shape=("h", LinExpr("h").scale(2)), sign="pos", const_in=[R], loc=r.fi.loc())
    # inverse
    q = ST + "itransform"
    r = analyse(chk, q, lambda I, st, fi: dict(stock=AV(kind=K_ARRAY, dtype="complex", shape=(LinExpr("m"), LinExpr("N")), alg={R: LIN},
                                                         origin=frozenset(["p:stock"]), tags=frozenset(["p:stock"]))))
    c = "eqsig/stockwell.py:itransform"
    unmodelled_in(r, chk, "R-ST-LIN", c)
    expect(chk, "R-ST-LIN", c + ".result", r.ret, lin=[R], dtype="real", kind=K_ARRAY, tags_has=["fft:ifft", "conj", "flip", "real"], loc=r.fi.loc())
    # every one of the N = 2 * rows reconstructed samples is returned
    expect(chk, "R-ST-LIN", c + ".result{all samples}", r.ret, shape=(LinExpr("m").scale(2),), loc=r.fi.loc())
    sm = [e for e in r.events("lib-call", q) if e.name == "numpy.sum"]
    ax = sm[0].kwargs.get("axis") if sm else None
    chk.ob("R-ST-LIN", c + "{marginal}", "rows are summed over time (axis=1)", len(sm) == 1 and ax is not None and ax.has_const() and ax.const == 1,
           derived="axis=%s" % (ax.const if (ax is not None and ax.has_const()) else None), loc=sm[0].loc if sm else r.fi.loc())
    stores = [e for e in r.events("mutation", q) if e.how == "subscript-store" and e.index is not None and e.index.kind == K_SLICE]
    sl = sorted(((repr(e.index.items[0].sym) if e.index.items[0] is not None else None, repr(e.index.items[1].sym) if e.index.items[1] is not None else None,
                  "conj" in e.value.tags and "flip" in e.value.tags) for e in stores), key=repr)
    want = sorted([("1", "m", True), ("m+1", None, False)], key=repr)
    pcs, cat_ev = concat_pieces(r, lambda e: e.fn == q, "p:stock") if not stores else (None, None)
    if pcs is not None:
        m1 = repr(LinExpr("m") - 1)
        chk.ob("R-ST-LIN", c + "{halves}", "lower half = flip(conj(ss[1:])), upper half = ss[1:]; bins 0 and n/2 stay zero",
               pcs == [("1", "zero"), (m1, "mirror"), ("1", "zero"), (m1, "plain")], derived="pieces %s" % pcs, loc=cat_ev.loc)
    else:
        chk.ob("R-ST-LIN", c + "{halves}", "lower half = flip(conj(ss[1:])), upper half = ss[1:]; bins 0 and n/2 stay zero", sl == want, derived="%s" % sl,
               loc=stores[0].loc if stores else r.fi.loc(),
               # a half written through a reversed slice (x[a:b:-1] = ...) puts the mirror into the index, not into the value: not read here
               inconclusive=(not stores) or any(len(e.index.items) > 2 and e.index.items[2] is not None and e.index.items[2].kind != K_NONE for e in stores))
    # dominant frequency helpers
    summ = {}
    # the record is taken cold (no transform attached yet, so hasattr(asig, 'swtf') is False): the helper computes the transform itself
    for name, build in (("get_max_stockwell_freq", lambda I, st, fi: dict(asig=make_signal(I, st, P.cls(ACC), name="asig", is_param=False)[1])),
                        ("get_max_tifq_vals_freq", lambda I, st, fi: dict(tifq_values=AV(kind=K_ARRAY, dtype="complex", shape=(LinExpr("m"), LinExpr("N")),
                                                                                     alg={R: LIN}, origin=frozenset(["p:tifq_values"])),
                                                                          dt=pos_scalar("dt", DT)))):
        q = ST + name
        r = analyse(chk, q, build)
        c = "eqsig/stockwell.py:" + name
        unmodelled_in(r, chk, "R-ST-AXIS", c)
        inmod = lambda e: e.fn.startswith(ST)         # the helper may delegate to its sibling in the same module
        am = [e for e in r.events("lib-call") if inmod(e) and e.name == "numpy.argmax"]
        if len(am) != 1:
            chk.ob("R-ST-AXIS", c, "one argmax", False, derived="%d" % len(am), loc=r.fi.loc())
            continue
        a0 = am[0].args[0]
        axv = am[0].kwargs.get("axis")
        chk.ob("R-ST-AXIS", c + "{argmax}", "argmax(abs(.), axis=0): amplitude before ordering, over the frequency axis", a0.dtype == "real" and "abs" in a0.tags and
               is_nonneg(a0.sign) and axv is not None and axv.has_const() and axv.const == 0, derived="dtype %s, abs: %s, axis=%s" % (
                   a0.dtype, "abs" in a0.tags, axv.const if (axv is not None and axv.has_const()) else None), loc=am[0].loc)
        # selection of the frequencies by the argmax: np.take(freqs, idx) or freqs[idx]
        tk = [(e.args[0], e.args[1], e.loc) for e in r.events("lib-call") if inmod(e) and e.name == "numpy.take"] + \
             [(e.base, e.index, e.loc) for e in r.events("subscript") if inmod(e) and e.index.kind == K_ARRAY and "red:argmax" in e.index.tags and
              e.index.dtype == "int"]
        okt = len(tk) == 1 and "flip" in tk[0][0].tags and "red:argmax" in tk[0][1].tags and alg_degree(tk[0][0].a(DT)) == Exp(-1)
        from ..poly import Normaliser, straightline_env
        scopes = [r.fi] + [chk.P.fn(e.callee) for e in r.events("call") if e.fn == q and e.callee.startswith(ST) and e.callee in chk.P.functions]
        closed = None
        if not tk:
            # no table of frequencies: the frequency of row i written in closed form.  Row i of the flipped axis arange(1, p+1)/(2 p dt) is
            # element p-1-i of the unflipped one, (p - i) / (2 p dt): the expression computed from the argmax must be that polynomial
            for sc in scopes:
                ams = [n for n in ast.walk(sc.node) if isinstance(n, ast.Assign) and isinstance(n.targets[0], ast.Name) and isinstance(n.value, ast.Call)
                       and ast.unparse(n.value.func).split(".")[-1] == "argmax"]
                if len(ams) != 1:
                    continue
                ix = ams[0].targets[0].id
                env = straightline_env(sc.node.body, Normaliser(), exclude=set(sc.params) | {ix, "points"})
                import re as _re
                cands = []
                for n in ast.walk(sc.node):
                    e_ = n.value if isinstance(n, (ast.Assign, ast.Return)) and n.value is not None else None
                    if e_ is None or n is ams[0] or not isinstance(e_, ast.BinOp):
                        continue
                    # the row count under whatever local name (len(<the transform>)); the argmax under its own name
                    pl = env.poly(e_).subst_atoms(lambda a: "dt" if a.endswith(".dt") or a == "dt" else
                                                  ("points" if _re.fullmatch(r"len\([\w.]+\)", a) else a))
                    if ix in pl.atoms():
                        cands.append((isinstance(n, ast.Return), n.lineno, pl.canon(), sc.loc(n)))
                if cands:
                    # the returned expression when it is computed from the argmax (intermediate names expanded), else the last assignment
                    best = max(cands, key=lambda t: (t[0], t[1]))
                    closed = (best[2], best[3])
        if closed is not None:
            want_c = Normaliser().poly(ast.parse("(points - %s) / (2 * points * dt)" % ix, mode="eval").body).canon()
            chk.ob("R-ST-AXIS", c + "{frequency axis}", "row i (the argmax) is frequency (points - i) / (2 * points * dt): the flipped axis in closed form",
                   closed[0] == want_c, derived=closed[0], loc=closed[1])
            form = "closed form" if closed[0] == want_c else closed[0]
            okt = closed[0] == want_c
            chk.ob("R-ST-AXIS", c + "{axis form}", "frequencies = arange(1, points + 1) / (2 * points * dt)", closed[0] == want_c,
                   derived="closed form %s" % closed[0], loc=closed[1])
        else:
            chk.ob("R-ST-AXIS", c + "{frequency axis}", "frequencies (degree -1 in dt) flipped like the rows, indexed by the argmax", okt,
                   derived="%d selection(s) by the argmax" % len(tk), loc=tk[0][2] if tk else r.fi.loc(),
                   inconclusive=(not tk) or any(x.indef for t_ in tk for x in t_[:2]))
            # the rows of the transform are Nyquist-first (flipped), so the frequency table the argmax indexes must be reversed too: exactly
            # one reversal between its arithmetic definition and the selection
            for sc in scopes:
                sel = [n for n in ast.walk(sc.node) if isinstance(n, ast.Call) and ast.unparse(n.func).split(".")[-1] == "take" and n.args and
                       isinstance(n.args[0], ast.Name)]
                if not sel:
                    # the same selection spelt freqs[indices]: a name indexed by the name the argmax was assigned to
                    amn = {n.targets[0].id for n in ast.walk(sc.node) if isinstance(n, ast.Assign) and isinstance(n.targets[0], ast.Name) and
                           isinstance(n.value, ast.Call) and ast.unparse(n.value.func).split(".")[-1] == "argmax"}
                    sel = [type("S", (), {"args": [n.value], "lineno": n.lineno, "col_offset": n.col_offset, "node": n})() for n in ast.walk(sc.node)
                           if isinstance(n, ast.Subscript) and isinstance(n.value, ast.Name) and isinstance(n.slice, ast.Name) and n.slice.id in amn]
                for tcall in sel[:1]:
                    F = tcall.args[0].id
                    defs = [n for n in ast.walk(sc.node) if isinstance(n, ast.Assign) and len(n.targets) == 1 and isinstance(n.targets[0], ast.Name) and
                            n.targets[0].id == F]
                    nflip = sum(1 for d in defs for x in ast.walk(d.value) if isinstance(x, ast.Call) and
                                (ast.unparse(x.func) in ("np.flip", "np.flipud", "numpy.flip", "numpy.flipud") or
                                 (ast.unparse(x.func) in ("np.arange", "numpy.arange") and len(x.args) == 3 and ast.unparse(x.args[2]) == "-1")))
                    chk.ob("R-ST-AXIS", c + "{axis reversed}", "the frequency table is reversed once (rows are Nyquist-first)", nflip % 2 == 1,
                           derived="%d reversal(s) in the definition of `%s`" % (nflip, F), loc=sc.loc(tcall), stmt=norm_stmt(getattr(tcall, "node", tcall)))
            # the frequency axis itself: arange(1, points+1) / (2 * points * dt), points = number of rows

            def unflip(v):
                while isinstance(v, ast.Call) and ast.unparse(v.func) in ("np.flip", "np.flipud", "numpy.flip", "numpy.flipud") and v.args:
                    v = v.args[0]
                return v
            fdef = [n for sc in scopes for n in ast.walk(sc.node) if isinstance(n, ast.Assign) and isinstance(n.targets[0], ast.Name) and
                    isinstance(unflip(n.value), (ast.BinOp, ast.Call)) and "arange" in ast.unparse(n.value)]
            form = None
            if len(fdef) == 1:
                # a reversal commutes with the element-wise scaling, so where it is written does not matter to the form (that there is
                # exactly one is the obligation above)
                class _NoFlip(ast.NodeTransformer):
                    def visit_Call(self, n):
                        self.generic_visit(n)
                        if ast.unparse(n.func) in ("np.flip", "np.flipud", "numpy.flip", "numpy.flipud") and n.args:
                            return n.args[0]
                        if ast.unparse(n.func) in ("np.arange", "numpy.arange") and len(n.args) == 3 and not n.keywords and \
                                ast.unparse(n.args[2]) == "-1" and isinstance(n.args[1], ast.Constant) and type(n.args[1].value) is int:
                            # integers counted down, A, ..., B+1 (A is a length: the {points} obligation): arange(B + 1, A + 1) reversed
                            return ast.Call(func=n.func, args=[ast.Constant(value=n.args[1].value + 1),
                                                               ast.BinOp(left=n.args[0], op=ast.Add(), right=ast.Constant(value=1))], keywords=[])
                        return n
                import copy as _copy
                bare = _NoFlip().visit(_copy.deepcopy(fdef[0].value))
                form = Normaliser().poly(bare).subst_atoms(lambda a: "dt" if a.endswith(".dt") or a == "dt" else a).canon()
                # the row count under whatever local name: the name inside arange(1, 1 + <name>) is the count
                import re as _re
                m_ = _re.search(r"np\.arange\(1, 1 \+ 1\*([A-Za-z_]\w*)\)", form)
                if m_ and m_.group(1) != "points" and "points" not in form:
                    form = _re.sub(r"\b%s\b" % _re.escape(m_.group(1)), "points", form)


                    def _factors(txt):
                        out_, depth, cur = [], 0, ""
                        for ch in txt:
                            if ch == "(":
                                depth += 1
                            elif ch == ")":
                                depth -= 1
                            if ch == "*" and depth == 0:
                                out_.append(cur)
                                cur = ""
                            else:
                                cur += ch
                        out_.append(cur)
                        return sorted(out_)
                    if _factors(form) == _factors("1/2*dt^-1*np.arange(1, 1 + 1*points)*points^-1"):
                        form = "1/2*dt^-1*np.arange(1, 1 + 1*points)*points^-1"
            chk.ob("R-ST-AXIS", c + "{axis form}", "frequencies = arange(1, points + 1) / (2 * points * dt)", form == "1/2*dt^-1*np.arange(1, 1 + 1*points)*points^-1",
                   derived="%s" % form, loc=r.fi.loc(fdef[0]) if fdef else r.fi.loc(), inconclusive=(not fdef) or form is None)
        pts = [n for sc in scopes for n in ast.walk(sc.node) if isinstance(n, ast.Assign) and isinstance(n.targets[0], ast.Name) and n.targets[0].id == "points"]
        chk.ob("R-ST-AXIS", c + "{points}", "points is the number of rows of the transform", len(pts) == 1 and isinstance(pts[0].value, ast.Call) and
               ast.unparse(pts[0].value.func) == "len", derived="%s" % (ast.unparse(pts[0].value) if pts else None), loc=r.fi.loc(),
               inconclusive=not pts)
        summ[name] = (a0.dtype, "abs" in a0.tags, axv.const if (axv is not None and axv.has_const()) else None, okt, form)
    if len(summ) == 2:
        a, b = summ.values()
        diff_ = [k for k, (x, y) in enumerate(zip(a, b)) if x is not None and y is not None and x != y]
        chk.ob("R-ST-AXIS", "get_max_stockwell_freq~get_max_tifq_vals_freq", "sibling helpers have equal summaries", a == b, derived="%s vs %s" % (a, b),
               inconclusive=any(o.status == "inconclusive" for o in chk.obs if o.rule == "R-ST-AXIS") or (a != b and not diff_))   # differ only where one is not located
    # no ordering on complex data in the module (the package-wide rule lives in C06)
    gauss_rule(chk)
    chk.floor("R-ST-GAUSS", 1)
    chk.floor("R-ST-SIB", 12)
    chk.floor("R-ST-LIN", 10)
    chk.floor("R-ST-AXIS", 4)


def _skeleton_from(r, q):
    sk = []
    facts = {}
    mine = {id(e) for k_ in ("lib-call", "subscript") for e in r.events(k_, q)}      # also what new local helpers do on its behalf
    for e in r.I.events:
        if id(e) not in mine:
            continue
        if e.kind == "lib-call":
            short = e.name.split(".")[-1]
            if short == "fft":
                n = e.kwargs.get("n") or (e.args[1] if len(e.args) > 1 else None)
                facts["fft.n"] = repr(n.sym) if n is not None else None
                facts["fft.input"] = sorted(e.args[0].origin)
                sk.append(("fft", facts["fft.n"]))
            elif short == "conj":
                sk.append(("conj", repr(e.args[0].length()), "fft:fft" in e.args[0].tags))
            elif short == "toeplitz":
                facts["toeplitz"] = ("conj" in e.args[0].tags, ("conj" in e.args[1].tags) if len(e.args) > 1 else None,
                                     repr(e.args[0].length()), repr(e.args[1].length()) if len(e.args) > 1 else None)
                sk.append(("toeplitz",) + facts["toeplitz"])
            elif short == "ifft":
                ax = e.kwargs.get("axis")
                facts["ifft.axis"] = ax.const if (ax is not None and ax.has_const()) else None
                facts["ifft.window"] = "gaussian" in e.args[0].tags
                sk.append(("ifft", facts["ifft.axis"], facts["ifft.window"], repr(e.args[0].shape)))
            elif short in ("flipud", "flip"):
                sk.append(("flipud",))
        elif e.kind == "subscript" and "toeplitz" in e.base.tags and e.comps and e.comps[0].kind == K_SLICE:
            lo, up, _ = e.comps[0].items
            nrows = e.base.shape[0] if (e.base.shape is not None and len(e.base.shape) >= 1) else None
            # an open upper bound is the matrix's own row count (x[1:] of an m-row matrix is x[1:m])
            facts["rows"] = (repr(lo.sym) if lo is not None else None, repr(up.sym) if up is not None else (repr(nrows) if nrows is not None else None))
            sk.append(("rows",) + facts["rows"])
    return sk, facts


GAUSS_REF = ("np.exp(-(2 * np.pi * np.outer(np.concatenate((H, np.flipud(-H[1:-1]))), 1. / H[1:])) ** 2 / 2).transpose()",
             "np.arange(0, N + 1, 1) / (2 * N)")


def gauss_rule(chk):
    """The voice Gaussian in the frequency domain, exp(-2 pi^2 m^2 / k^2), is shared by both transforms, so a sibling comparison cannot
    see a changed width; its formula is compared here with a reference spelling in polynomial normal form (constants folded,
    temporaries inlined).  A difference confined to numeric constants / operators refutes; a different set of calls is inconclusive."""
    import re
    from ..poly import Normaliser, straightline_env
    fi = chk.P.fn(ST + "generate_gaussian")
    c = "eqsig/stockwell.py:generate_gaussian"
    rets = [n for n in ast.walk(fi.node) if isinstance(n, ast.Return)]
    if len(rets) != 1 or len(fi.params) != 1:
        chk.ob("R-ST-GAUSS", c, "one parameter, one return", False, derived="%d return(s)" % len(rets), inconclusive=True, loc=fi.loc())
        return
    syn = {"np.flip": "np.flipud", "numpy.flipud": "np.flipud", "np.transpose": "np.transpose"}
    norm = straightline_env(fi.node.body, Normaliser(rename={fi.params[0]: "N"}), exclude=set(fi.params))
    class _T(ast.NodeTransformer):
        """orientation (which axis is the voice) is decided by the shape obligation (h x 2h, R-ST-LIN): transposes are dropped here, the
        outer product is a product, and joining 1-D pieces by hstack is concatenate"""
        def visit_Attribute(self, n):
            self.generic_visit(n)
            if n.attr == "T" and isinstance(n.ctx, ast.Load):
                return n.value
            return n

        def visit_Call(self, n):
            self.generic_visit(n)
            f = ast.unparse(n.func)
            if isinstance(n.func, ast.Attribute) and n.func.attr == "transpose" and not n.args and not n.keywords:
                return n.func.value
            if f in ("np.transpose", "numpy.transpose") and len(n.args) == 1 and not n.keywords:
                return n.args[0]
            if f in ("np.hstack", "numpy.hstack"):
                n.func = ast.Attribute(value=n.func.value, attr="concatenate", ctx=ast.Load())
            return n

        def visit_Subscript(self, n):
            self.generic_visit(n)
            # x[:, np.newaxis] / x[np.newaxis, :] / x[None, :]: the same numbers, laid out for broadcasting
            if isinstance(n.slice, ast.Tuple) and len(n.slice.elts) == 2:
                kinds = ["new" if ast.unparse(e) in ("np.newaxis", "numpy.newaxis", "None") else
                         ("all" if (isinstance(e, ast.Slice) and e.lower is None and e.upper is None and e.step is None) else "?") for e in n.slice.elts]
                if sorted(kinds) == ["all", "new"]:
                    return n.value
            return n
    import copy
    for k_ in list(norm.env):
        pass
    norm2 = straightline_env([_T().visit(copy.deepcopy(st_)) for st_ in fi.node.body], Normaliser(rename={fi.params[0]: "N"}), exclude=set(fi.params))
    got = norm2.poly(ast.fix_missing_locations(_T().visit(copy.deepcopy(rets[0].value)))).canon()
    ref_txt = GAUSS_REF[0].replace("H", "(" + GAUSS_REF[1] + ")")
    want = Normaliser().poly(ast.fix_missing_locations(_T().visit(ast.parse(ref_txt, mode="eval").body))).canon()
    for a, b in (("numpy.", "np."), ("math.pi", "pi")):
        got = got.replace(a, b)
    skel = lambda t: re.findall(r"[A-Za-z_][\w\.]*", t)     # the sequence of names and calls; constants and operators dropped
    if got == want:
        chk.ob("R-ST-GAUSS", c, "window = exp(-(2 pi f_m / f_k)^2 / 2), transposed", True, derived="equal to the reference normal form", loc=fi.loc(rets[0]),
               nontrivial=True)
    elif skel(got) == skel(want):
        chk.ob("R-ST-GAUSS", c, "window = exp(-(2 pi f_m / f_k)^2 / 2), transposed", False, derived="same calls, different constants: %s" % got[:240],
               loc=fi.loc(rets[0]), detail="reference: %s" % want[:240])
    else:
        chk.ob("R-ST-GAUSS", c, "window = exp(-(2 pi f_m / f_k)^2 / 2), transposed", False, derived="built differently: %s" % got[:240],
               inconclusive=True, loc=fi.loc(rets[0]))

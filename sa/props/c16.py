"""C16 -- saved signals load back unchanged: writer precision, writer/reader layout agreement, dt channel, requested type."""
import ast
import re

from ..tyob import *  # noqa
from ..tyob import sibling_defaults, analyse, expect, item, unmodelled_in
from ..program import norm_stmt

L = "eqsig.loader."
SIG = "eqsig.single.Signal"
ACC = "eqsig.single.AccSignal"
SPEC = re.compile(r"%[-+ #0]*\d*(?:\.(\d+))?([diouxXeEfFgGsr])")
FSPEC = re.compile(r"\{[^{}:]*(?::[^{}]*?(?:\.(\d+))?([dfeEgGs])?)?\}")


def conversions(fi):
    """[(channel, kind, precision, node)] for every formatting of a value in the writer"""
    out = []
    for n in ast.walk(fi.node):
        if isinstance(n, ast.BinOp) and isinstance(n.op, ast.Mod) and isinstance(n.left, ast.Constant) and isinstance(n.left.value, str):
            specs = SPEC.findall(n.left.value)
            args = list(n.right.elts) if isinstance(n.right, ast.Tuple) else [n.right]
            for (prec, conv), a in zip(specs, args):
                out.append((ast.unparse(a), conv, int(prec) if prec else None, n, n.left.value))
        elif isinstance(n, ast.JoinedStr):
            for v in n.values:
                if isinstance(v, ast.FormattedValue):
                    spec = ast.unparse(v.format_spec)[2:-1] if v.format_spec is not None else ""
                    m = re.match(r".*?(?:\.(\d+))?([dfeEgGs])?$", spec)
                    conv = (m.group(2) or ("r" if not spec else "s")) if m else "s"
                    out.append((ast.unparse(v.value), conv, int(m.group(1)) if (m and m.group(1)) else None, n, spec))
        elif isinstance(n, ast.Call) and isinstance(n.func, ast.Attribute) and n.func.attr == "format" and \
                isinstance(n.func.value, ast.Constant) and isinstance(n.func.value.value, str):
            specs = FSPEC.findall(n.func.value.value)
            for (prec, conv), a in zip(specs, n.args):
                out.append((ast.unparse(a), conv or "r", int(prec) if prec else None, n, n.func.value.value))
        elif isinstance(n, ast.Call) and ast.unparse(n.func) in ("str", "repr") and n.args:
            out.append((ast.unparse(n.args[0]), "r", None, n, "repr"))
    return out


def run(chk):
    P = chk.P
    chk.rule("R-FMT-PREC", "every value is written by a fixed-point conversion with >= 6 decimals and dt with >= 4 decimals "
                           "(%e/%g or fewer decimals refute; repr or more decimals do not); the count is an integer conversion")
    chk.rule("R-FMT-LAYOUT", "writer layout (line 0 label, line 1 '<npts> <dt>', values from line 2, newline-joined) agrees with every "
                             "reader: header/skip arithmetic of both genfromtxt calls, line/token indices of the text reads")
    chk.rule("R-FMT-LOSSY", "the dt returned by the reader is parsed from the header text, never rebuilt from genfromtxt's sanitised "
                            "column names (taint: ndarray.dtype.names -> returned dt)")
    chk.rule("R-FMT-TYPE", "load_signal returns a constructed object for the default and for every literal it tests; load_sig -> Signal, "
                           "load_asig -> AccSignal; m scales the values only; the label is read only when requested")
    chk.rule("R-FMT-FWD", "save_signal forwards (path, values, dt, label) of the signal by role")
    chk.files.add("eqsig/loader.py")
    # ------------------------------------------------------------------ R-FMT-PREC
    w = P.fn(L + "save_values_and_dt")
    c = "eqsig/loader.py:save_values_and_dt"
    ffp, values, dt, label = w.params[:4]
    from ..textpat import TextEval
    te = TextEval(w, {ffp: "path", values: "values", dt: "dt", label: "label"}).run()

    def fields(pieces):
        for p_ in pieces:
            if p_[0] == "fld":
                yield p_
            elif p_[0] == "rep":
                for x in fields(p_[1]):
                    yield x
    nv = nd = nc = 0
    seen = set()
    for pieces in te.files.values():
        for _, role, conv, prec in fields(pieces):
            if (role, conv, prec) in seen:
                continue
            seen.add((role, conv, prec))
            if role == "count":
                nc += 1
                chk.ob("R-FMT-PREC", c + "{count}", "the number of points is written by an integer conversion", conv in "diu",
                       derived="conversion %s" % conv, loc=w.loc())
            elif role == "value":
                nv += 1
                ok = (conv in "fF" and prec is not None and prec >= 6) or conv == "r"
                chk.ob("R-FMT-PREC", c + "{values}", "values: fixed-point, >= 6 decimals", ok,
                       derived="conversion %s with precision %s" % (conv, prec), loc=w.loc())
            elif role == "dt":
                nd += 1
                ok = (conv in "fF" and prec is not None and prec >= 4) or conv == "r"
                chk.ob("R-FMT-PREC", c + "{dt}", "dt: fixed-point, >= 4 decimals", ok,
                       derived="conversion %s with precision %s" % (conv, prec), loc=w.loc())
    if not (nv and nd and nc):
        chk.ob("R-FMT-PREC", c, "conversions of values, dt and count were found", False,
               derived="values %d, dt %d, count %d%s" % (nv, nd, nc, "; " + "; ".join(te.problems[:2]) if te.problems else ""), inconclusive=True, loc=w.loc())
    # ------------------------------------------------------------------ writer layout
    lay = writer_layout(chk, w, c)
    readers(chk, lay)
    # ------------------------------------------------------------------ R-FMT-LOSSY
    r = analyse(chk, L + "load_values_and_dt", lambda I, st, fi: dict(ffp=AV(kind=K_STR, tags=frozenset(["p:ffp"]))))
    c2 = "eqsig/loader.py:load_values_and_dt"
    unmodelled_in(r, chk, "R-FMT-LOSSY", c2)
    for i, v in enumerate(r.returns()):
        d = item(v, 1)
        tainted = d is not None and "dtype-names" in d.tags
        chk.ob("R-FMT-LOSSY", c2 + ".dt", "returned dt does not derive from dtype.names", not tainted,
               derived="dt derives from %s" % sorted(t for t in (d.tags if d is not None else ()) if t in ("dtype-names", "file-text", "file-data")),
               loc=r.fi.loc(), detail="genfromtxt deletes '.' from column names: dt=2.5 is rebuilt as 0.5" if tainted else None)
        chk.ob("R-FMT-LOSSY", c2 + ".dt[source]", "returned dt is a float parsed from the file's text", d is not None and
               "file-text" in d.tags and "parsed-float" in d.tags and d.kind == K_SCALAR,
               derived="tags %s" % sorted(d.tags if d is not None else ()), loc=r.fi.loc())
        vals = item(v, 0)
        expect(chk, "R-FMT-LOSSY", c2 + ".values", vals, tags_has=["file-data"], kind=K_ARRAY, dtype="real", loc=r.fi.loc())
    # ------------------------------------------------------------------ R-FMT-TYPE
    fi = P.fn(L + "load_signal")
    lits = set()
    for n in ast.walk(fi.node):
        if isinstance(n, ast.Compare) and isinstance(n.left, ast.Name) and n.left.id == "astype":
            for cm in n.comparators:
                if isinstance(cm, ast.Constant) and isinstance(cm.value, str):
                    lits.add(cm.value)
                elif isinstance(cm, (ast.Tuple, ast.List)):
                    lits |= {e.value for e in cm.elts if isinstance(e, ast.Constant)}
    dflt = fi.defaults.get("astype")
    dval = dflt.value if isinstance(dflt, ast.Constant) else None
    for lit in sorted(lits | {dval}):
        r = analyse(chk, L + "load_signal", lambda I, st, fi, lit=lit: dict(ffp=AV(kind=K_STR), astype=const_av(lit)))
        unmodelled_in(r, chk, "R-FMT-TYPE", "eqsig/loader.py:load_signal(astype=%r)" % lit)
        o = r.st.heap.get(r.ret.obj) if r.ret.kind == K_OBJ else None
        chk.ob("R-FMT-TYPE", "eqsig/loader.py:load_signal(astype=%r%s)" % (lit, ", the default" if lit == dval else ""),
               "returns a constructed signal object", o is not None and o.cls is not None,
               derived="returns %s" % (o.cls.name if o is not None else ("None (falls off the end)" if r.ret.kind == K_NONE else r.ret.kind)),
               loc=fi.loc(), detail="load_signal(path) returns None" if (o is None and lit == dval) else None)
        if o is not None and lit in ("signal", "sig", "acc_sig", "asig"):
            want = "AccSignal" if lit.startswith("a") else "Signal"
            chk.ob("R-FMT-TYPE", "eqsig/loader.py:load_signal(astype=%r)[class]" % lit, "returns a %s" % want, o.cls.name == want,
                   derived="returns %s" % o.cls.name, loc=fi.loc())
    for q, cls in ((L + "load_sig", "Signal"), (L + "load_asig", "AccSignal")):
        for ll in ((False, True) if q.endswith("asig") else (None,)):
            def build(I, st, fi, ll=ll):
                d = dict(ffp=AV(kind=K_STR, tags=frozenset(["p:ffp"])), m=AV(kind=K_SCALAR, dtype="real", shape=(), tags=frozenset(["p:m"]),
                                                                              origin=frozenset(["lit"]), alg={"M": LIN}))
                if ll is not None:
                    d["load_label"] = const_av(ll)
                return d
            r = analyse(chk, q, build, atoms=(R, DT, "M"))
            o = r.st.heap.get(r.ret.obj) if r.ret.kind == K_OBJ else None
            cc = "eqsig/loader.py:%s%s" % (r.fi.name, "" if ll is None else "(load_label=%s)" % ll)
            unmodelled_in(r, chk, "R-FMT-TYPE", cc)
            chk.ob("R-FMT-TYPE", cc, "returns a %s" % cls, o is not None and o.cls.name == cls,
                   derived="returns %s" % (o.cls.name if o is not None else r.ret.kind), loc=r.fi.loc())
            if o is None:
                continue
            expect(chk, "R-FMT-TYPE", cc + ".values", o.attrs.get("_values"), tags_has=["p:m", "file-data"], loc=r.fi.loc())
            # 'scaled by the load factor': the stored values are the file's values TIMES m (degree 1 in m), the time step does not see m
            expect(chk, "R-FMT-TYPE", cc + ".values[m]", o.attrs.get("_values"), deg={"M": 1}, atoms=("M",), loc=r.fi.loc())
            expect(chk, "R-FMT-TYPE", cc + ".dt", o.attrs.get("_dt"), tags_not=["p:m", "file-data"], loc=r.fi.loc())
            if ll is not None:
                lab = o.attrs.get("label")
                if ll:
                    expect(chk, "R-FMT-TYPE", cc + ".label", lab, tags_has=["file-text"], kind=K_STR, loc=r.fi.loc())
                else:
                    chk.ob("R-FMT-TYPE", cc + ".label", "label is not read from the file", lab is not None and "file-text" not in lab.tags,
                           derived="tags %s" % sorted(lab.tags if lab is not None else ()), loc=r.fi.loc())
    # ------------------------------------------------------------------ R-FMT-FWD
    r = analyse(chk, L + "save_signal", lambda I, st, fi: dict(ffp=AV(kind=K_STR, tags=frozenset(["p:ffp"])),
                                                               signal=make_signal(I, st, P.cls(ACC), name="signal")[1]))
    calls = [e for e in r.events("call") if e.callee == L + "save_values_and_dt"]
    c3 = "eqsig/loader.py:save_signal"
    if len(calls) != 1:
        chk.ob("R-FMT-FWD", c3, "one call of the writer", False, derived="%d" % len(calls), loc=r.fi.loc())
    else:
        b = calls[0].bound
        for p, has, nots in ((ffp, ["p:ffp"], ["attr:_values"]), (values, ["attr:_values"], ["attr:_dt", "attr:label"]),
                             (dt, ["attr:_dt"], ["attr:_values", "attr:label"]), (label, ["attr:label"], ["attr:_values", "attr:_dt"])):
            expect(chk, "R-FMT-FWD", c3 + ".arg[%s]" % p, b[p], tags_has=has, tags_not=nots, loc=calls[0].loc)
        org = b[values].origin
        chk.ob("R-FMT-FWD", c3 + ".arg[values][identity]", "the signal's values themselves are written", all(t.endswith(".values") for t in org) and bool(org),
               derived="origin %s" % sorted(org), loc=calls[0].loc)
    sibling_defaults(chk, "R-FMT-TYPE", ["eqsig.loader.load_sig", "eqsig.loader.load_asig"], neutral={"m": 1.0, "load_label": False},
                     label="load_sig~load_asig")
    from ..tyob import positional_order
    positional_order(chk, "R-FMT-TYPE", ["eqsig.loader.load_values_and_dt", "eqsig.loader.load_signal", "eqsig.loader.load_sig", "eqsig.loader.load_asig",
                                         "eqsig.loader.save_values_and_dt", "eqsig.loader.save_signal"])
    chk.floor("R-FMT-PREC", 3)
    chk.floor("R-FMT-LAYOUT", 6)
    chk.floor("R-FMT-LOSSY", 3)
    chk.floor("R-FMT-TYPE", 12)
    chk.floor("R-FMT-FWD", 5)


def writer_layout(chk, w, c):
    """{'label_line': 0, 'header_line': 1, 'first_value_line': 2, 'dt_token': 1, 'sep': '\\n'} derived from the pattern of the text the
    writer produces (sa/textpat.py: every repetition unrolled twice, so what sits between two consecutive writes / elements shows)."""
    from ..textpat import TextEval, unroll, lines, show
    values, dt, label = w.params[1], w.params[2], w.params[3]
    te = TextEval(w, {w.params[0]: "path", values: "values", dt: "dt", label: "label"}).run()
    written = {f: p for f, p in te.files.items() if p}
    if te.problems or len(written) != 1:
        chk.ob("R-FMT-LAYOUT", c + "{lines}", "the text written by the writer is derivable as a pattern", False,
               derived="; ".join(te.problems[:3]) or "%d file(s) written" % len(written), inconclusive=True, loc=w.loc())
        return None
    fvar, content = next(iter(written.items()))
    modes = [m for f, m in te.opened if f == fvar]
    chk.ob("R-FMT-LAYOUT", c + "{mode}", "the file is opened for writing (truncating)", bool(modes) and all(m.strip("'\"") in ("w", "wt", "w+") for m in modes),
           derived="open mode %s" % modes, loc=w.loc())
    ls = lines(unroll(content))
    if ls and ls[-1] == []:
        ls.pop()        # one trailing newline is harmless to every reader
    lay = {"sep": "\n"}
    problems = []
    n_values = 0
    for k, ln in enumerate(ls):
        flds = [t for t in ln if t[0] == "fld"]
        txt = [t[1] for t in ln if t[0] == "txt"]
        roles = [t[1] for t in flds]
        if not ln:
            problems.append("line %d is empty" % k)
        elif roles == ["label"] and not txt:
            lay.setdefault("label_line", k)
        elif "count" in roles or "dt" in roles:
            lay.setdefault("header_line", k)
            # whitespace-separated tokens of the header
            toks, cur = [], []
            for t in ln:
                if t[0] == "txt":
                    parts = re.split(r"(\s+)", t[1])
                    for part in parts:
                        if not part:
                            continue
                        if part.isspace():
                            if cur:
                                toks.append(cur)
                                cur = []
                        else:
                            cur.append(("txt", part))
                else:
                    cur.append(t)
            if cur:
                toks.append(cur)
            lay["header_tokens"] = len(toks)
            for j, tk in enumerate(toks):
                rs = [t[1] for t in tk if t[0] == "fld"]
                if len(tk) != 1:
                    problems.append("header token %d is made of %d pieces (no separator between them)" % (j, len(tk)))
                if rs == ["dt"]:
                    lay["dt_token"] = j
                if rs == ["count"]:
                    lay["count_token"] = j
        elif roles and all(r == "value" for r in roles):
            lay.setdefault("first_value_line", k)
            n_values += 1
            if len(roles) > 1:
                problems.append("line %d holds %d values: nothing separates two consecutive writes / elements" % (k, len(roles)))
            if txt:
                problems.append("line %d carries text %r beside the value" % (k, txt))
        else:
            problems.append("line %d is not a label, header or value line: %s" % (k, show([("lit", x[1]) if x[0] == "txt" else x for x in ln])))
    if lay.get("first_value_line") is not None:
        tail = [k for k, ln in enumerate(ls) if k > lay["first_value_line"] and not (len([t for t in ln if t[0] == "fld" and t[1] == "value"]) == len(ln) == 1)]
        if tail and not problems:
            problems.append("line %d after the first value is not a single value" % tail[0])
    ok = not problems and lay.get("label_line") == 0 and lay.get("header_line") == 1 and lay.get("first_value_line") == 2 and \
        lay.get("dt_token") == 1 and lay.get("count_token") == 0 and lay.get("header_tokens") == 2 and n_values >= 2
    chk.ob("R-FMT-LAYOUT", c + "{layout}", "line 0 label; line 1 '<npts> <dt>'; one value per line from line 2; joined by newlines", ok,
           derived=("; ".join(problems[:2]) + " -- " if problems else "") + "pattern %s ; %s" % (show(content), {k: v for k, v in sorted(lay.items())}),
           loc=w.loc(), detail="on reload the fused text parses as one (wrong or nan) sample and the count no longer matches" if any("holds" in p for p in problems) else None)
    return lay


def _kw(call, name, default=None):
    for k in call.keywords:
        if k.arg == name:
            try:
                return ast.literal_eval(k.value)
            except Exception:
                return "?"
    return default


def readers(chk, lay):
    P = chk.P
    if lay is None:
        return
    fv, hl = lay.get("first_value_line"), lay.get("header_line")
    for q in (L + "load_values_and_dt",):
        fi = P.fn(q)
        c = "eqsig/loader.py:%s" % fi.name
        gens = [n for n in ast.walk(fi.node) if isinstance(n, ast.Call) and ast.unparse(n.func).endswith("genfromtxt")]
        if not gens:
            chk.ob("R-FMT-LAYOUT", c, "a genfromtxt reader", False, derived="none", inconclusive=True, loc=fi.loc())
        for g in gens:
            sk = _kw(g, "skip_header", 0)
            names = _kw(g, "names", None)
            first = sk + (1 if names is True else 0) if isinstance(sk, int) else None
            chk.ob("R-FMT-LAYOUT", c + "{genfromtxt skip_header=%s names=%s}" % (sk, names), "the first value parsed is line %s of the file" % fv,
                   first == fv, derived="first data line = %s" % first, loc=fi.loc(g), stmt=norm_stmt(g))
            if names is True:
                chk.ob("R-FMT-LAYOUT", c + "{genfromtxt names line}", "the line consumed as column names is the header line %s" % hl,
                       sk == hl, derived="names line = %s" % sk, loc=fi.loc(g))
            uc = _kw(g, "usecols", None)
            chk.ob("R-FMT-LAYOUT", c + "{genfromtxt usecols}", "one value per line: column 0", uc in (0, None, (0,), [0]),
                   derived="usecols=%r" % (uc,), loc=fi.loc(g), nontrivial=False)
    # text reads, decided on the interpretation (text provenance tags line#i / token#k): which line and which token of the file the
    # returned dt is parsed from, which line the label is
    r = analyse(chk, L + "load_values_and_dt", lambda I, st, fi: dict(ffp=AV(kind=K_STR, tags=frozenset(["p:ffp"]))))
    c = "eqsig/loader.py:load_values_and_dt"
    for v in r.returns():
        d = item(v, 1)
        tg = d.tags if d is not None else frozenset()
        ln = sorted(t for t in tg if t.startswith("line#"))
        tk = sorted(t for t in tg if t.startswith("token#"))
        chk.ob("R-FMT-LAYOUT", c + "{dt line}", "dt is read from line %s" % hl, ln == ["line#%s" % hl], derived="reads %s" % (ln or "no identified line"),
               loc=r.fi.loc(), inconclusive=not ln)
        chk.ob("R-FMT-LAYOUT", c + "{dt token}", "dt is token %s of the header" % lay.get("dt_token"), tk == ["token#%s" % lay.get("dt_token")],
               derived="reads %s" % (tk or "no identified token"), loc=r.fi.loc(), inconclusive=not tk)
    r = analyse(chk, L + "load_asig", lambda I, st, fi: dict(ffp=AV(kind=K_STR, tags=frozenset(["p:ffp"])), load_label=const_av(True)))
    c = "eqsig/loader.py:load_asig"
    o = r.st.heap.get(r.ret.obj) if r.ret is not None and r.ret.kind == K_OBJ else None
    lab = o.attrs.get("label") if o is not None else None
    ln = sorted(t for t in (lab.tags if lab is not None else ()) if t.startswith("line#"))
    chk.ob("R-FMT-LAYOUT", c + "{label line}", "the label is line %s of the file" % lay.get("label_line"), ln == ["line#%s" % lay.get("label_line")],
           derived="reads %s" % (ln or "no identified line"), loc=r.fi.loc(), inconclusive=not ln)

import ast
"""C10 -- significant and bracketed durations locate threshold crossings exactly (structure of the masks)."""
from ..tyob import *  # noqa
from ..tyob import sibling_defaults, analyse, expect, item, unmodelled_in, check_forwarder, only_managed_reads, libns_for

ACC = "eqsig.single.AccSignal"
F = "F"  # atom of a user supplied cumulative measure


def frac(name):
    return AV(kind=K_SCALAR, dtype="real", shape=(), sign=S_POS, origin=frozenset(["lit"]), tags=frozenset(["p:" + name]),
              note="pyscalar")


def strict_rule(chk, run, fn, construct, lower_tag, upper_tag=None):
    """Comparisons in `fn` involving the tagged bound: strict, bound on the correct side."""
    evs = run.events("compare", fn)
    # the index array of the crossing mask (and what is selected with it) is read at its two ends only: a literal position other than [0] / [-1]
    # is a located wrong instance
    lit_ = [x for x in run.events("subscript", fn) if ("where-index" in x.base.tags) and x.base.kind == K_ARRAY and x.index.kind == K_SCALAR and
            x.index.has_const() and isinstance(x.index.const, int) and not isinstance(x.index.const, bool) and x.index.const not in (0, -1)]
    for x in [e for e in run.I.events if e.kind == "precondition"][:1]:
        chk.ob("R-MEASURE", "%s{bisection}" % construct, "a user-supplied measure is searched by comparison with the bounds (a bisection needs an ascending series)",
               False, derived=x.what, loc=x.loc, stmt=x.stmt)
    for x in lit_[:1]:
        chk.ob("R-ENDS", "%s{end positions}" % construct, "the samples of the crossing mask are read at [0] (first) and [-1] (last) only", False,
               derived="read at literal position [%d]" % x.index.const, loc=x.loc, stmt=x.stmt)
    if upper_tag is not None:
        # the fractions are fractions of the FINAL value of the cumulative measure: wherever one element of the measure is picked out to
        # scale a fraction, it is the last one
        picks = [e for e in run.events("subscript", fn) if e.index.kind == K_SCALAR and e.index.has_const() and e.base.kind == K_ARRAY and
                 (0 in e.base.mono or "cum" in e.base.tags) and e.base.dtype != "int" and "where-index" not in e.base.tags]
        for e in list({id(e.node): e for e in picks}.values()):
            chk.ob("R-STRICT", "%s{total: %s}" % (construct, " ".join(ast.unparse(e.node).split())), "the fractions scale the final value of the measure (element [-1])",
                   e.index.const == -1, derived="element [%r]" % (e.index.const,), loc=e.loc, stmt=e.stmt)
    # the same strictness when the crossings are located by bisection of the (ascending) measure: the first sample STRICTLY above the lower
    # bound is searchsorted(measure, bound, side='right'); the last sample STRICTLY below the upper bound is searchsorted(measure, bound,
    # side='left') - 1.  The other side counts a sample that sits exactly on the bound
    for e in run.events("lib-call", fn):
        if e.name != "numpy.searchsorted" or len(e.args) < 2 or e.args[0].kind != K_ARRAY:
            continue
        sd = e.kwargs.get("side") or (e.args[2] if len(e.args) > 2 else None)
        side = sd.const if (sd is not None and sd.has_const()) else ("left" if sd is None else None)
        for tag, want in ((lower_tag, "right"), (upper_tag, "left")):
            if tag is not None and tag in e.args[1].tags and not (lower_tag in e.args[1].tags and upper_tag is not None and upper_tag in e.args[1].tags):
                chk.ob("R-STRICT", "%s{bisection side: %s}" % (construct, tag), "a sample exactly on the bound is not between the bounds: side=%r for %s" % (want, tag),
                       side == want, derived="side=%r" % (side,), loc=e.loc, stmt=e.stmt, inconclusive=side is None)
    for tag, want_small in ((lower_tag, True), (upper_tag, False)):
        if tag is None:
            continue
        # the bound on one side, the measure (an array, not a literal and not a count) on the other: `len(selected) == 0` is not a
        # comparison against the bound although the count derives from it
        def _is_cmp(e):
            if (tag in e.left.tags) == (tag in e.right.tags):
                return False
            b, m = (e.left, e.right) if tag in e.left.tags else (e.right, e.left)
            # (the measure is a series: a comparison of two scalars -- two bounds with each other, two positions -- is not a crossing test)
            return not m.has_const() and "len-of" not in b.tags and m.kind != K_NONE and not (m.kind in (K_SCALAR, K_BOOL) and m.shape == ())
        hits = [e for e in evs if _is_cmp(e)]
        if not hits:
            chk.ob("R-STRICT", "%s[%s]" % (construct, tag), "a comparison against %s exists" % tag, False,
                   derived="no comparison has exactly one side derived from %s" % tag, loc=run.fi.loc(), inconclusive=True)
            continue
        for e in hits:
            tagged_left = tag in e.left.tags
            # normalise to: measure OP bound
            op = e.op if not tagged_left else {"Gt": "Lt", "Lt": "Gt", "GtE": "LtE", "LtE": "GtE"}.get(e.op, e.op)
            want = "Gt" if want_small else "Lt"
            chk.ob("R-STRICT", "%s[%s]" % (construct, tag),
                   "measure %s %s-derived bound (strict)" % (">" if want_small else "<", tag), op == want,
                   derived="measure %s bound" % op, loc=e.loc, stmt=e.stmt)


def run(chk):
    chk.rule("R-STRICT", "significant-duration mask = (measure > start*total) & (measure < end*total), both strict, start on the "
                         "lower and end on the upper comparison; bracketed mask = |a| > threshold (strict); enumerated from "
                         "the comparison sites reached by the abstract interpretation (forwarders included)")
    chk.rule("R-REL", "both sides of each comparison have equal degree and even parity in the record, so the result has degree 0 "
                      "(scale and sign invariant) and degree 1 in dt")
    chk.rule("R-ENDS", "start = first, end = last element of the same ascending index array (times dt); se=True returns "
                       "(start, end); otherwise end - start >= 0; bracketed fallback (None, None) / 0")
    chk.rule("R-MEASURE", "calc_sig_dur uses the user measure when given, Arias otherwise; the array variant uses the running "
                          "sum of squares; deprecated names forward by role; the record is read through the signal's managed "
                          "interface only (no snapshot attribute that no cache clears)")
    P = chk.P

    def sig(I, st, name="asig"):
        return make_signal(I, st, P.cls(ACC), name=name, flags="cold")[1]

    # ------------------------------------------------------------ array variant + deprecated forwarder
    for q, se_vals in (("eqsig.im.calc_sig_dur_vals", (False, True)), ("eqsig.im.calc_significant_duration", (False,))):
        for se in se_vals:
            def build(I, st, fi, se=se):
                d = dict(motion=rec_array("motion"), dt=pos_scalar("dt", DT), start=frac("start"), end=frac("end"))
                if "se" in fi.params:
                    d["se"] = const_av(se)
                return d
            r = analyse(chk, q, build)
            c = "%s:%s(se=%s)" % (r.fi.module.relpath, r.fi.name, se)
            unmodelled_in(r, chk, "R-REL", c)
            strict_rule(chk, r, "eqsig.im.calc_sig_dur_vals", c, "p:start", "p:end")
            check_result(chk, r, c, se, measure_tags=["quad:rectangle", "p:motion"])
    # ------------------------------------------------------------ object variant
    def user_im(I2, fr, args, kwargs, node):
        return AV(kind=K_ARRAY, dtype="real", shape=(LinExpr("n"),), alg={F: HOM(1, "even"), R: TOPD}, origin=frozenset(["a@user-im"]),
                  tags=frozenset(["user-im"]))
    for imk in ("arias", "user"):
        for se in (False, True):
            def build(I, st, fi, se=se, imk=imk):
                d = dict(asig=sig(I, st), start=frac("start"), end=frac("end"), se=const_av(se))
                if imk == "user":
                    d["im"] = AV(kind=K_FUNC, ref=("closure", user_im))
                return d
            r = analyse(chk, "eqsig.im.calc_sig_dur", build, atoms=(R, DT, F))
            c = "eqsig/im.py:calc_sig_dur(im=%s,se=%s)" % (imk, se)
            unmodelled_in(r, chk, "R-REL", c)
            strict_rule(chk, r, "eqsig.im.calc_sig_dur", c, "p:start", "p:end")
            only_managed_reads(chk, "R-MEASURE", r, c)
            if imk == "arias":
                check_result(chk, r, c, se, measure_tags=["quad:trapezoid", "attr:_values"])
                if se:
                    # the positions found in the default measure are turned into times as index * dt: entry i of the series searched must be the
                    # measure at sample i, i.e. the series has one entry per sample of the record.  A series of another definite length (the
                    # leading zero dropped: n-1 entries) with the position still multiplied by dt unshifted reports every time one step early
                    cm = [e for e in r.events("compare") if e.fn.startswith("eqsig.im.") and (("p:start" in e.left.tags) != ("p:start" in e.right.tags))]
                    rets_ = r.returns()
                    s_ = item(rets_[0], 0) if len(rets_) == 1 else None
                    for e in cm[:1]:
                        m = e.right if "p:start" in e.left.tags else e.left
                        ln = m.length() if m.kind == K_ARRAY else None
                        okl = ln is not None and ln == LinExpr("n")
                        direct = s_ is not None and s_.ext is not None and s_.ext[0] == "lo"
                        chk.ob("R-ENDS", c + "{sample-aligned}", "the default measure searched has one entry per sample (position i <-> time i*dt)", okl,
                               derived="length %r; start read off the positions unshifted: %s" % (ln, direct), loc=e.loc, stmt=e.stmt,
                               inconclusive=(not okl) and (ln is None or not direct))
            else:
                check_result(chk, r, c, se, measure_tags=["user-im"], atom=F, not_tags=["quad:trapezoid"])
    # ------------------------------------------------------------ the supplied measure is the one searched, on a record used before
    # (every lazily kept quantity of the record in an unknown state): the series compared with the bounds is the value the supplied
    # callable returned in THIS call -- not something kept on the record from an earlier call, whatever it was keyed by
    def build_warm(I, st, fi):
        return dict(asig=make_signal(I, st, P.cls(ACC), name="asig", flags="unknown")[1], start=frac("start"), end=frac("end"), se=const_av(False),
                    im=AV(kind=K_FUNC, ref=("closure", user_im)))
    r = analyse(chk, "eqsig.im.calc_sig_dur", build_warm, atoms=(R, DT, F))
    c = "eqsig/im.py:calc_sig_dur(im=user, record used before)"
    cmps = [e for e in r.events("compare") if e.fn.startswith("eqsig.im.") and (("p:start" in e.left.tags) != ("p:start" in e.right.tags))]
    for e in cmps[:1]:
        m = e.right if "p:start" in e.left.tags else e.left
        chk.ob("R-MEASURE", c + "{series}", "the series searched for crossings is the value returned by the supplied measure in this call", 
               m.origin == frozenset(["a@user-im"]) or (m.origin <= frozenset(["a@user-im", "lit"]) and "a@user-im" in m.origin),
               derived="origin %s" % sorted(m.origin), loc=e.loc, stmt=e.stmt,
               detail="another origin means a series kept from an earlier call can be searched instead" if "a@user-im" not in m.origin or
               len(m.origin - {"lit"}) > 1 else None)
    if not cmps:
        chk.ob("R-MEASURE", c + "{series}", "a comparison of the measure against the start bound", False, derived="none located", inconclusive=True,
               loc=r.fi.loc())
    # ------------------------------------------------------------ bracketed duration
    for q in ("eqsig.im.calc_brac_dur", "eqsig.im.calc_bracketed_duration"):
        for se in ((False, True) if q.endswith("brac_dur") else (False,)):
            def build(I, st, fi, se=se):
                d = dict(asig=sig(I, st), threshold=AV(kind=K_SCALAR, dtype="real", shape=(), sign=S_NONNEG,
                                                       alg={R: HOM(1, "even")}, origin=frozenset(["lit"]),
                                                       tags=frozenset(["p:threshold"]), note="pyscalar"))
                if "se" in fi.params:
                    d["se"] = const_av(se)
                return d
            r = analyse(chk, q, build)
            c = "%s:%s(se=%s)" % (r.fi.module.relpath, r.fi.name, se)
            unmodelled_in(r, chk, "R-REL", c)
            strict_rule(chk, r, "eqsig.im.calc_brac_dur", c, "p:threshold")
            only_managed_reads(chk, "R-MEASURE", r, c)
            for e in r.events("compare", "eqsig.im.calc_brac_dur"):
                if ("p:threshold" in e.left.tags) != ("p:threshold" in e.right.tags):
                    m = e.right if "p:threshold" in e.left.tags else e.left
                    if m.has_const() or "len-of" in (e.left.tags if "p:threshold" in e.left.tags else e.right.tags):
                        continue        # an emptiness test of the selection, not the mask
                    expect(chk, "R-REL", c + ".mask-operand", m, deg={R: 1}, parity={R: "even"}, sign="nonneg",
                           tags_has=["abs", "attr:_values"], loc=e.loc)
            # an explicit emptiness test of the exceedance set (instead of the IndexError handler) must test for "no exceedance" only
            for e in r.events("compare", "eqsig.im.calc_brac_dur"):
                for lenv, cst, op in ((e.left, e.right, e.op), (e.right, e.left, {"Gt": "Lt", "Lt": "Gt", "GtE": "LtE", "LtE": "GtE"}.get(e.op, e.op))):
                    if "len-of" in lenv.tags and "where-index" in lenv.tags and cst.has_const() and isinstance(cst.const, int) and lenv.kind == K_SCALAR:
                        okg = (op, cst.const) in (("Gt", 0), ("GtE", 1), ("NotEq", 0), ("Eq", 0), ("Lt", 1), ("LtE", 0))
                        chk.ob("R-ENDS", c + "{emptiness test}", "the fallback is taken exactly when no sample exceeds the threshold", okg,
                               derived="tests count %s %s" % (op, cst.const), loc=e.loc, stmt=e.stmt,
                               detail="a single exceedance is a valid bracket of zero length: (t, t), not (None, None)" if not okg else None)
            rets = r.returns()
            if not q.endswith("brac_dur"):
                check_value(chk, c, r.ret, se, ["abs", "attr:_values"], R, [], forwarder=True)
                continue
            main = [v for v in rets if not _is_fallback(v)]
            fb = [v for v in rets if _is_fallback(v)]
            # a design with an explicit emptiness test whose two outcomes are joined before the return (first = last = None; duration = 0 ...)
            # is looked at once per outcome: the test forced "empty" must give the fallback, forced "not empty" the bracket
            etests = [(n, pol) for n in ast.walk(r.fi.node) if isinstance(n, ast.If) for pol in [_emptiness_polarity(n.test)] if pol is not None]
            if etests and not fb:
                per = {}
                for empty in (True, False):
                    def setup(I, empty=empty):
                        def oracle(fr, node):
                            pol = _emptiness_polarity(node.test) if fr.fi is r.fi else None
                            return None if pol is None else (empty == pol)
                        I.branch_oracle = oracle
                        I.oracle_first = True
                    per[empty] = analyse(chk, q, build, setup=setup).returns()
                fb = per[True]
                main = per[False]
            chk.ob("R-ENDS", c + "[fallback]", "a fallback return %s exists for the no-exceedance case" % ("(None, None)" if se else "0"),
                   len(fb) == 1 and _fallback_ok(fb[0], se), derived="%d fallback return(s)" % len(fb), loc=r.fi.loc())
            if len(main) != 1:
                chk.ob("R-ENDS", c, "one main return", False, derived="%d" % len(main), loc=r.fi.loc(), inconclusive=True)
                continue
            check_value(chk, c, main[0], se, ["abs", "attr:_values"], R, [])
    check_forwarder(chk, "R-MEASURE", "eqsig.im.calc_significant_duration", "eqsig.im.calc_sig_dur_vals")
    check_forwarder(chk, "R-MEASURE", "eqsig.im.calc_bracketed_duration", "eqsig.im.calc_brac_dur")
    sibling_defaults(chk, "R-MEASURE", ["eqsig.im.calc_sig_dur_vals", "eqsig.im.calc_sig_dur", "eqsig.im.calc_significant_duration"],
                     neutral={"se": False}, label="calc_sig_dur_vals~calc_sig_dur~calc_significant_duration")
    sibling_defaults(chk, "R-MEASURE", ["eqsig.im.calc_brac_dur"], neutral={"se": False}, label="calc_brac_dur")
    chk.floor("R-STRICT", 17)
    chk.floor("R-REL", 40)
    chk.floor("R-ENDS", 28)
    chk.floor("R-MEASURE", 17)
    deprecated_stats(chk)
    chk.rule("R-LIBNS", "every NumPy/SciPy name referenced by the anchored duration functions (the deprecated AccSignal.generate_duration_stats "
                        "included) exists in the installed library (resolved from the installed stubs/sources, nothing imported)")
    libns_for(chk, "R-LIBNS", ["eqsig.single.AccSignal.generate_duration_stats", "eqsig.im.calc_sig_dur_vals", "eqsig.im.calc_sig_dur",
                               "eqsig.im.calc_brac_dur", "eqsig.im.calc_significant_duration", "eqsig.im.calc_bracketed_duration"])
    chk.floor("R-LIBNS", 6)


def _emptiness_polarity(t):
    """True when the test holds for an EMPTY selection (len(x) == 0, not len(x), x.size == 0), False when it holds for a non-empty one
    (len(x), len(x) > 0, len(x) != 0), None when it is no emptiness test"""
    def is_len(e):
        return (isinstance(e, ast.Call) and ast.unparse(e.func) == "len" and len(e.args) == 1) or (isinstance(e, ast.Attribute) and e.attr == "size")
    if isinstance(t, ast.UnaryOp) and isinstance(t.op, ast.Not):
        p = _emptiness_polarity(t.operand)
        return None if p is None else (not p)
    if is_len(t):
        return False
    if isinstance(t, ast.Compare) and len(t.ops) == 1 and is_len(t.left) and isinstance(t.comparators[0], ast.Constant):
        k, op = t.comparators[0].value, type(t.ops[0]).__name__
        if (op, k) in (("Eq", 0), ("Lt", 1), ("LtE", 0)):
            return True
        if (op, k) in (("Gt", 0), ("GtE", 1), ("NotEq", 0)):
            return False
    return None


def _is_fallback(v):
    if v.kind == K_TUPLE and v.items is not None:
        return all(i.kind == K_NONE for i in v.items)
    return v.has_const() and v.const == 0 and v.kind in (K_SCALAR, K_BOOL)     # a literal 0, whatever condition guards it


def _fallback_ok(v, se):
    if se:
        return v.kind == K_TUPLE and v.items is not None and len(v.items) == 2
    return v.has_const() and v.const == 0


def check_result(chk, r, c, se, measure_tags, atom=R, not_tags=()):
    rets = r.returns()
    if len(rets) != 1:
        chk.ob("R-ENDS", c, "one return on the folded path", False, derived="%d returns" % len(rets), loc=r.fi.loc(),
               inconclusive=True)
        return
    check_value(chk, c, rets[0], se, measure_tags, atom, not_tags)


def check_value(chk, c, v, se, measure_tags, atom, not_tags, forwarder=False):
    loc = None
    if forwarder:  # joined with the callee's fallback constant: only the typing is comparable
        expect(chk, "R-REL", c, v, deg={atom: 0, DT: 1}, parity={atom: "even"}, atoms=(atom, DT))
        expect(chk, "R-MEASURE", c, v, tags_has=list(measure_tags), tags_not=list(not_tags))
        return
    if se:
        expect(chk, "R-ENDS", c, v, items=2)
        s, e = item(v, 0), item(v, 1)
        ks = s.ext[1:] if (s is not None and s.ext) else None
        ke = e.ext[1:] if (e is not None and e.ext) else None
        chk.ob("R-ENDS", c + ".start[first]", "first element of an ascending index array (times dt)",
               s is not None and s.ext is not None and s.ext[0] == "lo", derived="ext=%r" % (s.ext[0] if s is not None and s.ext else None,),
               inconclusive=(s is None or s.ext is None))          # not read off an index array at all (bisection, a scan ...): not located
        chk.ob("R-ENDS", c + ".end[last]", "last element of the same ascending index array (times dt)",
               e is not None and e.ext is not None and e.ext[0] == "hi" and ks == ke,
               derived="ext=%r same-array=%s" % (e.ext[0] if e is not None and e.ext else None, ks == ke),
               inconclusive=(e is None or e.ext is None))
        for nm, x in (("start", s), ("end", e)):
            expect(chk, "R-REL", c + "." + nm, x, deg={atom: 0, DT: 1}, parity={atom: "even"}, kind=K_SCALAR, atoms=(atom, DT))
            expect(chk, "R-MEASURE", c + "." + nm, x, tags_has=list(measure_tags), tags_not=list(not_tags))
    else:
        if v is not None and "span:hi-lo" not in v.tags:
            # no (last - first) of one index array reaches the result: the reversed difference (first - last, provably <= 0) is the located wrong
            # instance; ends found some other way (bisection, a scan, joined with a fast path) are not located
            rev_ = v.sign in (S_NONPOS, S_NEG) or "span:hi+lo" in v.tags
            chk.ob("R-ENDS", c + "[extent]", "the duration is (last - first) of one ascending index array, times dt", False,
                   derived=("the SUM (last + first) of the two ends of one index array reaches the result" if "span:hi+lo" in v.tags else
                            "sign %s, no (last - first) extent reaches the result" % v.sign), inconclusive=not rev_)
            expect(chk, "R-ENDS", c, v, kind=K_SCALAR)
        else:
            expect(chk, "R-ENDS", c, v, sign="nonneg", tags_has=["sel:first", "sel:last", "span:hi-lo"], kind=K_SCALAR)      # the duration is end - start
        expect(chk, "R-REL", c, v, deg={atom: 0, DT: 1}, parity={atom: "even"}, atoms=(atom, DT))
        expect(chk, "R-MEASURE", c, v, tags_has=list(measure_tags), tags_not=list(not_tags))


def deprecated_stats(chk):
    """The deprecated object-level statistics (AccSignal.generate_duration_stats) are a second implementation of the bracketed durations
    (thresholds 0.01 / 0.05 / 0.10 g stored as t_b01 / t_b05 / t_b10) and forward the significant duration to calc_sig_dur_vals: the same
    clauses are read off it -- the samples that count are those whose |a| EXCEEDS the threshold (strict, |a| on the larger side), the
    duration is (last - first) of one selection, times dt."""
    P = chk.P
    q = ACC + ".generate_duration_stats"
    if q not in P.functions:
        chk.ob("R-REL", "eqsig/single.py:AccSignal.generate_duration_stats", "the deprecated statistics method exists", False, derived="not found",
               inconclusive=True)
        return
    r = analyse(chk, q, None, self_cls=ACC)
    c = "eqsig/single.py:AccSignal.generate_duration_stats"
    unmodelled_in(r, chk, "R-REL", c)
    def _series(e):      # the record-derived side is a series of samples (not a count of selected samples, not a position)
        m_ = e.left if "attr:_values" in e.left.tags else e.right
        return m_.kind == K_ARRAY and m_.dtype != "int" and "where-index" not in m_.tags and "len-of" not in m_.tags
    cm = [e for e in r.events("compare", q) if (("attr:_values" in e.left.tags) != ("attr:_values" in e.right.tags)) and
          (e.left.has_const() or e.right.has_const()) and _series(e)]
    consts = []
    for e in list({id(e.node): e for e in cm}.values()):
        m, b = (e.left, e.right) if "attr:_values" in e.left.tags else (e.right, e.left)
        op = e.op if m is e.left else {"Gt": "Lt", "Lt": "Gt", "GtE": "LtE", "LtE": "GtE"}.get(e.op, e.op)
        consts.append(b.const)
        chk.ob("R-STRICT", "%s{%s}" % (c, " ".join(ast.unparse(e.node).split())), "a sample counts when |a| EXCEEDS the threshold: |a| > threshold (strict)",
               op == "Gt", derived="|a| %s threshold" % op, loc=e.loc, stmt=e.stmt)
        expect(chk, "R-REL", "%s{%s}.operand" % (c, " ".join(ast.unparse(e.node).split())), m, deg={R: 1}, parity={R: "even"}, sign="nonneg",
               tags_has=["abs"], loc=e.loc)
    chk.ob("R-REL", c + "{thresholds}", "the three bracketed durations use 0.01 g, 0.05 g and 0.10 g", sorted(consts) == [0.01, 0.05, 0.1],
           derived="thresholds %s" % sorted(consts), loc=r.fi.loc(), inconclusive=len(consts) != 3)
    for attr in ("t_b01", "t_b05", "t_b10"):
        ws = [e for e in r.I.events if e.kind == "attr-write" and e.attr == attr and e.value is not None and not e.value.has_const()]
        if not ws:
            chk.ob("R-ENDS", "%s.%s" % (c, attr), "the bracketed duration is stored", False, derived="no store located", inconclusive=True, loc=r.fi.loc())
            continue
        v = ws[0].value
        if "span:hi-lo" not in v.tags:
            rev_ = v.sign in (S_NONPOS, S_NEG) or "span:hi+lo" in v.tags
            chk.ob("R-ENDS", "%s.%s[extent]" % (c, attr), "the duration is (last - first) of one selection of times", False,
                   derived=("the SUM of the two ends reaches the result" if "span:hi+lo" in v.tags else "sign %s, no (last - first) extent" % v.sign),
                   loc=ws[0].loc, stmt=ws[0].stmt, inconclusive=not rev_)
        else:
            expect(chk, "R-ENDS", "%s.%s" % (c, attr), v, sign="nonneg", kind=K_SCALAR, loc=ws[0].loc)
        # (a fixed threshold: the duration is a time -- degree 1 in dt -- selected by the record, not homogeneous in it)
        expect(chk, "R-REL", "%s.%s" % (c, attr), v, deg={DT: 1}, tags_has=["attr:_values", "attr:_dt"], loc=ws[0].loc)
    calls = [e for e in r.events("call", q) if e.callee == "eqsig.im.calc_sig_dur_vals"]
    chk.ob("R-MEASURE", c + "{significant duration}", "the significant duration is forwarded to calc_sig_dur_vals(values, dt, se=True)",
           len(calls) == 1 and "attr:_values" in calls[0].bound["motion"].tags and "attr:_dt" in calls[0].bound["dt"].tags and
           calls[0].bound["se"].has_const() and calls[0].bound["se"].const is True,
           derived="%d call(s)" % len(calls), loc=calls[0].loc if calls else r.fi.loc(), inconclusive=not calls)

"""C11 -- local-peak detection: the decidable structural clauses (partition of max/min, direction source, index map, cycle counter).

Soundness and completeness over all rise/fall/flat patterns is a statement about values and is NOT decided here."""
import ast
from fractions import Fraction

from ..tyob import *  # noqa
from ..tyob import analyse, expect, item, unmodelled_in, no_int_arith
from ..poly import Normaliser, Poly, straightline_env
from ..program import norm_stmt

PK = "eqsig.fns.peaks_and_crossings."
GP = PK + "get_peak_array_indices"
SIGNS = (-1, 0, 1)


def truth_table(test, env):
    """({sign of E: truth}, canonical E) of a direction test  E op 0  /  A op B  /  name / not ..."""
    if isinstance(test, ast.UnaryOp) and isinstance(test.op, ast.Not):
        t, e = truth_table(test.operand, env)
        return (None, e) if t is None else ({s: not v for s, v in t.items()}, e)
    if isinstance(test, ast.Name) and test.id in env["bools"]:
        return truth_table(env["bools"][test.id], env)
    if isinstance(test, ast.Compare) and len(test.ops) == 1:
        norm = env["norm"]
        E = norm.poly(test.left) - norm.poly(test.comparators[0])
        op = type(test.ops[0]).__name__
        f = {"Gt": lambda s: s > 0, "GtE": lambda s: s >= 0, "Lt": lambda s: s < 0, "LtE": lambda s: s <= 0, "Eq": lambda s: s == 0,
             "NotEq": lambda s: s != 0}.get(op)
        if f is None:
            return None, None
        # canonical orientation: later sample minus earlier sample (E > 0 means "rising")
        import re
        flip = False
        if len(E.t) == 2:
            items = sorted(E.t.items(), key=lambda kv: repr(kv[0]))
            idx = []
            for m, co in items:
                ints = re.findall(r"\[(-?\d+)\]", m[0][0]) if (len(m) == 1) else []
                idx.append((int(ints[-1]) if ints else None, co))
            if idx[0][0] is not None and idx[1][0] is not None and idx[0][0] != idx[1][0]:
                later = idx[0] if idx[0][0] > idx[1][0] else idx[1]
                flip = later[1] < 0
            else:
                flip = items[0][1] < 0
                env["oriented"] = False
        if flip:
            E = -E
            return {s: f(-s) for s in SIGNS}, E.canon()
        return {s: f(s) for s in SIGNS}, E.canon()
    return None, None


def stride_of(ret):
    """(array name, start, step) of `return X[a::b]`"""
    v = ret.value
    if isinstance(v, ast.Subscript) and isinstance(v.slice, ast.Slice) and isinstance(v.value, ast.Name):
        lo = v.slice.lower.value if isinstance(v.slice.lower, ast.Constant) else (0 if v.slice.lower is None else "?")
        st = v.slice.step.value if isinstance(v.slice.step, ast.Constant) else "?"
        if v.slice.upper is None:
            return v.value.id, lo, st
    return None


def run(chk):
    P = chk.P
    chk.rule("R-PARTITION", "the 'max' and 'min' selections are complementary for every outcome of the direction test: same direction "
                            "expression, complementary strides [::2] / [1::2] of the same index array")
    chk.rule("R-CLEANED", "the direction that decides which stride holds the maxima is not an adjacent difference of the UNCLEANED array "
                          "(difference-sign logic is valid only on plateau-compressed data: the module's own stated belief)")
    chk.rule("R-IDX", "reported indices = np.take(index map, cleaned peak indices), map and cleaned array from the same cleaning call; the "
                      "cleaned detector inserts index 0 and len-1")
    chk.rule("R-NCYC", "cycle counter: record length, linear interpolation of 0.5*arange over the peak indices, start table 'origin' -> "
                       "-0.25 / 'peak' -> 0.0, opt table 'all' / 'switched' with a raising else")
    fi = P.fn(GP)
    c = "eqsig/fns/peaks_and_crossings.py:get_peak_array_indices"
    chk.files.add(fi.module.relpath)
    bools = {}
    for n in ast.walk(fi.node):
        if isinstance(n, ast.Assign) and isinstance(n.targets[0], ast.Name) and isinstance(n.value, (ast.Compare, ast.UnaryOp)):
            bools[n.targets[0].id] = n.value
    env = {"bools": bools, "norm": straightline_env(fi.node.body, Normaliser(), exclude=set(fi.params) | {"values", "cleaned_values"})}
    sel = {}
    for n in ast.walk(fi.node):
        if isinstance(n, ast.If) and isinstance(n.test, ast.Compare) and isinstance(n.test.left, ast.Name) and n.test.left.id == "ptype" and \
                isinstance(n.test.comparators[0], ast.Constant):
            lit = n.test.comparators[0].value
            inner = [x for x in n.body if isinstance(x, ast.If)]
            if len(inner) == 1 and len(inner[0].body) == 1 and len(inner[0].orelse) == 1 and isinstance(inner[0].body[0], ast.Return) and \
                    isinstance(inner[0].orelse[0], ast.Return):
                tt_, E = truth_table(inner[0].test, env)
                sel[lit] = (tt_, E, stride_of(inner[0].body[0]), stride_of(inner[0].orelse[0]), inner[0])
    partition_scenarios(chk, fi, c)
    if set(sel) != {"min", "max"} or any(v[0] is None or v[2] is None or v[3] is None for v in sel.values()):
        chk.note("get_peak_array_indices: the min/max selection is not written as two nested direction tests; decided by scenario "
                 "interpretation only (R-PARTITION{scenario ...})")
    else:
        (tmin, Emin, amin, bmin, nmin), (tmax, Emax, amax, bmax, nmax) = sel["min"], sel["max"]
        chk.ob("R-PARTITION", c + "{direction}", "both selections test the same direction expression", Emin == Emax,
               derived="min tests %s ; max tests %s" % (Emin, Emax), loc=fi.loc(nmin))
        bad = []
        for s in SIGNS:
            smin = amin if tmin[s] else bmin
            smax = amax if tmax[s] else bmax
            comp = smin[0] == smax[0] and smin[2] == smax[2] == 2 and {smin[1], smax[1]} == {0, 1}
            if not comp:
                bad.append("direction %s0: min takes %s, max takes %s" % ({-1: "<", 0: "==", 1: ">"}[s], smin, smax))
        chk.ob("R-PARTITION", c + "{strides}", "for every sign of the direction, max and min take complementary strides of one array", not bad,
               derived="; ".join(bad) or "complementary for <0, ==0, >0", loc=fi.loc(nmax))
        # rising first segment => index 0 is a minimum => maxima are the odd entries
        smax_up = amax if tmax[1] else bmax
        if env.get("oriented", True):
            chk.ob("R-PARTITION", c + "{orientation}", "when the first segment rises, the maxima are the odd entries [1::2]", smax_up[1] == 1,
                   derived="rising (%s > 0): max takes start %s" % (Emax, smax_up[1]), loc=fi.loc(nmax))
        else:
            chk.note("orientation of the direction expression %s could not be read off its indices; orientation clause not evaluated" % Emax)
        # ---- R-CLEANED
        cleaned_arg = None
        for n in ast.walk(fi.node):
            if isinstance(n, ast.Call) and ast.unparse(n.func).split(".")[-1] == "clean_out_non_changing" and n.args and isinstance(n.args[0], ast.Name):
                cleaned_arg = n.args[0].id
        adj = False
        if cleaned_arg is not None and Emax is not None:
            import re
            idx = re.findall(r"\b%s\[(\d+)\]" % re.escape(cleaned_arg), Emax)
            others = re.findall(r"\b%s\[([^\]\d][^\]]*)\]" % re.escape(cleaned_arg), Emax)
            adj = len(idx) == 2 and abs(int(idx[0]) - int(idx[1])) == 1 and not others
        chk.ob("R-CLEANED", c + "{direction source}", "the direction is not values[k+1] - values[k] of the uncleaned input", not adj,
               derived="direction expression %s (`%s` is the array handed to the plateau cleaner)" % (Emax, cleaned_arg), loc=fi.loc(nmax),
               stmt=norm_stmt(nmax.test), detail="[1,1,2,1] with 'max' returns [0,3]: a flat start makes the adjacent difference 0 although the series rises"
               if adj else None)
    # other ptype -> all
    r = analyse(chk, GP, lambda I, st, fi: dict(values=rec_array("values"), ptype=const_av("all")), setup=_tag)
    unmodelled_in(r, chk, "R-IDX", c)
    tk = [e for e in r.events("lib-call", GP) if e.name == "numpy.take"]
    # the same mapping spelt as integer-array indexing: map[indices]
    fx = [e for e in r.events("subscript", GP) if e.index is not None and e.index.kind == K_ARRAY and e.index.dtype == "int" and
          e.base.kind == K_ARRAY and e.base.dtype == "int"]
    if not tk and len(fx) == 1:
        tk = [type("TakeLike", (), {"args": [fx[0].base, fx[0].index], "loc": fx[0].loc, "node": fx[0].node})()]
    if len(tk) == 1:
        a0, a1 = tk[0].args[:2]
        chk.ob("R-IDX", c + "{map}", "np.take maps through the index map returned by the cleaning call",
               sorted(t for t in a0.tags if t.startswith("ret:clean")) == ["ret:clean_out_non_changing#1"],
               derived="%s" % sorted(t for t in a0.tags if t.startswith("ret:")), loc=tk[0].loc)
        chk.ob("R-IDX", c + "{cleaned peaks}", "the mapped indices are the detector's result on the cleaned array",
               "ret:determine_indices_of_peaks_for_cleaned_array" in a1.tags and "ret:clean_out_non_changing#0" in a1.tags,
               derived="%s" % sorted(t for t in a1.tags if t.startswith("ret:")), loc=tk[0].loc,
               # turning points found without the detector function (inline, another helper): not located; the detector called on something
               # that is not the cleaned array is the located wrong instance ({detector input} below)
               inconclusive="ret:determine_indices_of_peaks_for_cleaned_array" not in a1.tags and
               not any(e.callee.endswith("determine_indices_of_peaks_for_cleaned_array") for e in r.events("call", GP)))
        chk.ob("R-IDX", c + "{result}", "ptype 'all' returns the mapped indices", r.ret.origin == frozenset([r.I.alloc_tok(type("F", (), {"fi": fi})(), tk[0].node)])
               or "ret:clean_out_non_changing#1" in r.ret.tags, derived="origin %s" % sorted(r.ret.origin), loc=fi.loc(), nontrivial=False)
    else:
        chk.ob("R-IDX", c, "one np.take through the index map", False, derived="%d" % len(tk), loc=fi.loc(), inconclusive=True)
    det = [e for e in r.events("call", GP) if e.callee.endswith("determine_indices_of_peaks_for_cleaned_array")]
    cleaning = [e for e in r.events("call", GP) if e.callee.endswith(".clean_out_non_changing")]
    chk.ob("R-IDX", c + "{detector input}", "the detector runs on the cleaned array", len(det) == 1 and
           "ret:clean_out_non_changing#0" in det[0].bound["values"].tags, derived="%d detector call(s), %d call(s) of the plateau cleaner" % (len(det), len(cleaning)), loc=det[0].loc if det else fi.loc(),
           inconclusive=not det or not cleaning)       # plateaus removed some other way: a design this rule does not know
    expect(chk, "R-IDX", c + ".result", r.ret, deg={R: 0}, parity={R: "even"}, sign="nonneg", dtype="int", loc=fi.loc())
    # the cleaning routine: on every return path, cleaned == np.take(values, map) for the map it returns
    qc = PK + "clean_out_non_changing"
    rc = analyse(chk, qc, lambda I, st, fi: dict(values=rec_array("values")))
    takes = [e for e in rc.events("lib-call", qc) if e.name == "numpy.take"]
    for k, v in enumerate(rc.returns()):
        a, b = item(v, 0), item(v, 1)
        ok = a is not None and b is not None and any(
            rc.I.alloc_tok(type("F", (), {"fi": rc.fi})(), e.node) in a.origin and e.args[0].origin == frozenset(["p:values"]) and e.args[1].origin == b.origin
            for e in takes) and len(a.origin) == 1
        chk.ob("R-IDX", "eqsig/fns/peaks_and_crossings.py:clean_out_non_changing{return %d}" % k,
               "returned (cleaned, map) satisfy cleaned == np.take(values, map)", ok,
               derived="cleaned origin %s, map origin %s" % (sorted(a.origin) if a is not None else None, sorted(b.origin) if b is not None else None),
               loc=rc.fi.loc())
    if not rc.returns():
        chk.ob("R-IDX", "eqsig/fns/peaks_and_crossings.py:clean_out_non_changing", "returns (cleaned, map)", False, derived="no return", loc=rc.fi.loc())
    # detector: inserts 0 and len-1
    q = PK + "determine_indices_of_peaks_for_cleaned_array"
    r = analyse(chk, q, lambda I, st, fi: dict(values=rec_array("values")))
    cd = "eqsig/fns/peaks_and_crossings.py:determine_indices_of_peaks_for_cleaned_array"
    pr = r.ret.parts
    if pr is not None and not all(isinstance(x, tuple) and x and x[0] in ("const", "sym", "arr", "val") for x in pr):
        pr = None
    okp = pr is not None and len(pr) == 3 and pr[0] == ("const", 0) and pr[1][0] == "arr" and "where-index" in pr[1][1] and \
        pr[2] == ("sym", repr(LinExpr("n") - 1))
    # located wrong: a first piece that is a constant other than 0, a last piece that is a symbolic index other than len - 1; pieces whose content
    # is not known (arrays built by a helper) are not located
    located_wrong = pr is not None and len(pr) == 3 and ((pr[0][0] == "const" and pr[0] != ("const", 0)) or
                                                         (pr[2][0] in ("sym", "const") and pr[2] != ("sym", repr(LinExpr("n") - 1))))
    chk.ob("R-IDX", cd + "{ends}", "the result is index 0, the turning points, index len(values)-1, in that order (np.insert or np.concatenate)", okp,
           derived="pieces %s" % ([(x[0], x[1] if x[0] != "arr" else "...") for x in pr] if pr else None), loc=r.fi.loc(),
           inconclusive=pr is None or (not okp and not located_wrong))
    cm = [e for e in r.events("compare", q) if ("diff" in e.left.tags or "diff" in e.right.tags) and
          (alg_degree(e.left.a(R)) not in (Exp(0), "any") or alg_degree(e.right.a(R)) not in (Exp(0), "any"))]       # (tests of shapes / counts are not the turning test)
    chk.ob("R-IDX", cd + "{turning test}", "a turning point is a strictly negative product of successive differences",
           len(cm) == 1 and cm[0].op == "Lt" and cm[0].right.has_const() and cm[0].right.const == 0 and alg_degree(cm[0].left.a(R)) == Exp(2) and
           "diff" in cm[0].left.tags, derived="%s" % [(e.op, alg_str(e.left.a(R))) for e in cm], loc=cm[0].loc if cm else r.fi.loc(), inconclusive=not cm)
    unmodelled_in(r, chk, "R-IDX", cd)
    # the product is formed from ADJACENT differences: where it is written as a product of two slices of one array, the slices are [1:] and [:-1]
    # (a located product of two slices of the same name with other bounds compares differences that are not neighbours)
    for n_ in ast.walk(r.fi.node):
        if isinstance(n_, ast.BinOp) and isinstance(n_.op, ast.Mult) and all(
                isinstance(x, ast.Subscript) and isinstance(x.value, ast.Name) and isinstance(x.slice, ast.Slice) and x.slice.step is None
                for x in (n_.left, n_.right)) and n_.left.value.id == n_.right.value.id:
            forms = sorted(" ".join(ast.unparse(x.slice).split()) for x in (n_.left, n_.right))

            def _lit(e_, upper):
                """literal slice bound: lower k >= 0 (None = 0), upper -k <= 0 counted from the end (None = 0); anything else is not read"""
                if e_ is None:
                    return 0
                try:
                    v_ = ast.literal_eval(e_)
                except Exception:
                    return None
                if type(v_) is not int:
                    return None
                if upper:
                    return v_ if v_ < 0 else (0 if (v_ == 0 and False) else None)
                return v_ if v_ >= 0 else None
            bnds = [(_lit(x.slice.lower, False), _lit(x.slice.upper, True)) for x in (n_.left, n_.right)]
            read_ = all(a_ is not None and b_ is not None for a_, b_ in bnds) or any(
                isinstance(x.slice.upper, ast.UnaryOp) and isinstance(x.slice.upper.operand, ast.Constant) and x.slice.upper.operand.value == 0
                for x in (n_.left, n_.right))           # x[:-0] is the empty slice: a located wrong bound
            chk.ob("R-IDX", cd + "{adjacent pair}", "the product pairs each difference with its neighbour: slices [1:] and [:-1] of the same array",
                   sorted(bnds, key=repr) == sorted([(1, 0), (0, -1)], key=repr), derived="slices %s of `%s`" % (forms, n_.left.value.id),
                   loc=r.fi.loc(n_), stmt=norm_stmt(n_), inconclusive=not read_)
    # the detector enforces a float copy ("enforce array type"): with fixed-width integer samples the successive differences and their
    # products must not be formed in the integer dtype (they wrap around and turning points are lost or invented)
    for pt in ("all", "max"):
        no_int_arith(chk, "R-IDX", GP, lambda I, st, fi, pt=pt: dict(values=rec_array("values", dtype="int"), ptype=const_av(pt)),
                     "eqsig/fns/peaks_and_crossings.py:get_peak_array_indices(ptype=%s, integer samples)" % pt, what="integer-typed samples")
    ncyc_rules(chk)
    from ..tyob import leading_zero_tests
    _fi = chk.P.fn(PK + "get_n_cyc_array")
    leading_zero_tests(chk, "R-NCYC", _fi, "indys", "eqsig/fns/peaks_and_crossings.py:get_n_cyc_array", what="a missing index 0", minimum=0)
    from ..tyob import plateau_cleaner_exact
    plateau_cleaner_exact(chk, "R-IDX")
    chk.floor("R-PARTITION", 3)
    chk.floor("R-CLEANED", 1)
    chk.floor("R-IDX", 8)
    chk.floor("R-NCYC", 8)


def partition_scenarios(chk, fi, c):
    """The max / min selections, decided on the interpretation whatever their control flow looks like: the direction value (a
    difference of two samples of the series) is given each sign in turn; under every sign the two selections must be the two
    complementary strides [0::2] / [1::2] of the index array, and when the later sample is the larger the maxima are the odd entries."""
    hits = {}

    def run_(ptype, sgn):
        seen = []

        def setup(I):
            _tag(I)

            vals_ = {}

            def hook(fr, e, v):
                if fr.fi is fi and isinstance(e, ast.Subscript):
                    vals_[id(e)] = v
                if fr.fi is fi and isinstance(e, ast.Compare) and len(e.ops) == 1 and isinstance(e.left, ast.Subscript) and \
                        isinstance(e.comparators[0], ast.Subscript) and ast.dump(e.left.value) == ast.dump(e.comparators[0].value) and \
                        v is not None and v.kind in (K_BOOL, K_SCALAR) and vals_.get(id(e.left)) is not None and \
                        alg_degree(vals_[id(e.left)].a(R)) == Exp(1):
                    # the direction written as a comparison of the two samples: values[later] > values[earlier]
                    rgt = e.comparators[0]
                    li = [x.value for x in ast.walk(e.left.slice) if isinstance(x, ast.Constant) and isinstance(x.value, int)]
                    ri = [x.value for x in ast.walk(rgt.slice) if isinstance(x, ast.Constant) and isinstance(x.value, int)]
                    orient = (1 if li[-1] > ri[-1] else -1) if (len(li) == 1 and len(ri) == 1 and li != ri) else 0
                    if orient == 0:
                        lt = {t for t in vals_[id(e.left)].tags if t.startswith("at#")}
                        rt = {t for t in (vals_.get(id(rgt)).tags if vals_.get(id(rgt)) is not None else ()) if t.startswith("at#")}
                        if len(lt) == 1 and len(rt) == 1 and lt != rt:
                            orient = 1 if max(lt) > max(rt) else -1
                    raw = isinstance(e.left.slice, ast.Constant) and isinstance(rgt.slice, ast.Constant)
                    seen.append((" ".join(ast.unparse(e).split()), orient, raw))
                    d = sgn * (orient or 1)             # sign of left - right in this scenario
                    truth = {"Gt": d > 0, "GtE": d >= 0, "Lt": d < 0, "LtE": d <= 0, "Eq": d == 0, "NotEq": d != 0}.get(type(e.ops[0]).__name__)
                    if truth is None:
                        return None
                    return v.replace(const=truth, kind=K_BOOL)
                if fr.fi is not fi or not isinstance(e, ast.BinOp) or not isinstance(e.op, ast.Sub) or v is None:
                    return None
                if not (isinstance(e.left, ast.Subscript) and isinstance(e.right, ast.Subscript)) or v.kind not in (K_SCALAR,):
                    return None
                if ast.dump(e.left.value) != ast.dump(e.right.value) or alg_degree(v.a(R)) != Exp(1):
                    return None
                li = [x.value for x in ast.walk(e.left.slice) if isinstance(x, ast.Constant) and isinstance(x.value, int)]
                ri = [x.value for x in ast.walk(e.right.slice) if isinstance(x, ast.Constant) and isinstance(x.value, int)]
                orient = (1 if li[-1] > ri[-1] else -1) if (len(li) == 1 and len(ri) == 1 and li != ri) else 0
                if orient == 0:         # positions held in locals: which one is the later element of the index array?
                    lt = {t for t in (vals_.get(id(e.left)).tags if vals_.get(id(e.left)) is not None else ()) if t.startswith("at#")}
                    rt = {t for t in (vals_.get(id(e.right)).tags if vals_.get(id(e.right)) is not None else ()) if t.startswith("at#")}
                    if len(lt) == 1 and len(rt) == 1 and lt != rt:
                        orient = 1 if max(lt) > max(rt) else -1
                raw = isinstance(e.left.slice, ast.Constant) and isinstance(e.right.slice, ast.Constant)
                seen.append((" ".join(ast.unparse(e).split()), orient, raw))
                eff = sgn * (orient or 1)          # the scenario fixes the sign of `later minus earlier`
                return v.replace(sign={1: S_POS, -1: S_NEG, 0: S_ZERO}[eff], const=0.0 if eff == 0 else v.const)
            I.expr_hook = hook
        r = analyse(chk, GP, lambda I, st, f: dict(values=rec_array("values"), ptype=const_av(ptype)), setup=setup)
        st = sorted(t for t in r.ret.tags if t.startswith("stride:"))
        return st, seen
    bad, orient_ok, exprs, raws = [], None, set(), False
    unlocated = False
    for sgn in (1, 0, -1):
        smax, seen1 = run_("max", sgn)
        smin, seen2 = run_("min", sgn)
        for tx, o, raw in seen1 + seen2:
            exprs.add(tx)
            raws = raws or raw
        comp = len(smax) == 1 and len(smin) == 1 and {smax[0], smin[0]} == {"stride:0/2", "stride:1/2"}
        if not smax and not smin:
            unlocated = True       # no strided selection of an index array reaches either result: a design this rule does not know
        if not comp:
            bad.append("later %s earlier: max takes %s, min takes %s" % ({1: ">", 0: "==", -1: "<"}[sgn], smax, smin))
        if sgn == 1 and comp and all(o != 0 for _, o, _ in seen1):
            orient_ok = smax == ["stride:1/2"]
    chk.ob("R-PARTITION", c + "{scenario: strides}", "for every sign of the direction, 'max' and 'min' return the two complementary strides of the "
           "index array", not bad and bool(exprs), derived="; ".join(bad) or "complementary for >, ==, < (direction: %s)" % sorted(exprs), loc=fi.loc(),
           inconclusive=(unlocated or not exprs) and not (bad and exprs and not unlocated))
    import re as _re
    operands = {tuple(sorted(_re.findall(r"[A-Za-z_]\w*\[[^\]]*\]*\]?", tx))) for tx in exprs}
    chk.ob("R-PARTITION", c + "{scenario: direction}", "both selections are decided by the same two samples of the series", len(operands) == 1,
           derived="%s" % sorted(exprs), loc=fi.loc(), inconclusive=not exprs)
    if orient_ok is not None:
        chk.ob("R-PARTITION", c + "{scenario: orientation}", "when the first segment rises the maxima are the odd entries [1::2]", orient_ok,
               derived="rising first segment: max takes %s" % ("[1::2]" if orient_ok else "[0::2]"), loc=fi.loc())
    chk.ob("R-CLEANED", c + "{scenario: direction source}", "the direction is not a difference of two literal positions of the uncleaned input",
           not raws, derived="direction %s" % sorted(exprs), loc=fi.loc(),
           detail="a flat start makes values[1] - values[0] zero although the series rises" if raws else None)


def _tag(I):
    I.tag_returns = {PK + "clean_out_non_changing"}
    orig = I.call_function

    def wrapped(fi, bound, state, caller_fr, node, self_obj=None, is_entry=False):
        ret, st, fl = orig(fi, bound, state, caller_fr, node, self_obj=self_obj, is_entry=is_entry)
        if fi.qualname.endswith("determine_indices_of_peaks_for_cleaned_array") and ret is not None:
            ret = ret.replace(tags=ret.tags | frozenset(["ret:determine_indices_of_peaks_for_cleaned_array"]))
        return ret, st, fl
    I.call_function = wrapped


def ncyc_rules(chk):
    P = chk.P
    q = PK + "get_n_cyc_array"
    fi = P.fn(q)
    c = "eqsig/fns/peaks_and_crossings.py:get_n_cyc_array"
    for opt, callee in (("all", "get_peak_array_indices"), ("switched", "get_switched_peak_array_indices")):
        for start, shift in (("origin", -0.25), ("peak", 0.0)):
            r = analyse(chk, q, lambda I, st, fi, opt=opt, start=start: dict(values=rec_array("values"), opt=const_av(opt), start=const_av(start)))
            cc = "%s(opt=%s,start=%s)" % (c, opt, start)
            unmodelled_in(r, chk, "R-NCYC", cc)
            expect(chk, "R-NCYC", cc, r.ret, length="n", deg={R: 0}, parity={R: "even"}, kind=K_ARRAY, tags_has=["interp:linear"], loc=fi.loc())
            calls = [e for e in r.events("call", q) if e.callee.split(".")[-1] in ("get_peak_array_indices", "get_switched_peak_array_indices")]
            chk.ob("R-NCYC", cc + "{indices}", "opt=%s uses %s" % (opt, callee), len(calls) == 1 and calls[0].callee.endswith("." + callee),
                   derived="%s" % [e.callee.split(".")[-1] for e in calls], loc=fi.loc())
            ip = [e for e in r.events("lib-call", q) if e.name == "numpy.interp"]
            if len(ip) == 1:
                x, xp, fp = ip[0].args[:3]
                chk.ob("R-NCYC", cc + "{interp}", "interp(arange(len(values)), peak indices, cycle numbers)", x.length() == LinExpr("n") and x.f0 and
                       "arange0" in x.tags and "where-index" in xp.tags and "arange0" in fp.tags and "where-index" not in fp.tags - xp.tags or
                       (x.length() == LinExpr("n") and "where-index" in xp.tags), derived="x len %r" % (x.length(),), loc=ip[0].loc)
                # the counter starts at the first sample: the peak indices handed to the interpolation begin with index 0 on every path
                # (inserted when missing -- np.insert(indices, 0, 0) under `indices[0] != 0`)
                # located wrong instances: the index 0 inserted somewhere else / another index inserted in front (np.insert(nodes, k, v) with
                # literal k != 0 or v != 0), or inserted exactly when it is already there (`if nodes[0] == 0: insert`)
                wrong_ = None
                if not xp.f0:
                    for e_ in r.events("lib-call", q):
                        if e_.name == "numpy.insert" and len(e_.args) >= 3 and "where-index" in e_.args[0].tags:
                            k_, v_ = e_.args[1], e_.args[2]
                            if (k_.has_const() and k_.const != 0) or (v_.has_const() and v_.const != 0):
                                wrong_ = (e_.loc, "np.insert(nodes, %s, %s): not the index 0 put in front" % (
                                    k_.const if k_.has_const() else "?", v_.const if v_.has_const() else "?"))
                    for n_ in ast.walk(fi.node):
                        if isinstance(n_, ast.If) and isinstance(n_.test, ast.Compare) and len(n_.test.ops) == 1 and isinstance(n_.test.ops[0], ast.Eq):
                            a_, b_ = n_.test.left, n_.test.comparators[0]
                            if isinstance(b_, ast.Subscript):
                                a_, b_ = b_, a_
                            if isinstance(a_, ast.Subscript) and isinstance(a_.slice, ast.Constant) and a_.slice.value == 0 and \
                                    isinstance(b_, ast.Constant) and type(b_.value) in (int, float) and b_.value == 0 and \
                                    any(isinstance(x, ast.Call) and ast.unparse(x.func).split(".")[-1] == "insert" for st_ in n_.body for x in ast.walk(st_)) and \
                                    not any(isinstance(x, ast.Call) and ast.unparse(x.func).split(".")[-1] == "insert" for st_ in n_.orelse for x in ast.walk(st_)):
                                wrong_ = (fi.loc(n_), "the index 0 is inserted exactly when it is already the first node (`%s`), and not when it is missing" %
                                          " ".join(ast.unparse(n_.test).split()))
                chk.ob("R-NCYC", cc + "{origin}", "the interpolation nodes begin with index 0 on every path", bool(xp.f0),
                       derived=wrong_[1] if wrong_ else "first node is 0: %s" % bool(xp.f0), loc=wrong_[0] if wrong_ else ip[0].loc,
                       inconclusive=xp.indef and not xp.f0 and wrong_ is None)
            fp_parts = ip[0].args[2].parts if len(ip) == 1 else None
            # definite shapes: a progression ("ap"), a progression broken at position k >= 2 ("ap-broken": entries 1..k-1 keep another offset), a
            # constant divided by a progression ("non-ap"); anything else is not derived
            definite_ = isinstance(fp_parts, tuple) and fp_parts[:1] in (("ap",), ("ap-broken",), ("non-ap",))
            chk.ob("R-NCYC", cc + "{shift}", "cycle numbers are 0 for the first index and 0.5*k %+g for the k-th (k >= 1)" % shift,
                   fp_parts == ("ap", 0.5, 0.0, shift) or fp_parts == ("ap", 0.5, 0, shift),
                   derived="cycle numbers %s" % (fp_parts,), loc=ip[0].loc if ip else fi.loc(), inconclusive=not definite_)
            chk.ob("R-NCYC", cc + "{monotone}", "the cycle numbers are nondecreasing (0 <= 0.5 + shift)", isinstance(fp_parts, tuple) and fp_parts[0] == "ap"
                   and fp_parts[2] <= fp_parts[1] + fp_parts[3] and fp_parts[1] >= 0, derived="%s" % (fp_parts,), loc=fi.loc(), nontrivial=False,
                   inconclusive=not (isinstance(fp_parts, tuple) and fp_parts[:1] == ("ap",)))
    # option tables, decided on the interpretation (an if/elif chain and a dictionary dispatch are the same thing): anything but the two
    # documented values of each option raises
    for opt, start, what in (("bogus", "origin", "opt"), ("all", "bogus", "start")):
        r = analyse(chk, q, lambda I, st, fi, opt=opt, start=start: dict(values=rec_array("values"), opt=const_av(opt), start=const_av(start)))
        rs = [e for e in r.I.events if e.kind == "raise" and e.fn == q]
        chk.ob("R-NCYC", c + "{%s table}" % what, "an undocumented value of `%s` raises" % what, bool(rs) and not r.returns(),
               derived="%d raise(s), %d normal return(s)" % (len(rs), len(r.returns())), loc=fi.loc())

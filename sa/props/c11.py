"""C11 -- local-peak detection: the decidable structural clauses (partition of max/min, direction source, index map, cycle counter).

Soundness and completeness over all rise/fall/flat patterns is a statement about values and is NOT decided here."""
import ast
from fractions import Fraction

from ..tyob import *  # noqa
from ..tyob import analyse, expect, item, unmodelled_in, no_int_arith
from ..poly import Normaliser, Poly, straightline_env
from ..program import norm_stmt

PK = "eqsig.fns.peaks_and_crossings."
GP = PK + "get_peak_array_indices"
SIGNS = (-1, 0, 1)


def truth_table(test, env):
    """({sign of E: truth}, canonical E) of a direction test  E op 0  /  A op B  /  name / not ..."""
    if isinstance(test, ast.UnaryOp) and isinstance(test.op, ast.Not):
        t, e = truth_table(test.operand, env)
        return (None, e) if t is None else ({s: not v for s, v in t.items()}, e)
    if isinstance(test, ast.Name) and test.id in env["bools"]:
        return truth_table(env["bools"][test.id], env)
    if isinstance(test, ast.Compare) and len(test.ops) == 1:
        norm = env["norm"]
        E = norm.poly(test.left) - norm.poly(test.comparators[0])
        op = type(test.ops[0]).__name__
        f = {"Gt": lambda s: s > 0, "GtE": lambda s: s >= 0, "Lt": lambda s: s < 0, "LtE": lambda s: s <= 0, "Eq": lambda s: s == 0,
             "NotEq": lambda s: s != 0}.get(op)
        if f is None:
            return None, None
        # canonical orientation: later sample minus earlier sample (E > 0 means "rising")
        import re
        flip = False
        if len(E.t) == 2:
            items = sorted(E.t.items(), key=lambda kv: repr(kv[0]))
            idx = []
            for m, co in items:
                ints = re.findall(r"\[(-?\d+)\]", m[0][0]) if (len(m) == 1) else []
                idx.append((int(ints[-1]) if ints else None, co))
            if idx[0][0] is not None and idx[1][0] is not None and idx[0][0] != idx[1][0]:
                later = idx[0] if idx[0][0] > idx[1][0] else idx[1]
                flip = later[1] < 0
            else:
                flip = items[0][1] < 0
                env["oriented"] = False
        if flip:
            E = -E
            return {s: f(-s) for s in SIGNS}, E.canon()
        return {s: f(s) for s in SIGNS}, E.canon()
    return None, None


def stride_of(ret):
    """(array name, start, step) of `return X[a::b]`"""
    v = ret.value
    if isinstance(v, ast.Subscript) and isinstance(v.slice, ast.Slice) and isinstance(v.value, ast.Name):
        lo = v.slice.lower.value if isinstance(v.slice.lower, ast.Constant) else (0 if v.slice.lower is None else "?")
        st = v.slice.step.value if isinstance(v.slice.step, ast.Constant) else "?"
        if v.slice.upper is None:
            return v.value.id, lo, st
    return None


def run(chk):
    P = chk.P
    chk.rule("R-PARTITION", "the 'max' and 'min' selections are complementary for every outcome of the direction test: same direction "
                            "expression, complementary strides [::2] / [1::2] of the same index array")
    chk.rule("R-CLEANED", "the direction that decides which stride holds the maxima is not an adjacent difference of the UNCLEANED array "
                          "(difference-sign logic is valid only on plateau-compressed data: the module's own stated belief)")
    chk.rule("R-IDX", "reported indices = np.take(index map, cleaned peak indices), map and cleaned array from the same cleaning call; the "
                      "cleaned detector inserts index 0 and len-1")
    chk.rule("R-NCYC", "cycle counter: record length, linear interpolation of 0.5*arange over the peak indices, start table 'origin' -> "
                       "-0.25 / 'peak' -> 0.0, opt table 'all' / 'switched' with a raising else")
    fi = P.fn(GP)
    c = "eqsig/fns/peaks_and_crossings.py:get_peak_array_indices"
    chk.files.add(fi.module.relpath)
    bools = {}
    for n in ast.walk(fi.node):
        if isinstance(n, ast.Assign) and isinstance(n.targets[0], ast.Name) and isinstance(n.value, (ast.Compare, ast.UnaryOp)):
            bools[n.targets[0].id] = n.value
    env = {"bools": bools, "norm": straightline_env(fi.node.body, Normaliser(), exclude=set(fi.params) | {"values", "cleaned_values"})}
    sel = {}
    for n in ast.walk(fi.node):
        if isinstance(n, ast.If) and isinstance(n.test, ast.Compare) and isinstance(n.test.left, ast.Name) and n.test.left.id == "ptype" and \
                isinstance(n.test.comparators[0], ast.Constant):
            lit = n.test.comparators[0].value
            inner = [x for x in n.body if isinstance(x, ast.If)]
            if len(inner) == 1 and len(inner[0].body) == 1 and len(inner[0].orelse) == 1 and isinstance(inner[0].body[0], ast.Return) and \
                    isinstance(inner[0].orelse[0], ast.Return):
                tt_, E = truth_table(inner[0].test, env)
                sel[lit] = (tt_, E, stride_of(inner[0].body[0]), stride_of(inner[0].orelse[0]), inner[0])
    if set(sel) != {"min", "max"} or any(v[0] is None or v[2] is None or v[3] is None for v in sel.values()):
        chk.ob("R-PARTITION", c, "ptype 'min' and 'max' each select by one direction test between two strides", False,
               derived="recognised: %s" % sorted(sel), inconclusive=True, loc=fi.loc())
    else:
        (tmin, Emin, amin, bmin, nmin), (tmax, Emax, amax, bmax, nmax) = sel["min"], sel["max"]
        chk.ob("R-PARTITION", c + "{direction}", "both selections test the same direction expression", Emin == Emax,
               derived="min tests %s ; max tests %s" % (Emin, Emax), loc=fi.loc(nmin))
        bad = []
        for s in SIGNS:
            smin = amin if tmin[s] else bmin
            smax = amax if tmax[s] else bmax
            comp = smin[0] == smax[0] and smin[2] == smax[2] == 2 and {smin[1], smax[1]} == {0, 1}
            if not comp:
                bad.append("direction %s0: min takes %s, max takes %s" % ({-1: "<", 0: "==", 1: ">"}[s], smin, smax))
        chk.ob("R-PARTITION", c + "{strides}", "for every sign of the direction, max and min take complementary strides of one array", not bad,
               derived="; ".join(bad) or "complementary for <0, ==0, >0", loc=fi.loc(nmax))
        # rising first segment => index 0 is a minimum => maxima are the odd entries
        smax_up = amax if tmax[1] else bmax
        if env.get("oriented", True):
            chk.ob("R-PARTITION", c + "{orientation}", "when the first segment rises, the maxima are the odd entries [1::2]", smax_up[1] == 1,
                   derived="rising (%s > 0): max takes start %s" % (Emax, smax_up[1]), loc=fi.loc(nmax))
        else:
            chk.note("orientation of the direction expression %s could not be read off its indices; orientation clause not evaluated" % Emax)
        # ---- R-CLEANED
        cleaned_arg = None
        for n in ast.walk(fi.node):
            if isinstance(n, ast.Call) and ast.unparse(n.func).split(".")[-1] == "clean_out_non_changing" and n.args and isinstance(n.args[0], ast.Name):
                cleaned_arg = n.args[0].id
        adj = False
        if cleaned_arg is not None and Emax is not None:
            import re
            idx = re.findall(r"\b%s\[(\d+)\]" % re.escape(cleaned_arg), Emax)
            others = re.findall(r"\b%s\[([^\]\d][^\]]*)\]" % re.escape(cleaned_arg), Emax)
            adj = len(idx) == 2 and abs(int(idx[0]) - int(idx[1])) == 1 and not others
        chk.ob("R-CLEANED", c + "{direction source}", "the direction is not values[k+1] - values[k] of the uncleaned input", not adj,
               derived="direction expression %s (`%s` is the array handed to the plateau cleaner)" % (Emax, cleaned_arg), loc=fi.loc(nmax),
               stmt=norm_stmt(nmax.test), detail="[1,1,2,1] with 'max' returns [0,3]: a flat start makes the adjacent difference 0 although the series rises"
               if adj else None)
    # other ptype -> all
    r = analyse(chk, GP, lambda I, st, fi: dict(values=rec_array("values"), ptype=const_av("all")), setup=_tag)
    unmodelled_in(r, chk, "R-IDX", c)
    tk = [e for e in r.events("lib-call", GP) if e.name == "numpy.take"]
    if len(tk) == 1:
        a0, a1 = tk[0].args[:2]
        chk.ob("R-IDX", c + "{map}", "np.take maps through the index map returned by the cleaning call",
               sorted(t for t in a0.tags if t.startswith("ret:clean")) == ["ret:clean_out_non_changing#1"],
               derived="%s" % sorted(t for t in a0.tags if t.startswith("ret:")), loc=tk[0].loc)
        chk.ob("R-IDX", c + "{cleaned peaks}", "the mapped indices are the detector's result on the cleaned array",
               "ret:determine_indices_of_peaks_for_cleaned_array" in a1.tags and "ret:clean_out_non_changing#0" in a1.tags,
               derived="%s" % sorted(t for t in a1.tags if t.startswith("ret:")), loc=tk[0].loc)
        chk.ob("R-IDX", c + "{result}", "ptype 'all' returns the mapped indices", r.ret.origin == frozenset([r.I.alloc_tok(type("F", (), {"fi": fi})(), tk[0].node)])
               or "ret:clean_out_non_changing#1" in r.ret.tags, derived="origin %s" % sorted(r.ret.origin), loc=fi.loc(), nontrivial=False)
    else:
        chk.ob("R-IDX", c, "one np.take through the index map", False, derived="%d" % len(tk), loc=fi.loc())
    det = [e for e in r.events("call", GP) if e.callee.endswith("determine_indices_of_peaks_for_cleaned_array")]
    chk.ob("R-IDX", c + "{detector input}", "the detector runs on the cleaned array", len(det) == 1 and
           "ret:clean_out_non_changing#0" in det[0].bound["values"].tags, derived="%d detector call(s)" % len(det), loc=det[0].loc if det else fi.loc())
    expect(chk, "R-IDX", c + ".result", r.ret, deg={R: 0}, parity={R: "even"}, sign="nonneg", dtype="int", loc=fi.loc())
    # the cleaning routine: on every return path, cleaned == np.take(values, map) for the map it returns
    qc = PK + "clean_out_non_changing"
    rc = analyse(chk, qc, lambda I, st, fi: dict(values=rec_array("values")))
    takes = [e for e in rc.events("lib-call", qc) if e.name == "numpy.take"]
    for k, v in enumerate(rc.returns()):
        a, b = item(v, 0), item(v, 1)
        ok = a is not None and b is not None and any(
            rc.I.alloc_tok(type("F", (), {"fi": rc.fi})(), e.node) in a.origin and e.args[0].origin == frozenset(["p:values"]) and e.args[1].origin == b.origin
            for e in takes) and len(a.origin) == 1
        chk.ob("R-IDX", "eqsig/fns/peaks_and_crossings.py:clean_out_non_changing{return %d}" % k,
               "returned (cleaned, map) satisfy cleaned == np.take(values, map)", ok,
               derived="cleaned origin %s, map origin %s" % (sorted(a.origin) if a is not None else None, sorted(b.origin) if b is not None else None),
               loc=rc.fi.loc())
    if not rc.returns():
        chk.ob("R-IDX", "eqsig/fns/peaks_and_crossings.py:clean_out_non_changing", "returns (cleaned, map)", False, derived="no return", loc=rc.fi.loc())
    # detector: inserts 0 and len-1
    q = PK + "determine_indices_of_peaks_for_cleaned_array"
    r = analyse(chk, q, lambda I, st, fi: dict(values=rec_array("values")))
    ins = [e for e in r.events("lib-call", q) if e.name == "numpy.insert"]
    cd = "eqsig/fns/peaks_and_crossings.py:determine_indices_of_peaks_for_cleaned_array"
    first = [e for e in ins if e.args[1].has_const() and e.args[1].const == 0 and e.args[2].has_const() and e.args[2].const == 0]
    last = [e for e in ins if e.args[2].sym is not None and e.args[2].sym == LinExpr("n") - 1]
    chk.ob("R-IDX", cd + "{ends}", "index 0 is inserted at the front and len(values)-1 at the end", len(first) == 1 and len(last) == 1 and len(ins) == 2,
           derived="%d insert(s): front-0 %d, len-1 %d" % (len(ins), len(first), len(last)), loc=r.fi.loc())
    cm = [e for e in r.events("compare", q)]
    chk.ob("R-IDX", cd + "{turning test}", "a turning point is a strictly negative product of successive differences",
           len(cm) == 1 and cm[0].op == "Lt" and cm[0].right.has_const() and cm[0].right.const == 0 and alg_degree(cm[0].left.a(R)) == Exp(2) and
           "diff" in cm[0].left.tags, derived="%s" % [(e.op, alg_str(e.left.a(R))) for e in cm], loc=cm[0].loc if cm else r.fi.loc())
    # the detector enforces a float copy ("enforce array type"): with fixed-width integer samples the successive differences and their
    # products must not be formed in the integer dtype (they wrap around and turning points are lost or invented)
    for pt in ("all", "max"):
        no_int_arith(chk, "R-IDX", GP, lambda I, st, fi, pt=pt: dict(values=rec_array("values", dtype="int"), ptype=const_av(pt)),
                     "eqsig/fns/peaks_and_crossings.py:get_peak_array_indices(ptype=%s, integer samples)" % pt, what="integer-typed samples")
    ncyc_rules(chk)
    chk.floor("R-PARTITION", 3)
    chk.floor("R-CLEANED", 1)
    chk.floor("R-IDX", 8)
    chk.floor("R-NCYC", 8)


def _tag(I):
    I.tag_returns = {PK + "clean_out_non_changing"}
    orig = I.call_function

    def wrapped(fi, bound, state, caller_fr, node, self_obj=None, is_entry=False):
        ret, st, fl = orig(fi, bound, state, caller_fr, node, self_obj=self_obj, is_entry=is_entry)
        if fi.qualname.endswith("determine_indices_of_peaks_for_cleaned_array") and ret is not None:
            ret = ret.replace(tags=ret.tags | frozenset(["ret:determine_indices_of_peaks_for_cleaned_array"]))
        return ret, st, fl
    I.call_function = wrapped


def ncyc_rules(chk):
    P = chk.P
    q = PK + "get_n_cyc_array"
    fi = P.fn(q)
    c = "eqsig/fns/peaks_and_crossings.py:get_n_cyc_array"
    for opt, callee in (("all", "get_peak_array_indices"), ("switched", "get_switched_peak_array_indices")):
        for start, shift in (("origin", -0.25), ("peak", 0.0)):
            r = analyse(chk, q, lambda I, st, fi, opt=opt, start=start: dict(values=rec_array("values"), opt=const_av(opt), start=const_av(start)))
            cc = "%s(opt=%s,start=%s)" % (c, opt, start)
            unmodelled_in(r, chk, "R-NCYC", cc)
            expect(chk, "R-NCYC", cc, r.ret, length="n", deg={R: 0}, parity={R: "even"}, kind=K_ARRAY, tags_has=["interp:linear"], loc=fi.loc())
            calls = [e for e in r.events("call", q) if e.callee.split(".")[-1] in ("get_peak_array_indices", "get_switched_peak_array_indices")]
            chk.ob("R-NCYC", cc + "{indices}", "opt=%s uses %s" % (opt, callee), len(calls) == 1 and calls[0].callee.endswith("." + callee),
                   derived="%s" % [e.callee.split(".")[-1] for e in calls], loc=fi.loc())
            ip = [e for e in r.events("lib-call", q) if e.name == "numpy.interp"]
            if len(ip) == 1:
                x, xp, fp = ip[0].args[:3]
                chk.ob("R-NCYC", cc + "{interp}", "interp(arange(len(values)), peak indices, cycle numbers)", x.length() == LinExpr("n") and x.f0 and
                       "arange0" in x.tags and "where-index" in xp.tags and "arange0" in fp.tags and "where-index" not in fp.tags - xp.tags or
                       (x.length() == LinExpr("n") and "where-index" in xp.tags), derived="x len %r" % (x.length(),), loc=ip[0].loc)
            aug = [e for e in r.events("mutation", q) if e.how == "augassign-subscript"]
            okv = len(aug) == 1 and aug[0].value is not None
            chk.ob("R-NCYC", cc + "{shift}", "cycle numbers after the first are shifted by %s" % shift, okv, derived="%d shift site(s)" % len(aug),
                   loc=aug[0].loc if aug else fi.loc(), nontrivial=False)
    # literal tables
    lits = {}
    for n in ast.walk(fi.node):
        if isinstance(n, ast.If) and isinstance(n.test, ast.Compare) and isinstance(n.test.left, ast.Name) and n.test.left.id == "start":
            node = n
            while True:
                lit = node.test.comparators[0].value
                a = [x for x in node.body if isinstance(x, ast.Assign) and isinstance(x.value, (ast.Constant, ast.UnaryOp))]
                if a:
                    lits[lit] = ast.literal_eval(a[0].value)
                if len(node.orelse) == 1 and isinstance(node.orelse[0], ast.If):
                    node = node.orelse[0]
                else:
                    lits["else-raises"] = any(isinstance(x, ast.Raise) for x in node.orelse)
                    break
            break
    chk.ob("R-NCYC", c + "{start table}", "'origin' -> -0.25, 'peak' -> 0.0, anything else raises", lits == {"origin": -0.25, "peak": 0.0, "else-raises": True},
           derived="%s" % lits, loc=fi.loc())
    step = [n for n in ast.walk(fi.node) if isinstance(n, ast.Assign) and isinstance(n.value, ast.BinOp) and "arange" in ast.unparse(n.value)]
    okstep = False
    if step:
        p = Normaliser().poly(step[0].value)
        okstep = p.is_monomial() and list(p.t.values()) == [Fraction(1, 2)]
    chk.ob("R-NCYC", c + "{half cycle}", "each reported peak adds 0.5 cycle: 0.5 * arange(number of indices)", okstep,
           derived=Normaliser().poly(step[0].value).canon() if step else "not found", loc=fi.loc(step[0]) if step else fi.loc())
    chk.ob("R-NCYC", c + "{monotone}", "shift on [1:] of at least -0.5 keeps 0.5*arange nondecreasing", all(
        isinstance(v, float) and -0.5 <= v <= 0 for k, v in lits.items() if k != "else-raises"), derived="shifts %s against step 0.5" % {k: v for k, v in lits.items() if k != "else-raises"},
        loc=fi.loc())
    opts = {}
    for n in ast.walk(fi.node):
        if isinstance(n, ast.If) and isinstance(n.test, ast.Compare) and isinstance(n.test.left, ast.Name) and n.test.left.id == "opt":
            node = n
            while True:
                opts[node.test.comparators[0].value] = True
                if len(node.orelse) == 1 and isinstance(node.orelse[0], ast.If):
                    node = node.orelse[0]
                else:
                    opts["else-raises"] = any(isinstance(x, ast.Raise) for x in node.orelse)
                    break
            break
    chk.ob("R-NCYC", c + "{opt table}", "'all' / 'switched', anything else raises", opts == {"all": True, "switched": True, "else-raises": True},
           derived="%s" % opts, loc=fi.loc())

"""C18 -- two-component rotation and cluster alignment: the structural clauses."""
import ast
import copy
from fractions import Fraction

from ..tyob import *  # noqa
from ..tyob import analyse, expect, item, unmodelled_in
from ..poly import Normaliser, Poly, straightline_env
from ..program import norm_stmt
from ..interp import Interp, State
from ..sweep import make_cluster

ACC = "eqsig.single.AccSignal"
M = "eqsig.multiple."
RAD_FORMS = {"np.radians(angle)", "numpy.radians(angle)", "np.deg2rad(angle)", "numpy.deg2rad(angle)", "1/180*angle*pi"}


def run(chk):
    P = chk.P
    chk.rule("R-ROT", "combination = ns.values*cos(t) + we.values*sin(t), t = radians(angle): exactly these two terms; result is an "
                      "AccSignal with the first component's dt")
    chk.rule("R-ROT-SCAN", "angles = linspace(0-off, 180-off, points); each iteration combines at degrees[loop var] and appends exactly "
                           "one measure of that combination on every non-raising path")
    chk.rule("R-LOOPVAR", "in every Cluster loop over the signals, the signal read or written in the body is selected by the loop "
                          "variable (or is the master)")
    chk.rule("R-LOOPCARRY", "in every Cluster loop over the signals no variable is loop-carried (upward-exposed read of a name assigned in the body)")
    chk.rule("R-MASTER", "no signal is modified on the path where the loop variable equals master_index; the master average is taken "
                         "from signal_by_index(master_index); correction = values - (slave_average - master_average), same window")
    chk.rule("R-LAGSEARCH", "time_match: for every non-master signal both lag loops over range(steps) run (one shifts the slave window, "
                            "one the master window, the same residual otherwise; the selected lag is +i / -i accordingly) and the only "
                            "ways out of the per-signal body are the master test and a test on the selected lag alone")
    chk.rule("R-SECTION", "the section of same_start: times are converted by s = int(start/dt), e = int(end/dt) + 1 (end = -1 stays -1; indices are "
                          "taken as given), a section past the record is rejected (e > npts only), and the average is the mean of values[s:e]")
    chk.rule("R-KIND", "values handed to reset_values by the cluster stay arrays of unchanged length")
    rot_rules(chk)
    cluster_rules(chk)
    section_rules(chk)
    chk.floor("R-SECTION", 8)
    chk.floor("R-ROT", 6)
    chk.floor("R-ROT-SCAN", 8)
    chk.floor("R-LOOPVAR", 3)
    chk.floor("R-MASTER", 5)
    chk.floor("R-LAGSEARCH", 6)


def two_sigs(I, st, P):
    a = make_signal(I, st, P.cls(ACC), name="acc_sig_ns", atom=R)[1]
    b = make_signal(I, st, P.cls(ACC), name="acc_sig_we", atom="R2")[1]
    return a, b


def rot_rules(chk):
    P = chk.P
    fi = P.fn(M + "combine_at_angle")
    c = "eqsig/multiple.py:combine_at_angle"
    ns, we, ang = fi.params[:3]
    norm = straightline_env(fi.node.body, Normaliser(rename={ns + ".values": "NS", we + ".values": "WE", ang: "angle"}))
    calls = [n for n in ast.walk(fi.node) if isinstance(n, ast.Call) and ast.unparse(n.func).split(".")[-1] == "AccSignal"]
    if len(calls) != 1 or not calls[0].args:
        chk.ob("R-ROT", c, "one AccSignal(...) construction", False, derived="%d" % len(calls), loc=fi.loc(), inconclusive=True)
    else:
        p = norm.poly(calls[0].args[0])
        terms = {}
        ok = len(p.t) == 2
        for m, co in p.t.items():
            d = dict(m)
            if co != 1 or len(d) != 2:
                ok = False
                continue
            comp = [a for a in d if a in ("NS", "WE")]
            trig = [a for a in d if a.startswith(("np.cos(", "np.sin(", "numpy.cos(", "numpy.sin("))]
            if len(comp) != 1 or len(trig) != 1 or d[comp[0]] != 1 or d[trig[0]] != 1:
                ok = False
                continue
            fn = "cos" if "cos(" in trig[0] else "sin"
            arg = trig[0][trig[0].index("(") + 1:-1]
            terms[comp[0]] = (fn, arg)
        ok = ok and terms.get("NS", ("", ""))[0] == "cos" and terms.get("WE", ("", ""))[0] == "sin" and \
            terms["NS"][1] == terms["WE"][1] and terms["NS"][1] in RAD_FORMS
        chk.ob("R-ROT", c + "{combination}", "ns.values*cos(radians(angle)) + we.values*sin(radians(angle))", ok, derived=p.canon(),
               loc=fi.loc(calls[0]), stmt=norm_stmt(calls[0]))
    r = analyse(chk, fi.qualname, lambda I, st, fi: dict(zip((ns, we, ang), two_sigs(I, st, P) + (
        AV(kind=K_SCALAR, dtype="real", shape=(), origin=frozenset(["lit"]), tags=frozenset(["p:angle"]), note="pyscalar"),))), atoms=(R, DT, "R2"))
    unmodelled_in(r, chk, "R-ROT", c)
    o = r.st.heap.get(r.ret.obj) if r.ret.kind == K_OBJ else None
    chk.ob("R-ROT", c + ".class", "returns an AccSignal", o is not None and o.cls.name == "AccSignal", derived="%s" % (o.cls.name if o else r.ret.kind),
           loc=fi.loc())
    if o is not None:
        expect(chk, "R-ROT", c + ".values", o.attrs.get("_values"), length="n", tags_has=["p:%s.values" % ns, "p:%s.values" % we, "p:angle"],
               loc=fi.loc())
        expect(chk, "R-ROT", c + ".dt", o.attrs.get("_dt"), tags_has=["p:%s.dt" % ns], tags_not=["p:angle", "p:%s.values" % ns], deg={DT: 1}, loc=fi.loc())
    # ------------------------------------------------------------------ scan
    fs = P.fn(M + "compute_rotated")
    cs = "eqsig/multiple.py:compute_rotated"
    ls = [n for n in ast.walk(fs.node) if isinstance(n, ast.Call) and ast.unparse(n.func).split(".")[-1] == "linspace"]
    nm = Normaliser()
    if len(ls) == 1 and len(ls[0].args) >= 3:
        a0, a1, a2 = [nm.poly(a) for a in ls[0].args[:3]]
        off = Poly.atom("angle_off_ns")
        ok = a0 == -off and a1 == Poly.const(180) - off and a2 == Poly.atom("points")
        chk.ob("R-ROT-SCAN", cs + "{angles}", "linspace(0 - off, 180 - off, points): a half circle", ok,
               derived="linspace(%s ; %s ; %s)" % (a0.canon(), a1.canon(), a2.canon()), loc=fs.loc(ls[0]), stmt=norm_stmt(ls[0]))
    else:
        chk.ob("R-ROT-SCAN", cs + "{angles}", "one linspace of the angles", False, derived="%d" % len(ls), loc=fs.loc(), inconclusive=True)
    loops = [n for n in ast.walk(fs.node) if isinstance(n, ast.For)]
    if len(loops) == 1:
        lp = loops[0]
        # every leaf branch of the if-chain appends once or raises
        def leaves(stmts):
            out = []
            ifs = [s for s in stmts if isinstance(s, ast.If)]
            rest = [s for s in stmts if not isinstance(s, ast.If)]
            n_app = sum(1 for s in rest for x in ast.walk(s) if isinstance(x, ast.Call) and isinstance(x.func, ast.Attribute) and x.func.attr == "append")
            raises = any(isinstance(s, ast.Raise) for s in rest)
            if not ifs:
                return [(n_app, raises)]
            for i_ in ifs:
                for (a, rz) in leaves(i_.body) + (leaves(i_.orelse) if i_.orelse else [(0, False)]):
                    out.append((a + n_app, rz or raises))
            return out
        lv = leaves(lp.body)
        bad = [x for x in lv if not (x[0] == 1 or (x[0] == 0 and x[1]))]
        chk.ob("R-ROT-SCAN", cs + "{one append}", "each iteration appends exactly one value on every non-raising path", not bad,
               derived="leaf paths (appends, raises): %s" % lv, loc=fs.loc(lp))
    else:
        chk.ob("R-ROT-SCAN", cs + "{loop}", "one loop over the angles", False, derived="%d" % len(loops), loc=fs.loc(), inconclusive=True)
    for label, kw in (("arias_intensity", dict(parameter=const_av("arias_intensity"))),
                      ("attribute", dict(parameter=AV(kind=K_STR, tags=frozenset(["p:parameter"])))),
                      ("series attribute", dict(parameter=const_av("velocity"))),
                      ("callable returning a series", dict(func=AV(kind=K_FUNC, ref=("closure", lambda I2, fr, args, kwargs, node: AV(
                          kind=K_ARRAY, dtype="real", shape=(LinExpr("n"),), origin=frozenset(["a@user-series"]),
                          tags=frozenset(["user-fn", "loopvar"]) | (frozenset(["arg-obj"]) if args and args[0].kind == K_OBJ else frozenset())))))),
                      ("callable", dict(func=AV(kind=K_FUNC, ref=("closure", lambda I2, fr, args, kwargs, node: AV(
                          kind=K_TOP, shape=None, tags=frozenset(["user-fn"]) | (frozenset(["arg-obj"]) if args and args[0].kind == K_OBJ else frozenset()))))))):
        def build(I, st, fi, kw=kw):
            a, b = two_sigs(I, st, P)
            d = dict(acc_sig_ns=a, acc_sig_we=b, angle_off_ns=AV(kind=K_SCALAR, dtype="real", shape=(), origin=frozenset(["lit"]),
                                                                tags=frozenset(["p:angle_off_ns"]), note="pyscalar"))
            d.update(kw)
            return d
        r = analyse(chk, fs.qualname, build, atoms=(R, DT, "R2"))
        cc = "%s(%s)" % (cs, label)
        unmodelled_in(r, chk, "R-ROT-SCAN", cc)
        # the requested angles are only wrapped into [0, 360): np.mod(angles, 360)
        md = [e for e in r.events("lib-call", fs.qualname) if e.name in ("numpy.mod", "numpy.remainder", "numpy.fmod")]
        for e in md[:1]:
            okm = len(e.args) >= 2 and "linspace" in e.args[0].tags and e.args[1].has_const() and e.args[1].const == 360
            chk.ob("R-ROT-SCAN", cc + "{wrap}", "angles are wrapped by np.mod(angles, 360)", okm,
                   derived="mod(%s, %s)" % ("angles" if "linspace" in e.args[0].tags else e.args[0].kind, e.args[1].const if e.args[1].has_const() else "?"),
                   loc=e.loc, stmt=e.stmt)
        # where a series is reduced to one number it is its LAST element (the value the cumulative measure ends at)
        for e in r.events("subscript", fs.qualname):
            if e.index.kind == K_SCALAR and e.index.has_const() and e.base.kind in (K_ARRAY, K_TOP) and "loopvar" in e.base.tags and \
                    ("quad:trapezoid" in e.base.tags or "user-fn" in e.base.tags):
                chk.ob("R-ROT-SCAN", cc + "{final value: %s}" % e.stmt, "a series-valued measure is reduced to its final value [-1]", e.index.const == -1,
                       derived="index %r" % (e.index.const,), loc=e.loc, stmt=e.stmt)
        calls = [e for e in r.events("call", fs.qualname) if e.callee == M + "combine_at_angle"]
        if not calls:
            chk.ob("R-ROT-SCAN", cc, "the scan calls combine_at_angle", False, derived="no call", loc=fs.loc(),
                   inconclusive=True)      # the combination is formed some other way on this path (a fast path on the raw series ...): not located
            continue
        b = calls[-1].bound
        expect(chk, "R-ROT-SCAN", cc + "{angle}", b[ang], tags_has=["loopvar", "linspace", "p:angle_off_ns"], loc=calls[-1].loc)
        chk.ob("R-ROT-SCAN", cc + "{components}", "the two components are passed in (ns, we) order",
               b[ns].obj is not None and b[we].obj is not None and r.st.heap[b[ns].obj].label == "acc_sig_ns" and r.st.heap[b[we].obj].label == "acc_sig_we",
               derived="ns<-%s we<-%s" % (r.st.heap[b[ns].obj].label if b[ns].obj else None, r.st.heap[b[we].obj].label if b[we].obj else None),
               loc=calls[-1].loc)
        apps = [e for e in r.events("mutation", fs.qualname) if e.how == "list.append"]
        if label == "arias_intensity":
            okv = bool(apps) and all("quad:trapezoid" in e.value.tags and "loopvar" in e.value.tags and "linspace" in e.value.tags for e in apps)
            # located wrong: an appended value that does not derive from this iteration's combination at all; a measure picked through a
            # selected function object (values joined over the alternatives) is not located
            wrong_ = bool(apps) and any(not ({"loopvar", "linspace"} <= set(e.value.tags)) and not e.value.indef and e.value.kind != K_TOP for e in apps)
            # ... or one that derives from the combination through another quadrature / a plain sum (a located rival of the trapezoid rule)
            wrong_ = wrong_ or (bool(apps) and any("quad:trapezoid" not in e.value.tags and not e.value.indef and
                                                   any(t.startswith("quad:") or t in ("red:sum", "cum") for t in e.value.tags) for e in apps))
            chk.ob("R-ROT-SCAN", cc + "{measure}", "the appended value is the Arias intensity of this iteration's combination", okv,
                   derived="%d append(s)" % len(apps), loc=apps[0].loc if apps else fs.loc(), inconclusive=not okv and not wrong_)
        elif label == "series attribute":
            # a parameter name whose attribute is a whole series: the measure of the combination is that series, not one sample of it
            okv = bool(apps) and all(e.value.kind == K_ARRAY and e.value.shape is not None and len(e.value.shape) == 1 and
                                     e.value.shape[0] == LinExpr("n") for e in apps)
            chk.ob("R-ROT-SCAN", cc + "{measure}", "the appended value is the named attribute of this iteration's combination, whole", okv,
                   derived="%s" % [(e.value.kind, e.value.shape) for e in apps], loc=apps[0].loc if apps else fs.loc(),
                   inconclusive=bool(apps) and any((e.value.kind == K_TOP and e.value.indef) or
                                                   (e.value.kind == K_ARRAY and (e.value.indef or e.value.shape is None or any(d_ is None for d_ in e.value.shape)))
                                                   for e in apps))
        elif label == "callable":
            okv = bool(apps) and all("user-fn" in e.value.tags and "arg-obj" in e.value.tags for e in apps)
            # located wrong: some appended value that does not come from the user's function at all; values that come from it on some path and
            # from elsewhere on another (a measure selected once before the loop, joined over its alternatives) are not located
            chk.ob("R-ROT-SCAN", cc + "{measure}", "the appended value is func(new_sig) (or its last element)", okv,
                   derived="%d append(s)" % len(apps), loc=apps[0].loc if apps else fs.loc(),
                   inconclusive=(not apps) or (not okv and all("user-fn" in e.value.tags for e in apps)) or any(e.value.indef for e in apps))
        rt = r.ret
        chk.ob("R-ROT-SCAN", cc + "{result}", "returns (angles, values)", rt.items is not None and len(rt.items) == 2 and "linspace" in rt.items[0].tags,
               derived="items %s" % (None if rt.items is None else len(rt.items)), loc=fs.loc())


def _signal_loops(fi):
    """loops over the cluster's signals: `for i in range(len(self.signals))`, or over a local list made from self.signals
    (`signals = list(self.signals.values())`; `for i, sig in enumerate(signals)`)"""
    alias = {"self.signals"}
    for n in ast.walk(fi.node):
        if isinstance(n, ast.Assign) and len(n.targets) == 1 and isinstance(n.targets[0], ast.Name) and "self.signals" in ast.unparse(n.value):
            alias.add(n.targets[0].id)

    def over(it):
        t = ast.unparse(it)
        names = {x.id for x in ast.walk(it) if isinstance(x, ast.Name)}
        return ("self.signals" in t or bool(names & alias)) and ("range" in t or "enumerate" in t)
    return [n for n in ast.walk(fi.node) if isinstance(n, ast.For) and over(n.iter)]


def cluster_rules(chk):
    P = chk.P
    ci = P.cls(M + "Cluster")
    for mname in sorted(ci.methods):
        fi = ci.methods[mname]
        loops = _signal_loops(fi)
        if not loops:
            continue
        c = "eqsig/multiple.py:Cluster.%s" % mname
        chk.files.add(fi.module.relpath)
        for stype in ("acc",):
            for master_path in (False, True):
                I = Interp(P)
                I.atoms = {R, DT}
                st = State()
                o, oav = make_cluster(I, st, P, stype)
                I.events = []
                o.attrs["master_index"] = AV(kind=K_SCALAR, dtype="int", shape=(), sign=S_NONNEG, tags=frozenset(["attr:master_index"]),
                                             sym=LinExpr("master"))

                def oracle(fr, node, master_path=master_path):
                    if fr.fi is not fi or not isinstance(node.test, ast.Compare) or "master_index" not in ast.unparse(node.test):
                        return None
                    op = type(node.test.ops[0]).__name__
                    is_master = master_path
                    return {"NotEq": not is_master, "Eq": is_master}.get(op)
                I.branch_oracle = oracle
                bound = I.bind(fi, [oav], {}, None, None)
                if fi.kwarg:
                    bound[fi.kwarg] = AV(kind=K_DICT, dvals={}, dmust=frozenset(), dmay=None)
                I.run(fi, bound, st, self_obj=o)
                chk.absorb_interp(I)
                in_loop = lambda node: node is not None and any(node is x for lp in loops for x in ast.walk(lp))
                if not master_path:
                    sel = [e for e in I.events if e.kind == "call" and e.fn == fi.qualname and in_loop(e.node) and
                           e.callee.split(".")[-1] in ("signal_by_index", "values_by_index", "name_by_index")]
                    seen = set()
                    for e in sel:
                        idx = e.bound.get("index")
                        key = norm_stmt(e.node)
                        if key in seen:
                            continue
                        seen.add(key)
                        ok = idx is not None and ("loopvar" in idx.tags or "attr:master_index" in idx.tags)
                        chk.ob("R-LOOPVAR", c + "{%s}" % key, "the index is the loop variable (or master_index)", ok,
                               derived="index %s" % ("depends on the loop variable" if ok else
                                                     ("is the constant %r" % idx.const if (idx is not None and idx.has_const()) else "does not depend on the loop variable")),
                               loc=e.loc, stmt=e.stmt, detail="with three signals, or master 1, the wrong signal is adjusted" if not ok else None)
                    elem_loops = [lp for lp in loops if isinstance(lp.iter, ast.Call) and ast.unparse(lp.iter.func) == "enumerate" and
                                  isinstance(lp.target, ast.Tuple) and len(lp.target.elts) == 2]
                    if not sel and elem_loops:
                        chk.ob("R-LOOPVAR", c + "{enumerate}", "the signal treated in the body is the element of the enumeration itself", True,
                               derived="for %s in %s" % (ast.unparse(elem_loops[0].target), ast.unparse(elem_loops[0].iter)), loc=fi.loc(elem_loops[0]))
                    elif not sel:
                        chk.ob("R-LOOPVAR", c, "the loop selects a signal", False, derived="no signal_by_index call in the loop", loc=fi.loc(), inconclusive=True)
                else:
                    writes = [e for e in I.events if ((e.kind == "call" and e.callee.endswith(("reset_values", "butter_pass", "remove_poly", "add_constant")))
                                                       or (e.kind == "attr-write" and e.attr == "_values")) and e.fn == fi.qualname and in_loop(e.node)]
                    assumed = [e for e in I.events if e.kind == "assumed-branch"]
                    mutating = any(e.kind == "call" and e.callee.endswith("reset_values") for e in I.events) or mname in ("same_start", "time_match")
                    if mname in ("same_start", "time_match"):
                        chk.ob("R-MASTER", c + "{master untouched}", "with loop variable == master_index no signal is modified", bool(assumed) and not writes,
                               derived="%d guard(s) recognised, %d modification(s) on the master path" % (len(assumed), len(writes)),
                               loc=writes[0].loc if writes else fi.loc(), inconclusive=(not assumed and not writes))
    # each signal is treated independently: no variable carries a value from one iteration of a signal loop into the next
    from ..defuse import loop_carried
    for mname in sorted(ci.methods):
        fi = ci.methods[mname]
        loops = _signal_loops(fi)
        for lp in loops:
            car = loop_carried(lp)
            chk.ob("R-LOOPCARRY", "eqsig/multiple.py:Cluster.%s{signal loop}" % mname, "no state is carried between signals (every variable read in an "
                   "iteration is assigned in that iteration or before the loop)", not car, derived="carried: %s" % car if car else "none carried",
                   loc=fi.loc(lp), detail="a value found for one signal leaks into the treatment of the next" if car else None)
    # same_start arithmetic
    fi = ci.methods.get("same_start")
    if fi is not None:
        c = "eqsig/multiple.py:Cluster.same_start"
        # the function form get_section_average(sig, ...) (eqsig.fns.average, what the method delegates to) is read as the method form
        import copy as _copy
        view = _copy.deepcopy(fi.node)

        class _M(ast.NodeTransformer):
            def visit_Call(self, n):
                self.generic_visit(n)
                if isinstance(n.func, (ast.Name, ast.Attribute)) and ast.unparse(n.func).split(".")[-1] == "get_section_average" and n.args and \
                        not (isinstance(n.func, ast.Attribute) and not ast.unparse(n.func).startswith(("eqsig.", "average.", "fns."))):
                    r_ = P.resolve_expr(fi.module, n.func, {})
                    if r_ and r_[0] == "func" and r_[1].qualname == "eqsig.fns.average.get_section_average":
                        return ast.copy_location(ast.Call(func=ast.Attribute(value=n.args[0], attr="get_section_average", ctx=ast.Load()),
                                                          args=n.args[1:], keywords=n.keywords), n)
                return n
        view = ast.fix_missing_locations(_M().visit(view))
        fi_loc = fi.loc
        norm = straightline_env(view.body, Normaliser(), exclude={"slave_signal"})
        rv = [n for n in ast.walk(view) if isinstance(n, ast.Call) and isinstance(n.func, ast.Attribute) and n.func.attr == "reset_values"]
        gsa = [n for n in ast.walk(view) if isinstance(n, ast.Call) and isinstance(n.func, ast.Attribute) and n.func.attr == "get_section_average"]
        if len(rv) == 1 and len(gsa) == 2:
            p = norm.poly(rv[0].args[0])
            ats = sorted(p.atoms())
            mast = [a for a in ats if "master_index" in a]
            slave = [a for a in ats if "get_section_average" in a and "master_index" not in a]
            vals = [a for a in ats if a.endswith(".values")]
            ok = len(p.t) == 3 and len(mast) == 1 and len(slave) == 1 and len(vals) == 1 and \
                p.t.get(((vals[0], Fraction(1)),)) == 1 and p.t.get(((slave[0], Fraction(1)),)) == -1 and p.t.get(((mast[0], Fraction(1)),)) == 1
            chk.ob("R-MASTER", c + "{correction}", "new values = values - slave_average + master_average", ok, derived=p.canon(), loc=fi.loc(rv[0]),
                   stmt=norm_stmt(rv[0]))
            dicts = {n.targets[0].id: n.value for n in ast.walk(fi.node) if isinstance(n, ast.Assign) and len(n.targets) == 1 and
                     isinstance(n.targets[0], ast.Name) and isinstance(n.value, ast.Dict)}

            def kws(call):          # keyword arguments, with `**d` of a dictionary literal bound to a local expanded
                out = []
                for k in call.keywords:
                    if k.arg is None and isinstance(k.value, ast.Name) and k.value.id in dicts and \
                            all(isinstance(x, ast.Constant) for x in dicts[k.value.id].keys):
                        out.extend((x.value, ast.unparse(v)) for x, v in zip(dicts[k.value.id].keys, dicts[k.value.id].values))
                    else:
                        out.append((k.arg, ast.unparse(k.value)))
                return sorted(out, key=repr)
            k0, k1 = kws(gsa[0]), kws(gsa[1])
            # (one and the same mapping unpacked into both calls -- **window -- is the same window by construction)
            chk.ob("R-MASTER", c + "{window}", "both averages use the same (start, end) window",
                   k0 == k1 and ({"start", "end"} <= {k for k, _ in k0} or (len(k0) == 1 and k0[0][0] is None)),
                   derived="%s vs %s" % (k0, k1), loc=fi.loc(gsa[0]))
            chk.ob("R-MASTER", c + "{master source}", "the master average is taken from the signal at self.master_index", bool(mast) and
                   ("signal_by_index(self.master_index)" in mast[0] or "self.signals.values())[self.master_index]" in mast[0] or
                    "self.signals.items())[self.master_index][1]" in mast[0]), derived="%s" % mast, loc=fi.loc())
            same_sig = bool(slave) and bool(vals) and slave[0].split(".get_section_average")[0] == vals[0][:-len(".values")]
            chk.ob("R-MASTER", c + "{same signal}", "the average is measured on the signal that is corrected", same_sig, derived="%s / %s" % (slave, vals),
                   loc=fi.loc())
        else:
            chk.ob("R-MASTER", c, "one reset_values and two section averages", False, derived="%d / %d" % (len(rv), len(gsa)), loc=fi.loc(), inconclusive=True)
    # time_match: the values handed back keep their length and are derived from the slave
    fi = ci.methods.get("time_match")
    if fi is not None:
        I = Interp(P)
        I.atoms = {R, DT}
        st = State()
        o, oav = make_cluster(I, st, P, "acc")
        I.events = []
        bound = I.bind(fi, [oav], {}, None, None)
        bound[fi.kwarg] = AV(kind=K_DICT, dvals={}, dmust=frozenset(), dmay=frozenset())
        I.run(fi, bound, st, self_obj=o)
        chk.absorb_interp(I)
        rv = [e for e in I.events if e.kind == "call" and e.callee.endswith("reset_values") and e.fn == fi.qualname]
        c = "eqsig/multiple.py:Cluster.time_match"
        stores = [e for e in I.events if e.kind == "attr-write" and e.attr == "_values" and "time_match" in " ".join(e.stack)]
        for e in stores[:1]:
            chk.ob("R-KIND", c + "{values kind}", "the signal's values are an ndarray after lag removal", e.value.kind == K_ARRAY,
                   derived="kind %s" % e.value.kind, loc=e.loc)
        if not stores:
            chk.ob("R-KIND", c, "the lag removal stores new values", False, derived="no store reached", inconclusive=True, loc=fi.loc())
        lag_rules(chk, fi)


def _roots(e):
    """names an expression depends on, attribute chains on self kept whole"""
    out = set()

    def go(n):
        if isinstance(n, ast.Attribute):
            txt = ast.unparse(n)
            if txt.startswith("self."):
                out.add(txt)
                return
        if isinstance(n, ast.Name):
            out.add(n.id)
            return
        if isinstance(n, ast.Call):
            if not isinstance(n.func, (ast.Name, ast.Attribute)):
                go(n.func)
            elif isinstance(n.func, ast.Attribute) and not ast.unparse(n.func).startswith(("np.", "numpy.", "math.")):
                go(n.func.value)
            for a in n.args:
                go(a)
            for k in n.keywords:
                go(k.value)
            return
        for ch in ast.iter_child_nodes(n):
            go(ch)
    go(e)
    return out - {"abs", "len", "min", "max", "int", "float", "np", "numpy"}


def lag_rules(chk, fi):
    """Structure of the exhaustive lag search (syntax of one function; names are discovered, not assumed)."""
    c = "eqsig/multiple.py:Cluster.time_match"
    outer = [n for n in ast.walk(fi.node) if isinstance(n, ast.For) and "self.signals" in ast.unparse(n.iter) and "range" in ast.unparse(n.iter)]
    if len(outer) != 1:
        chk.ob("R-LAGSEARCH", c, "one loop over the signals", False, derived="%d loops" % len(outer), loc=fi.loc(), inconclusive=True)
        return
    lp = outer[0]
    loopvar = lp.target.id if isinstance(lp.target, ast.Name) else "?"
    inner = [n for n in ast.walk(lp) if isinstance(n, ast.For) and n is not lp and isinstance(n.iter, ast.Call) and
             ast.unparse(n.iter.func) == "range" and isinstance(n.target, ast.Name)]
    # the selected-lag variable(s): assigned inside a lag loop from the lag loop's variable alone
    lagvars = set()
    for il in inner:
        for n in ast.walk(il):
            if isinstance(n, ast.Assign) and len(n.targets) == 1 and isinstance(n.targets[0], ast.Name):
                names = {x.id for x in ast.walk(n.value) if isinstance(x, ast.Name)}
                if names and names <= {il.target.id}:
                    lagvars.add(n.targets[0].id)
    lag_detail_rules(chk, fi, lp, inner, lagvars)
    # (1) exits of the per-signal body
    exits = []

    def walk(stmts, chain, in_inner):
        for k, stn in enumerate(stmts):
            if isinstance(stn, (ast.Continue, ast.Break)) and not in_inner:
                exits.append((stn, list(chain), k == len(stmts) - 1))
            elif isinstance(stn, (ast.Return, ast.Raise)):
                exits.append((stn, list(chain), k == len(stmts) - 1))
            elif isinstance(stn, ast.If):
                walk(stn.body, chain + [(stn.test, True)], in_inner)
                walk(stn.orelse, chain + [(stn.test, False)], in_inner)
            elif isinstance(stn, (ast.For, ast.While)):
                walk(stn.body, chain + ([(stn.test, True)] if isinstance(stn, ast.While) else []), True)
                walk(stn.orelse, chain, in_inner)
            elif isinstance(stn, ast.Try):
                for blk in (stn.body, stn.orelse, stn.finalbody):
                    walk(blk, chain, in_inner)
                for h in stn.handlers:
                    walk(h.body, chain, in_inner)
            elif isinstance(stn, ast.With):
                walk(stn.body, chain, in_inner)
    walk(lp.body, [], False)
    for stn, chain, last in exits:
        bad = []
        for test, pol in chain:
            r = _roots(test)
            if r and (r <= {loopvar, "self.master_index"} and "self.master_index" in r):
                continue
            if r and r <= lagvars:
                continue
            bad.append(ast.unparse(test))
        ok = not bad and (bool(chain) or last)
        chk.ob("R-LAGSEARCH", c + "{exit: %s under %s}" % (type(stn).__name__.lower(), " & ".join(("" if pol else "not ") + ast.unparse(t) for t, pol in chain) or "no condition"),
               "the per-signal body is left early only on the master test or on a test of the selected lag alone", ok,
               derived="guarded by %s" % (bad if bad else "master / selected-lag tests only") if chain else "unconditional",
               loc=fi.loc(stn), stmt=norm_stmt(stn), inconclusive=(not ok and not lagvars),     # no lag loop located: cannot tell which name is the lag
               detail="a lagged signal whose residual meets this data-dependent condition is left unaligned" if not ok else None)
    if not exits:
        chk.ob("R-LAGSEARCH", c + "{exits}", "the master is skipped by an early exit or a guard", True, derived="no early exit in the body", loc=fi.loc(lp))
    # (1b) every candidate lag competes: a test `candidate < running minimum` that updates the selected lag must not sit on the else-side
    # of another such test (if / elif): the second candidate is then never looked at when the first one improves, although it may be the
    # smaller of the two
    for il in inner:
        cand = []
        for n in ast.walk(il):
            if isinstance(n, ast.If) and isinstance(n.test, ast.Compare) and len(n.test.ops) == 1 and isinstance(n.test.ops[0], (ast.Lt, ast.LtE)) and \
                    isinstance(n.test.comparators[0], ast.Name) and \
                    any(isinstance(x, ast.Assign) and isinstance(x.targets[0], ast.Name) and x.targets[0].id == n.test.comparators[0].id for x in n.body) and \
                    any(isinstance(x, ast.Assign) and isinstance(x.targets[0], ast.Name) and x.targets[0].id in lagvars for x in n.body):
                cand.append(n)
        for a in cand:
            for b in cand:
                if a is not b and any(b is x for st_ in a.orelse for x in ast.walk(st_)):
                    chk.ob("R-LAGSEARCH", c + "{candidates compete: %s}" % norm_stmt(b.test), "every candidate lag is compared with the running minimum "
                           "whatever the outcome of the other candidates at the same step", False,
                           derived="`%s` is only tested when `%s` fails" % (ast.unparse(b.test), ast.unparse(a.test)), loc=fi.loc(b), stmt=norm_stmt(b.test),
                           detail="a lag in this direction is missed when the other direction also improves at the same step")
    # (2) the two directions
    if len(inner) != 2:
        chk.ob("R-LAGSEARCH", c + "{lag loops}", "two loops over range(steps), one per direction", False, derived="%d range loops in the signal loop" % len(inner),
               loc=fi.loc(lp), inconclusive=True)
        return
    norm = Normaliser()
    infos = []
    # windows hoisted out of the lag loops (bm_head = bm[0:-steps], bound once) stand for their definition
    cnt = {}
    for n in ast.walk(fi.node):
        if isinstance(n, ast.Name) and isinstance(n.ctx, ast.Store):
            cnt[n.id] = cnt.get(n.id, 0) + 1
    hoisted = {}
    for n in ast.walk(fi.node):
        if isinstance(n, ast.Assign) and len(n.targets) == 1 and isinstance(n.targets[0], ast.Name) and cnt.get(n.targets[0].id) == 1 and \
                isinstance(n.value, ast.Subscript) and isinstance(n.value.value, ast.Name) and isinstance(n.value.slice, ast.Slice) and \
                not any(n is x for il in inner for x in ast.walk(il)):
            hoisted[n.targets[0].id] = n.value
    for il in inner:
        iv = il.target.id
        rng = [norm.poly(a).canon() for a in il.iter.args]
        wins = {}
        nodes = list(ast.walk(il)) + [hoisted[x.id] for x in ast.walk(il) if isinstance(x, ast.Name) and isinstance(x.ctx, ast.Load) and x.id in hoisted]
        for n in nodes:
            if isinstance(n, ast.Subscript) and isinstance(n.value, ast.Name) and isinstance(n.slice, ast.Slice) and isinstance(n.ctx, ast.Load):
                lo = norm.poly(n.slice.lower).canon() if n.slice.lower is not None else "0"
                hi = norm.poly(n.slice.upper).canon() if n.slice.upper is not None else "end"
                wins.setdefault(n.value.id, set()).add((lo, hi))
        lag = None
        cmpop = None
        for n in ast.walk(il):
            if isinstance(n, ast.Assign) and isinstance(n.targets[0], ast.Name) and n.targets[0].id in lagvars:
                lag = norm.poly(n.value).canon()
            if isinstance(n, ast.If) and isinstance(n.test, ast.Compare):
                cmpop = (type(n.test.ops[0]).__name__, ast.unparse(n.test.left), ast.unparse(n.test.comparators[0]))
        infos.append(dict(iv=iv, rng=rng, wins=wins, lag=lag, cmp=cmpop, node=il))
    steps = infos[0]["rng"][0] if len(infos[0]["rng"]) == 1 else None
    shape_ok = True
    roles = []
    for inf in infos:
        iv = inf["iv"]
        shifted = [a for a, w in inf["wins"].items() if w == {(norm.poly(ast.parse(iv, mode="eval").body).canon(),
                                                                 norm.poly(ast.parse("%s - (%s)" % (iv, steps or "0"), mode="eval").body).canon())}]
        fixed = [a for a, w in inf["wins"].items() if w == {("0", norm.poly(ast.parse("-(%s)" % (steps or "0"), mode="eval").body).canon())}]
        good = inf["rng"] == [steps] and len(inf["wins"]) == 2 and len(shifted) == 1 and len(fixed) == 1
        chk.ob("R-LAGSEARCH", c + "{lag loop over %s: windows}" % iv, "one window [i : i - steps] and one window [0 : -steps] on two arrays, i over range(steps)",
               good, derived="range%s windows %s" % (inf["rng"], {a: sorted(w) for a, w in sorted(inf["wins"].items())}), loc=fi.loc(inf["node"]))
        shape_ok = shape_ok and good
        roles.append((shifted[0] if shifted else None, fixed[0] if fixed else None))
    if shape_ok:
        chk.ob("R-LAGSEARCH", c + "{both directions}", "the two lag loops shift different arrays (slave lags master, master lags slave)",
               roles[0][0] == roles[1][1] and roles[0][1] == roles[1][0], derived="shifted/fixed: %s" % roles, loc=fi.loc(inner[0]))
        # which array is the slave: the one whose slices make up the values handed to reset_values
        pads = [n for n in ast.walk(lp) if isinstance(n, ast.Subscript) and isinstance(n.value, ast.Name) and isinstance(n.slice, ast.Slice)
                and not any(n in list(ast.walk(il)) for il in inner) and _roots(n.slice) & lagvars]
        slave = {n.value.id for n in pads}
        known_ = {x for rr in roles for x in rr if x is not None}
        if len(slave) == 1 and next(iter(slave)) not in known_:
            # the padding is done on an array that is neither of the two compared in the lag loops (a helper's own name for it): the slave is not located
            chk.ob("R-LAGSEARCH", c + "{slave}", "the padded array identifies the slave", False, derived="padded `%s`, compared %s" %
                   (next(iter(slave)), sorted(known_)), loc=fi.loc(lp), inconclusive=True)
        elif len(slave) == 1:
            sl = next(iter(slave))
            for inf, (sh, fx) in zip(infos, roles):
                want = norm.poly(ast.parse(inf["iv"] if sh == sl else "-" + inf["iv"], mode="eval").body).canon()
                chk.ob("R-LAGSEARCH", c + "{lag loop over %s: sign}" % inf["iv"], "selected lag is +i where the slave window is shifted, -i where the master window is",
                       inf["lag"] == want, derived="lag = %s, shifted array %s, slave %s" % (inf["lag"], sh, sl), loc=fi.loc(inf["node"]))
        else:
            chk.ob("R-LAGSEARCH", c + "{slave}", "the padded array identifies the slave", False, derived="%s" % sorted(slave), loc=fi.loc(lp), inconclusive=True)
        chk.ob("R-LAGSEARCH", c + "{selection}", "both loops keep the smaller residual with the same comparison", infos[0]["cmp"] == infos[1]["cmp"] and
               infos[0]["cmp"] is not None and infos[0]["cmp"][0] in ("Lt", "LtE", "Gt", "GtE"), derived="%s / %s" % (infos[0]["cmp"], infos[1]["cmp"]),
               loc=fi.loc(inner[0]))


def section_rules(chk):
    """time_indices / get_section_average, decided on the interpretation: symbolic start, end, dt; the option and the sentinel as literals"""
    P = chk.P
    q = "eqsig.fns.time_shift.time_indices"
    c = "eqsig/fns/time_shift.py:time_indices"

    def sc(name, dtype="real"):
        return AV(kind=K_SCALAR, dtype=dtype, shape=(), sign=S_NONNEG, sym=LinExpr(name), origin=frozenset(["lit"]), tags=frozenset(["p:" + name]),
                  note="pyscalar" if dtype == "real" else "integral")

    def run_(index, end=None, oracle=None):
        def setup(I):
            if oracle is not None:
                I.branch_oracle = oracle
        return analyse(chk, q, lambda I, st, fi: dict(npts=sc("n", "int"), dt=pos_scalar("dt", DT).replace(sym=LinExpr("dt")), start=sc("s"),
                                                      end=sc("e") if end is None else const_av(end), index=const_av(index)), setup=setup)
    def not_sentinel(fr, node):
        """branch oracle: nothing raises, and a generic end time is not the sentinel -1"""
        if any(isinstance(x, ast.Raise) for x in node.body):
            return False
        t = node.test
        if isinstance(t, ast.Compare) and len(t.ops) == 1 and any(ast.unparse(x).replace(" ", "") == "-1" for x in [t.left] + t.comparators) and \
                isinstance(t.ops[0], (ast.Eq, ast.NotEq)):
            return isinstance(t.ops[0], ast.NotEq)
        return None
    # times -> indices
    r = run_(False, oracle=not_sentinel)
    unmodelled_in(r, chk, "R-SECTION", c + "(index=False)")
    its = r.ret.items if r.ret.kind == K_TUPLE and r.ret.items is not None and len(r.ret.items) == 2 else None
    want_s = repr(opaque_sym("int", opaque_sym("div", LinExpr("s"), LinExpr("dt"))))
    want_e = repr(opaque_sym("int", opaque_sym("div", LinExpr("e"), LinExpr("dt"))) + 1)
    chk.ob("R-SECTION", c + "(index=False){start}", "start index = int(start / dt)", its is not None and its[0].sym is not None and repr(its[0].sym) == want_s,
           derived="%r" % (its[0].sym if its else None,), loc=r.fi.loc())
    chk.ob("R-SECTION", c + "(index=False){end}", "end index = int(end / dt) + 1 (the sample at `end` belongs to the section)",
           its is not None and its[1].sym is not None and repr(its[1].sym) == want_e, derived="%r" % (its[1].sym if its else None,), loc=r.fi.loc())
    # the sentinel end = -1 is not converted
    r = run_(False, end=-1, oracle=lambda fr, node: False if any(isinstance(x, ast.Raise) for x in node.body) else None)
    its = r.ret.items if r.ret.kind == K_TUPLE and r.ret.items is not None and len(r.ret.items) == 2 else None
    chk.ob("R-SECTION", c + "(index=False, end=-1)", "end = -1 (to the end) is passed through", its is not None and its[1].has_const() and its[1].const == -1,
           derived="%r" % ((its[1].const if its[1].has_const() else its[1].sym) if its else None,), loc=r.fi.loc())
    # an ordinary end time is converted (a test against another sentinel value would send it to the raw branch)
    r = run_(False, end=0, oracle=lambda fr, node: False if any(isinstance(x, ast.Raise) for x in node.body) else None)
    its = r.ret.items if r.ret.kind == K_TUPLE and r.ret.items is not None and len(r.ret.items) == 2 else None
    chk.ob("R-SECTION", c + "(index=False, end=0)", "end = 0 is a time like any other: end index int(0 / dt) + 1", its is not None and (
           (its[1].has_const() and its[1].const == 1) or (its[1].sym is not None and repr(its[1].sym) == "int[div[0,dt]]+1")),
           derived="%r" % ((its[1].const if its[1].has_const() else its[1].sym) if its else None,), loc=r.fi.loc())
    # indices are taken as given
    r = run_(True, oracle=lambda fr, node: False if any(isinstance(x, ast.Raise) for x in node.body) else None)
    its = r.ret.items if r.ret.kind == K_TUPLE and r.ret.items is not None and len(r.ret.items) == 2 else None
    chk.ob("R-SECTION", c + "(index=True)", "indices are returned unchanged", its is not None and its[0].sym == LinExpr("s") and its[1].sym == LinExpr("e"),
           derived="%r" % ([i.sym for i in its] if its else None,), loc=r.fi.loc())
    # the length guard
    r = run_(True)
    cm = [e for e in r.events("compare", q) if ("p:n" in e.left.tags) != ("p:n" in e.right.tags)]
    cm = list({id(e.node): e for e in cm}.values())
    ok = len(cm) == 1 and ((cm[0].op == "Gt" and "p:e" in cm[0].left.tags) or (cm[0].op == "Lt" and "p:e" in cm[0].right.tags))
    chk.ob("R-SECTION", c + "{guard}", "only a section that ends past the record is rejected: end index > npts (a section reaching the last sample is fine)", ok,
           derived="%s" % [(e.op, sorted(t for t in e.left.tags if t.startswith("p:")), sorted(t for t in e.right.tags if t.startswith("p:"))) for e in cm],
           loc=cm[0].loc if cm else r.fi.loc(), stmt=cm[0].stmt if cm else None)
    # the average is the mean of values[s:e]
    q2 = "eqsig.fns.average.get_section_average"
    c2 = "eqsig/fns/average.py:get_section_average"

    def stub(I, fr, bound, node):
        return AV(kind=K_TUPLE, items=(sc("S", "int"), sc("E", "int")))
    r = analyse(chk, q2, lambda I, st, fi: dict(series=make_signal(I, st, P.cls(ACC), name="series")[1], start=sc("s"), end=sc("e")),
                setup=lambda I: I.overrides.__setitem__(q, stub))
    unmodelled_in(r, chk, "R-SECTION", c2)
    sl = [e for e in r.events("subscript", q2) if e.index.kind == K_SLICE and e.index.items is not None and "attr:_values" in e.base.tags]
    ok = len(sl) == 1 and sl[0].index.items[0] is not None and sl[0].index.items[1] is not None and sl[0].index.items[2] is None and \
        sl[0].index.items[0].sym == LinExpr("S") and sl[0].index.items[1].sym == LinExpr("E")
    chk.ob("R-SECTION", c2 + "{slice}", "the section is values[start index : end index] exactly", ok,
           derived="%s" % [tuple(repr(x.sym) if x is not None else None for x in e.index.items) for e in sl], loc=sl[0].loc if sl else r.fi.loc(),
           inconclusive=not sl)        # the section taken some other way (a slice object ...): not located
    expect(chk, "R-SECTION", c2 + ".result", r.ret, kind=K_SCALAR, lin=[R], tags_has=["red:mean", "attr:_values"], loc=r.fi.loc())
    ca = [e for e in r.events("call", q2) if e.callee == q]
    if ca:
        b = ca[0].bound
        okb = all(("p:" + k) in b[p_].tags for p_, k in (("start", "s"), ("end", "e"))) and "attr:_npts" in b["npts"].tags and "attr:_dt" in b["dt"].tags
        chk.ob("R-SECTION", c2 + "{arguments}", "time_indices receives (npts, dt, start, end, index) in that order", okb,
               derived="%s" % {k: sorted(t for t in v.tags if t.startswith(("p:", "attr:"))) for k, v in b.items()}, loc=ca[0].loc)


def lag_detail_rules(chk, fi, lp, inner, lagvars):
    """The arithmetic of the lag search, each part checked where it can be located (names are discovered): the misfit is a sum of SQUARED
    DIFFERENCES everywhere (reference and both directions), the search starts from lag 0, and a negative / positive lag is removed by
    padding the slave at the start / end and dropping as many samples at the other end; lag 0 leaves the slave alone."""
    c = "eqsig/multiple.py:Cluster.time_match"
    in_inner = lambda n: any(n is x for il in inner for x in ast.walk(il))
    # (a) misfit terms: every assignment to a name that is summed
    summed = set()
    for n in ast.walk(lp):
        if isinstance(n, ast.Call) and ast.unparse(n.func) in ("sum", "np.sum", "numpy.sum") and n.args and isinstance(n.args[0], ast.Name):
            summed.add(n.args[0].id)
    for n in ast.walk(lp):
        if isinstance(n, ast.Assign) and len(n.targets) == 1 and isinstance(n.targets[0], ast.Name) and n.targets[0].id in summed:
            v = n.value
            ok = isinstance(v, ast.BinOp) and isinstance(v.op, ast.Pow) and isinstance(v.right, ast.Constant) and v.right.value == 2 and \
                isinstance(v.left, ast.BinOp) and isinstance(v.left.op, ast.Sub) and isinstance(v.left.left, ast.Subscript) and \
                isinstance(v.left.right, ast.Subscript) and ast.unparse(v.left.left.value) != ast.unparse(v.left.right.value)
            chk.ob("R-LAGSEARCH", c + "{misfit: %s}" % norm_stmt(n), "the misfit is the sum of squared differences of one window of each record", ok,
                   derived=" ".join(ast.unparse(v).split()), loc=fi.loc(n), stmt=norm_stmt(n))
    # (a') the two records enter the search cut to ONE common length (the longer one truncated to the shorter): the names differenced in the
    # misfit are each bound to `<record>.values[:L]` with the same L
    pair = None
    for n in ast.walk(lp):
        if isinstance(n, ast.Assign) and len(n.targets) == 1 and isinstance(n.targets[0], ast.Name) and n.targets[0].id in summed and pair is None:
            v = n.value
            if isinstance(v, ast.BinOp) and isinstance(v.left, ast.BinOp) and isinstance(v.left.left, ast.Subscript) and isinstance(v.left.right, ast.Subscript) and \
                    isinstance(v.left.left.value, ast.Name) and isinstance(v.left.right.value, ast.Name):
                pair = (v.left.left.value.id, v.left.right.value.id)
    if pair is not None:
        cuts_ = {}
        for n in ast.walk(fi.node):
            if isinstance(n, ast.Assign) and len(n.targets) == 1 and isinstance(n.targets[0], ast.Name) and n.targets[0].id in pair and \
                    isinstance(n.value, ast.Subscript) and isinstance(n.value.slice, ast.Slice) and n.value.slice.lower is None and n.value.slice.step is None and \
                    n.value.slice.upper is not None:
                cuts_.setdefault(n.targets[0].id, []).append(n)
        if all(len(cuts_.get(k, [])) == 1 for k in pair) and pair[0] != pair[1]:
            u0, u1 = [" ".join(ast.unparse(cuts_[k][0].value.slice.upper).split()) for k in pair]
            chk.ob("R-LAGSEARCH", c + "{common length}", "both records are cut to the same length before they are compared", u0 == u1,
                   derived="%s[:%s] and %s[:%s]" % (pair[0], u0, pair[1], u1), loc=fi.loc(cuts_[pair[0]][0]), stmt=norm_stmt(cuts_[pair[0]][0]))
    # (b) the search starts from lag 0
    inits = [n for n in ast.walk(lp) if isinstance(n, ast.Assign) and len(n.targets) == 1 and isinstance(n.targets[0], ast.Name) and
             n.targets[0].id in lagvars and isinstance(n.value, ast.Constant) and not in_inner(n)]
    for n in inits:
        chk.ob("R-LAGSEARCH", c + "{initial lag}", "the selected lag starts at 0 (no shift unless a candidate is strictly better)", n.value.value == 0,
               derived="%s = %r" % (n.targets[0].id, n.value.value), loc=fi.loc(n), stmt=norm_stmt(n))
    # (c) removal of the lag
    chains = [n for n in ast.walk(lp) if isinstance(n, ast.If) and not in_inner(n) and isinstance(n.test, ast.Compare) and len(n.test.ops) == 1 and
              isinstance(n.test.left, ast.Name) and n.test.left.id in lagvars and isinstance(n.test.comparators[0], ast.Constant) and
              any(isinstance(x, ast.Assign) for x in n.body)]
    inner_ifs = {id(x) for n in chains for o in n.orelse for x in ast.walk(o)}
    # names bound once in the function stand for their expression (n_pad = abs(lag))
    once = {}
    for n in ast.walk(fi.node):
        if isinstance(n, ast.Assign) and len(n.targets) == 1 and isinstance(n.targets[0], ast.Name):
            once.setdefault(n.targets[0].id, []).append(n.value)

    class _Sub(ast.NodeTransformer):
        def visit_Name(self, n):
            if isinstance(n.ctx, ast.Load) and n.id not in lagvars and len(once.get(n.id, [])) == 1 and \
                    isinstance(once[n.id][0], (ast.Call, ast.UnaryOp)) and {x.id for x in ast.walk(once[n.id][0]) if isinstance(x, ast.Name)} & lagvars:
                return copy.deepcopy(once[n.id][0])
            return n

    def holds(op, k, val):
        return {"Lt": val < k, "Gt": val > k, "LtE": val <= k, "GtE": val >= k, "Eq": val == k, "NotEq": val != k}.get(op)
    for top in [n for n in chains if id(n) not in inner_ifs]:
        L = top.test.left.id
        rows = []
        node = top
        while True:
            rows.append((type(node.test.ops[0]).__name__, node.test.comparators[0].value, node.body))
            if len(node.orelse) == 1 and isinstance(node.orelse[0], ast.If) and node.orelse[0] in chains:
                node = node.orelse[0]
            else:
                rows.append(("else", None, node.orelse))
                break
        # a guard before the chain may already have sent lag 0 away (`if lag == 0: continue`)
        zero_out = any(isinstance(n, ast.If) and not in_inner(n) and isinstance(n.test, ast.Compare) and len(n.test.ops) == 1 and
                       isinstance(n.test.left, ast.Name) and n.test.left.id == L and isinstance(n.test.comparators[0], ast.Constant) and
                       n.test.comparators[0].value == 0 and isinstance(n.test.ops[0], ast.Eq) and
                       any(isinstance(x, (ast.Continue, ast.Return)) for x in n.body) for n in ast.walk(lp))
        taken = {}
        for sgn, val in (("negative", -1), ("zero", 0), ("positive", 1)):
            for op, k, body in rows:
                if op == "else" or holds(op, k, val):
                    taken[sgn] = (op, k, body)
                    break
        shifts = lambda body: any(isinstance(x, ast.Assign) for x in body)
        okb = taken.get("negative") and taken.get("positive") and shifts(taken["negative"][2]) and shifts(taken["positive"][2]) and \
            taken["negative"][2] is not taken["positive"][2] and (zero_out or not shifts(taken.get("zero", (0, 0, []))[2]))
        chk.ob("R-LAGSEARCH", c + "{removal: branches}", "a negative lag and a positive lag are each removed by their own branch, lag 0 is left alone",
               bool(okb), derived="%s%s" % ([(op, k) for op, k, _ in rows], "; lag 0 leaves earlier" if zero_out else ""), loc=fi.loc(top),
               stmt=norm_stmt(top.test))
        rows = [(("Lt" if sgn == "negative" else "Gt"), 0, taken[sgn][2]) for sgn in ("negative", "positive") if sgn in taken and shifts(taken[sgn][2])
                and (sgn == "negative" or taken[sgn][2] is not taken.get("negative", (0, 0, None))[2])]
        for op, k, body in rows:
            asg = [x for x in body if isinstance(x, ast.Assign) and len(x.targets) == 1]
            if op not in ("Lt", "Gt") or len(asg) != 1:
                continue
            v = ast.fix_missing_locations(_Sub().visit(copy.deepcopy(asg[0].value)))
            subs = [x for x in ast.walk(v) if isinstance(x, ast.Subscript) and isinstance(x.value, ast.Name)]
            if not subs:
                continue
            S = subs[0].value.id
            if op == "Lt":
                forms = ["[{S}[0]] * abs({L}) + list({S}[:{L}])", "[{S}[0]] * -{L} + list({S}[:{L}])"]
                what = "negative lag: |lag| copies of the first sample in front, the last |lag| samples dropped"
            else:
                forms = ["list({S}[{L}:]) + [{S}[-1]] * abs({L})", "list({S}[{L}:]) + [{S}[-1]] * {L}"]
                what = "positive lag: the first lag samples dropped, lag copies of the last sample appended"
            want = {ast.dump(ast.parse(f.format(S=S, L=L), mode="eval").body) for f in forms}
            listy = isinstance(v, ast.BinOp) and any(isinstance(x, ast.Call) and ast.unparse(x.func) == "list" for x in ast.walk(v))
            chk.ob("R-LAGSEARCH", c + "{removal: %s 0}" % ("lag <" if op == "Lt" else "lag >"), what, ast.dump(v) in want,
                   derived=" ".join(ast.unparse(v).split()), loc=fi.loc(asg[0]), stmt=norm_stmt(asg[0]), inconclusive=not listy)

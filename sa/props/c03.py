"""C03 -- response spectra are peak responses with consistent pseudo-spectral relations (structural clauses)."""
import ast
from fractions import Fraction

from ..tyob import *  # noqa
from ..tyob import sibling_defaults, analyse, expect, item, unmodelled_in
from ..poly import Normaliser, straightline_env, Poly
from ..program import norm_stmt
from .c02 import periods_av, xi_av, std_args, NJR, T

PSEUDO = "eqsig.sdof.pseudo_response_spectra"
TRUE = "eqsig.sdof.true_response_spectra"
ACC = "eqsig.single.AccSignal"
INTERP = "eqsig.fns.time_step.interp_array_to_approx_dt"


def ret_tags(av, fn):
    return sorted(t for t in (av.tags if av is not None else ()) if t.startswith("ret:%s#" % fn))


def src_ob(chk, construct, av, fn, want, loc=None):
    got = ret_tags(av, fn)
    wanted = "ret:%s#%d" % (fn, want)
    # the provenance tags over-approximate (a result selected from the returned tuple by a computed position carries all of them; a call the
    # engine did not follow carries none): only a definite other source -- the wanted result is not among the sources -- refutes
    chk.ob("R-SRC", construct, "derives from result #%s of %s only" % (want, fn), got == [wanted],
           derived="from %s" % (got or "none of its results"), loc=loc, inconclusive=(not got) or (wanted in got and len(got) > 1))


def run(chk):
    P = chk.P
    chk.rule("R-SRC", "def-use: pseudo S_d/S_v/S_a derive from the 1st response series; true (S_d,S_v,S_a) from the (1st,2nd,3rd); "
                      "every unpacking site binds position k to role k; ASI integrates S_a, VSI integrates S_v")
    chk.rule("R-PSEUDO", "relative to S_d, pseudo S_v has degree 1 and pseudo S_a degree 2 in w = 2*pi/T (degree -1/-2 in the periods)")
    chk.rule("R-CUT", "the PGA substitution mask is periods < 6*dt (strict, constant 6) and substitutes the absolute maximum of "
                      "the record; pseudo and true functions carry the same mask")
    chk.rule("R-COERCE", "period containers (list/tuple/array) are coerced before arithmetic or comparison: no TypeError site")
    chk.rule("R-PAIR", "gen_response_spectrum passes (interpolated values, interpolated dt) or (values, dt), never mixed; "
                       "interpolates exactly when target_dt < dt; target_dt = max(T_min/20, dt/min_dt_ratio); results stored in role order")
    chk.rule("R-STEP", "the interpolation routine used for the spectra returns a step that never exceeds the target (C14's rounding-relation rule)")
    chk.rule("R-NONNEG", "all six spectra are non-negative with one entry per period")
    chk.rule("R-ENERGY", "energy spectra: degree 2 in the record, one entry per period, built from the velocity response; "
                         "input energy sums a*v*dt along time")
    tagset = {NJR, PSEUDO, INTERP}

    def setup(I):
        I.tag_returns = set(tagset)
    # ------------------------------------------------------------------ R-SRC / R-NONNEG
    for q, want in ((PSEUDO, (0, 0, 0)), (TRUE, (0, 1, 2))):
        r = analyse(chk, q, std_args(), atoms=(R, DT, T), setup=setup)
        c = "%s:%s" % (r.fi.module.relpath, r.fi.name)
        unmodelled_in(r, chk, "R-SRC", c)
        expect(chk, "R-SRC", c, r.ret, items=3, loc=r.fi.loc())
        for i, nm in enumerate(("S_d", "S_v", "S_a")):
            x = item(r.ret, i)
            src_ob(chk, "%s.%s" % (c, nm), x, "nigam_and_jennings_response", want[i], loc=r.fi.loc())
            expect(chk, "R-NONNEG", "%s.%s" % (c, nm), x, sign="nonneg", shape=("P",), tags_has=["absmax"], loc=r.fi.loc())
    # object level: stored in role order
    r = analyse(chk, ACC + ".gen_response_spectrum", None, self_cls=ACC, atoms=(R, DT, T), setup=setup)
    o = r.st.heap[r.self_obj.id]
    for i, nm in enumerate(("_s_d", "_s_v", "_s_a")):
        src_ob(chk, "eqsig/single.py:AccSignal.gen_response_spectrum.%s" % nm, o.attrs.get(nm), "pseudo_response_spectra", i, loc=r.fi.loc())
    for prop, i in (("s_d", 0), ("s_v", 1), ("s_a", 2)):
        v, I, m = _read(chk, prop, setup)
        src_ob(chk, "eqsig/single.py:AccSignal.%s" % prop, v, "pseudo_response_spectra", i, loc=m.loc())
    for q, i in (("eqsig.im.calc_asi", 2), ("eqsig.im.calc_vsi", 1)):
        r = analyse(chk, q, lambda I, st, fi: dict(asig=make_signal(I, st, P.cls(ACC), name="asig")[1]), atoms=(R, DT, T), setup=setup)
        src_ob(chk, "eqsig/im.py:%s" % r.fi.name, r.ret, "pseudo_response_spectra", i, loc=r.fi.loc())
        expect(chk, "R-SRC", "eqsig/im.py:%s" % r.fi.name, r.ret, deg={R: 1}, parity={R: "even"}, loc=r.fi.loc())
    # ------------------------------------------------------------------ R-PSEUDO (relative degree run)
    def stub(I, fr, bound, node):
        n = bound["acc"].shape[0] if bound["acc"].shape else None
        mk = lambda k: AV(kind=K_ARRAY, dtype="real", shape=(LinExpr("P"), n), alg={R: LIN}, origin=frozenset(["a@stub%d" % k]),
                          tags=frozenset(["ret:nigam_and_jennings_response#%d" % k]))
        return AV(kind=K_TUPLE, items=(mk(0), mk(1), mk(2)))

    def setup2(I):
        I.overrides[NJR] = stub
    r = analyse(chk, PSEUDO, std_args(positive=True), atoms=(R, DT, T), setup=setup2)
    c = "eqsig/sdof.py:pseudo_response_spectra"
    # the PGA substitution np.where(periods < 6 dt, PGA, S_a), wherever it is executed (the entry itself, a helper, a method of a
    # carrier object): recognised by its condition deriving from the periods
    pre = [e for e in r.events("lib-call") if e.name == "numpy.where" and len(e.args) == 3 and _is_cut(e.args[0])]
    sv = item(r.ret, 1)
    expect(chk, "R-PSEUDO", c + ".S_v", sv, deg={T: -1, R: 1}, loc=r.fi.loc(), atoms=(R, T))
    if len(pre) == 1:
        expect(chk, "R-PSEUDO", c + ".S_a(before PGA substitution)", pre[0].args[2], deg={T: -2, R: 1}, loc=pre[0].loc, atoms=(R, T))
    else:
        # the substitution made in place (np.copyto(S_a, PGA, where=...), np.putmask, a masked store): the value before it is not a separate
        # operand any more and the returned S_a is legitimately not homogeneous in T -- not located
        inplace_ = [e for e in r.events("lib-call") if e.name in ("numpy.copyto", "numpy.putmask", "numpy.place")] + \
                   [e for e in r.events("mutation") if e.how == "subscript-store" and e.index is not None and e.index.kind == K_ARRAY and e.index.dtype == "bool"]
        if inplace_:
            chk.ob("R-PSEUDO", c + ".S_a", "pseudo S_a before the PGA substitution has degree -2 in T", False,
                   derived="the substitution is made in place (%s)" % (getattr(inplace_[0], "name", None) or "masked store"), loc=inplace_[0].loc, inconclusive=True)
        else:
            expect(chk, "R-PSEUDO", c + ".S_a", item(r.ret, 2), deg={T: -2, R: 1}, loc=r.fi.loc(), atoms=(R, T))
    expect(chk, "R-PSEUDO", c + ".S_d", item(r.ret, 0), deg={T: 0, R: 1}, loc=r.fi.loc(), atoms=(R, T))
    w_branch_rule(chk, P.fn(PSEUDO))
    # ------------------------------------------------------------------ R-CUT
    masks = {}
    for q in (PSEUDO, TRUE):
        r = analyse(chk, q, std_args(), atoms=(R, DT, T))
        c = "%s:%s" % (r.fi.module.relpath, r.fi.name)
        cmps = [e for e in r.events("compare") if ("p:periods" in e.left.tags) != ("p:periods" in e.right.tags)
                and ("p:dt" in (e.left.tags | e.right.tags))]
        if len(cmps) != 1:
            chk.ob("R-CUT", c, "one periods-against-dt comparison", False, derived="%d found" % len(cmps), loc=r.fi.loc(),
                   inconclusive=len(cmps) == 0)
            continue
        e = cmps[0]
        strict, coef, why = threshold_form(chk.P.functions.get(e.fn, r.fi), e.node, small="periods", big="dt")
        masks[q] = (strict, coef)
        chk.ob("R-CUT", c + "{mask}", "periods < 6 * dt (strict)", strict is True and coef == 6,
               derived=why, loc=e.loc, stmt=e.stmt)
        wh = [x for x in r.events("lib-call") if x.name == "numpy.where" and len(x.args) == 3 and _is_cut(x.args[0])]
        if len(wh) != 1:
            chk.ob("R-CUT", c + "{substitution}", "one np.where substitution", False, derived="%d found" % len(wh), loc=r.fi.loc(),
                   inconclusive=True)
            continue
        sub, orig = wh[0].args[1], wh[0].args[2]
        expect(chk, "R-CUT", c + "{substitute}", sub, deg={R: 1}, parity={R: "even"}, sign="nonneg",
               tags_has=["absmax", "p:motion"], tags_not=["p:periods"], loc=wh[0].loc)
        chk.ob("R-CUT", c + "{substituted-into}", "the substitution replaces the spectral acceleration (3rd result)",
               r.ret.items is not None and wh[0].args[2].tags <= r.ret.items[2].tags and "absmax" in r.ret.items[2].tags
               and "p:motion" in r.ret.items[2].tags and "p:motion" in orig.tags,
               derived="result tags %s" % sorted(t for t in r.ret.items[2].tags if t.startswith("p:")), loc=wh[0].loc,
               inconclusive=(r.ret.items is None or r.ret.items[2].indef or orig.indef or orig.kind == K_TOP))
        site = "a@%s:%s:%s" % (wh[0].fn, wh[0].node.lineno, wh[0].node.col_offset)      # the allocation site of the np.where, in whichever function it runs
        for k, nm in ((0, "S_d"), (1, "S_v")):
            chk.ob("R-CUT", c + "{not-substituted}.%s" % nm, "%s is not the result of the substitution" % nm,
                   site not in r.ret.items[k].origin, derived="origin %s" % sorted(r.ret.items[k].origin), loc=wh[0].loc)
        chk.ob("R-CUT", c + "{substituted}.S_a", "S_a is the result of the substitution", site in r.ret.items[2].origin,
               derived="origin %s" % sorted(r.ret.items[2].origin), loc=wh[0].loc)
    if len(masks) == 2:
        chk.ob("R-CUT", "eqsig/sdof.py:pseudo_response_spectra~true_response_spectra", "sibling masks are identical",
               masks[PSEUDO] == masks[TRUE], derived="%s vs %s" % (masks[PSEUDO], masks[TRUE]))
    # ------------------------------------------------------------------ R-COERCE
    for q in (PSEUDO, TRUE, NJR, "eqsig.sdof.response_series"):
        for kind in (K_LIST, K_TUPLE):
            def build(I, st, fi, kind=kind):
                d = std_args()(I, st, fi)
                el = AV(kind=K_SCALAR, dtype="real", shape=(), sign=S_NONNEG, origin=frozenset(["lit"]), tags=frozenset(["p:periods"]))
                d[fi.params[2]] = AV(kind=kind, elem=el, origin=frozenset(["p:periods"]), tags=frozenset(["p:periods"]),
                                     shape=(LinExpr("P"),))
                return d
            r = analyse(chk, q, build, atoms=(R, DT, T))
            te = [e for e in r.I.events if e.kind == "type-error"]
            c = "%s:%s(periods: %s)" % (r.fi.module.relpath, r.fi.name, kind)
            chk.ob("R-COERCE", c, "no operation raises TypeError for a %s of periods" % kind, not te,
                   derived="; ".join("%s: %s" % (e.loc, e.what) for e in te) or "periods coerced before use",
                   loc=te[0].loc if te else r.fi.loc(), stmt=te[0].stmt if te else None,
                   detail="periods=[0.2, 0.5] raises TypeError (the pseudo sibling accepts it)" if te else None)
    for q in (PSEUDO, TRUE, NJR):
        for kind in ("int-array", "int-list"):
            def build_p(I, st, fi, kind=kind):
                d = std_args()(I, st, fi)
                el = AV(kind=K_SCALAR, dtype="int", shape=(), sign=S_NONNEG, origin=frozenset(["lit"]), tags=frozenset(["p:periods"]))
                if kind == "int-list":
                    d[fi.params[2]] = AV(kind=K_LIST, elem=el, origin=frozenset(["p:periods"]), tags=frozenset(["p:periods"]), shape=(LinExpr("P"),))
                else:
                    d[fi.params[2]] = AV(kind=K_ARRAY, dtype="int", shape=(LinExpr("P"),), sign=S_NONNEG, origin=frozenset(["p:periods"]),
                                         tags=frozenset(["p:periods"]))
                return d
            from ..tyob import no_truncation
            no_truncation(chk, "R-COERCE", q, build_p, "%s:%s(periods: %s)" % (P.fn(q).module.relpath, P.fn(q).name, kind), atoms=(R, DT, T),
                          what="integer-typed periods")
    # ------------------------------------------------------------------ R-PAIR
    pair_rule(chk, setup)
    # the interpolation routine used by gen_response_spectrum must itself honour the step rule (never coarser than the target)
    from . import c14
    from ..report import Check as _Check
    sub = _Check(chk.pid, chk.tier, chk.P)
    c14.run(sub)
    for o in sub.obs:
        if o.rule == "R-ROUND" and "interp_array_to_approx_dt" in o.construct:
            o.rule = "R-STEP"
            chk.obs.append(o)
    chk.functions |= sub.functions
    # ------------------------------------------------------------------ R-ENERGY
    for q, series in (("eqsig.sdof.calc_resp_uke_spectrum", None), ("eqsig.sdof.calc_input_energy_spectrum", False),
                      ("eqsig.sdof.calc_input_energy_spectrum", True)):
        def build(I, st, fi, series=series):
            d = dict(acc_signal=make_signal(I, st, P.cls(ACC), name="acc_signal")[1])
            if series is not None:
                d["series"] = const_av(series)
            return d
        r = analyse(chk, q, build, atoms=(R, DT, T), setup=setup)
        c = "%s:%s%s" % (r.fi.module.relpath, r.fi.name, "" if series is None else "(series=%s)" % series)
        unmodelled_in(r, chk, "R-ENERGY", c)
        src_ob(chk, c, r.ret, "nigam_and_jennings_response", 1, loc=r.fi.loc())
        chk.obs[-1].rule = "R-ENERGY"
        shape = ("P", "n") if series else ("P",)
        expect(chk, "R-ENERGY", c, r.ret, deg={R: 2}, parity={R: "even"}, shape=shape, loc=r.fi.loc())
        if q.endswith("uke_spectrum"):
            expect(chk, "R-ENERGY", c, r.ret, sign="nonneg", tags_has=["diff", "abs"], loc=r.fi.loc())
        else:
            expect(chk, "R-ENERGY", c, r.ret, tags_has=["attr:_values", "attr:_dt"], loc=r.fi.loc())
            # relative to the response series: one explicit factor dt (sum of a * v * dt)
            r2 = analyse(chk, q, build, atoms=(R, DT, T), setup=setup2)
            expect(chk, "R-ENERGY", c + "[relative to the response]", r2.ret, deg={DT: 1, R: 2}, loc=r.fi.loc())
    # the unit-mass kinetic energy is 0.5 * v^2 (normal form, the local `mass = 1` folded in); the series variant accumulates over time
    # (axis 1), like the sum it ends at; the plain spectrum is what a call without `series` returns
    fu = P.fn("eqsig.sdof.calc_resp_uke_spectrum")
    ke = [n for n in ast.walk(fu.node) if isinstance(n, ast.Assign) and len(n.targets) == 1 and isinstance(n.value, ast.BinOp) and
          any(isinstance(x, ast.BinOp) and isinstance(x.op, ast.Pow) for x in ast.walk(n.value))]
    if len(ke) == 1:
        nm_ = straightline_env(fu.node.body, Normaliser(), exclude=set(fu.params))
        consts_ = {n.targets[0].id: n.value.value for n in ast.walk(fu.node) if isinstance(n, ast.Assign) and len(n.targets) == 1 and
                   isinstance(n.targets[0], ast.Name) and isinstance(n.value, ast.Constant) and isinstance(n.value.value, (int, float))}
        p_ = Normaliser(const_names=consts_).poly(ke[0].value)
        okk = p_.is_monomial() and list(p_.t.values())[0] == Fraction(1, 2) and len(p_.atoms()) == 1 and list(dict(list(p_.t)[0]).values()) == [2]
        chk.ob("R-ENERGY", "eqsig/sdof.py:calc_resp_uke_spectrum{kinetic energy}", "kinetic energy per unit mass = 0.5 * v^2", okk, derived=p_.canon(),
               loc=fu.loc(ke[0]), stmt=norm_stmt(ke[0]))
    fe_ = P.fn("eqsig.sdof.calc_input_energy_spectrum")
    for n in ast.walk(fe_.node):
        if isinstance(n, ast.Call) and ast.unparse(n.func).split(".")[-1] in ("cumsum", "sum"):
            ax = next((k.value for k in n.keywords if k.arg == "axis"), None)
            chk.ob("R-ENERGY", "eqsig/sdof.py:calc_input_energy_spectrum{%s axis}" % ast.unparse(n.func).split(".")[-1], "accumulated over time (axis 1), one row per period",
                   isinstance(ax, ast.Constant) and ax.value in (1, -1), derived="axis=%s" % (ast.unparse(ax) if ax is not None else None), loc=fe_.loc(n),
                   inconclusive=ax is None)
    sibling_defaults(chk, "R-ENERGY", ["eqsig.sdof.calc_input_energy_spectrum"], neutral={"series": False}, label="calc_input_energy_spectrum")
    from ..tyob import leading_zero_tests
    _fi = chk.P.fn("eqsig.sdof.pseudo_response_spectra")
    leading_zero_tests(chk, "R-PSEUDO", _fi, "periods", "eqsig/sdof.py:pseudo_response_spectra", what="a leading zero period", minimum=0)
    _fi = chk.P.fn(ACC + ".gen_response_spectrum")
    leading_zero_tests(chk, "R-PAIR", _fi, "self.response_times", "eqsig/single.py:AccSignal.gen_response_spectrum", what="a leading zero period",
                       minimum=0)
    chk.floor("R-SRC", 16)
    chk.floor("R-PSEUDO", 7)
    chk.floor("R-CUT", 12)
    chk.floor("R-COERCE", 8)
    chk.floor("R-PAIR", 10)
    chk.floor("R-ENERGY", 12)


def _read(chk, prop, setup):
    from ..interp import Interp, State, Frame
    P = chk.P
    ci = P.cls(ACC)
    I = Interp(P)
    I.atoms = {R, DT, T}
    setup(I)
    st = State()
    o, oav = make_signal(I, st, ci, name="self", flags="cold", is_param=False)
    m = ci.find_method(prop)
    v = I.load_attr(Frame(m, st, I), oav, prop, m.node)
    chk.absorb_interp(I)
    return v, I, m


def _is_cut(cond):
    """the mask of the short-period cut: derives from the periods and the time step, not from the record"""
    return "p:periods" in cond.tags and "p:dt" in cond.tags and "p:motion" not in cond.tags and "p:acc" not in cond.tags


def threshold_form(fi, cmp_node, small, big):
    """Normalise `L op R` to  small < c * big ; returns (strict, c, description)."""
    norm = straightline_env(fi.node.body, Normaliser())
    if not (isinstance(cmp_node, ast.Compare) and len(cmp_node.ops) == 1):
        return None, None, "not a simple comparison"
    L, Rr = norm.poly(cmp_node.left), norm.poly(cmp_node.comparators[0])
    op = type(cmp_node.ops[0]).__name__
    if op in ("Gt", "GtE"):
        L, Rr = Rr, L
        op = {"Gt": "Lt", "GtE": "LtE"}[op]
    if op not in ("Lt", "LtE") or not (L.is_monomial() and Rr.is_monomial()):
        return None, None, "comparison %s between %s and %s" % (op, L.canon(), Rr.canon())
    q = Rr * L.inverse()          # small-side < big-side  <=>  1 < R/L
    (m, c), = q.t.items()
    md = {k.split(".")[-1]: v for k, v in dict(m).items()}       # self.periods / peaks.dt: the quantity is known by its last name
    if md == {big: Fraction(1), small: Fraction(-1)}:
        return op == "Lt", c, "%s %s %s * %s" % (small, "<" if op == "Lt" else "<=", c, big)
    return None, None, "normal form %s (expected %s against %s)" % (q.canon(), small, big)


def w_branch_rule(chk, fi):
    """Sibling branches of `if periods[0] == 0`: w = 2*pi/periods on the non-placeholder rows in both."""
    c = "%s:%s{w}" % (fi.module.relpath, fi.name)
    forms = []
    # `w = <name>` makes that name another name of w (a helper's local handed back): its definitions are definitions of w
    names = {"w"}
    for _ in range(3):
        for n in ast.walk(fi.node):
            if isinstance(n, ast.Assign) and len(n.targets) == 1 and isinstance(n.targets[0], ast.Name) and n.targets[0].id in names and \
                    isinstance(n.value, ast.Name):
                names.add(n.value.id)
    for n in ast.walk(fi.node):
        if isinstance(n, ast.Assign) and len(n.targets) == 1:
            t = n.targets[0]
            tn = t.id if isinstance(t, ast.Name) else (t.value.id if isinstance(t, ast.Subscript) and isinstance(t.value, ast.Name) else None)
            if tn not in names or (isinstance(n.value, ast.Name) and n.value.id in names):
                continue
            if isinstance(n.value, ast.Call) and ast.unparse(n.value.func).split(".")[-1] in ("ones_like", "ones", "zeros_like", "empty_like"):
                continue
            norm = Normaliser()
            p = norm.poly(n.value)
            # drop the row slice: periods[1:] ~ periods
            p = p.subst_atoms(lambda a: a.split("[")[0])
            forms.append((p, n))
    ok = len(forms) >= 1 and all(f[0] == forms[0][0] for f in forms)
    want = Poly.const(2) * Poly.atom("pi") * Poly.atom("periods").inverse()
    ok2 = ok and forms[0][0] == want
    chk.ob("R-PSEUDO", c, "w = 2*pi/periods on every branch (T=0 placeholder row apart)", ok2,
           derived="; ".join(f[0].canon() for f in forms) or "no definition of w found", loc=fi.loc(forms[0][1]) if forms else fi.loc(),
           inconclusive=not forms)


def pair_rule(chk, setup):
    P = chk.P
    fi = P.fn(ACC + ".gen_response_spectrum")
    ifs = [n for n in ast.walk(fi.node) if isinstance(n, ast.If)]
    c = "eqsig/single.py:AccSignal.gen_response_spectrum"
    seen_paths = 0
    for choice in (True, False):
        def oracle(fr, node, choice=choice):
            if fr.fi is fi and isinstance(node.test, ast.Compare) and "target_dt" in ast.unparse(node.test):
                return choice
            return None

        def setup3(I):
            setup(I)
            I.branch_oracle = oracle
        r = analyse(chk, fi.qualname, None, self_cls=ACC, atoms=(R, DT, T), setup=setup3)
        assumed = [e for e in r.I.events if e.kind == "assumed-branch"]
        calls = [e for e in r.events("call", fi.qualname) if e.callee == PSEUDO]
        if len(assumed) != 1 or len(calls) != 1:
            chk.ob("R-PAIR", c + "[path interp=%s]" % choice, "one interpolation decision and one spectra call on the path", False,
                   derived="%d decisions, %d calls" % (len(assumed), len(calls)), inconclusive=True, loc=fi.loc())
            continue
        seen_paths += 1
        b = calls[0].bound
        params = P.fn(PSEUDO).params
        vals, dt = b[params[0]], b[params[1]]
        vi = "ret:interp_array_to_approx_dt#0" in vals.tags
        di = "ret:interp_array_to_approx_dt#1" in dt.tags
        if choice:
            ok = vi and di and "ret:interp_array_to_approx_dt#1" not in vals.tags and "ret:interp_array_to_approx_dt#0" not in dt.tags
            chk.ob("R-PAIR", c + "[target_dt < dt]", "(interpolated values, interpolated dt) are passed together", ok,
                   derived="values from interp: %s, dt from interp: %s" % (vi, di), loc=calls[0].loc, stmt=calls[0].stmt)
        else:
            ok = (not vi) and (not di) and "attr:_values" in vals.tags and "attr:_dt" in dt.tags and "interp:linear" not in vals.tags
            chk.ob("R-PAIR", c + "[target_dt >= dt]", "(values, dt) of the object are passed together", ok,
                   derived="values from interp: %s, dt from interp: %s" % (vi, di), loc=calls[0].loc, stmt=calls[0].stmt)
        expect(chk, "R-PAIR", c + "[periods arg, interp=%s]" % choice, b[params[2]], tags_has=["attr:_response_times"]
               if "_response_times" in r.st.heap[r.self_obj.id].attrs else ["attr:response_times"], loc=calls[0].loc)
        if choice:
            ic = [e for e in r.events("call", fi.qualname) if e.callee == INTERP]
            if len(ic) == 1:
                ib = ic[0].bound
                ip = P.fn(INTERP).params
                expect(chk, "R-PAIR", c + "[interp input values]", ib[ip[0]], tags_has=["attr:_values"], loc=ic[0].loc)
                expect(chk, "R-PAIR", c + "[interp input dt]", ib[ip[1]], tags_has=["attr:_dt"], tags_not=["sel:max"], loc=ic[0].loc)
                expect(chk, "R-PAIR", c + "[interp target]", ib[ip[2]], tags_has=["sel:max"], loc=ic[0].loc)
            else:
                chk.ob("R-PAIR", c + "[interp call]", "one call of the interpolation routine on the interpolating branch", False,
                       derived="%d" % len(ic), loc=fi.loc())
    # the decision itself: target_dt < dt with target_dt = max(T_min / 20, dt / min_dt_ratio)
    r = analyse(chk, fi.qualname, None, self_cls=ACC, atoms=(R, DT, T), setup=setup)
    dec = [e for e in r.events("compare", fi.qualname) if "sel:max" in (e.left.tags | e.right.tags)]
    ok = len(dec) == 1 and dec[0].op == "Lt" and "sel:max" in dec[0].left.tags and "sel:max" not in dec[0].right.tags and \
        "attr:_dt" in dec[0].right.tags
    if len(dec) == 1 and dec[0].op == "Gt":
        ok = "sel:max" in dec[0].right.tags and "sel:max" not in dec[0].left.tags and "attr:_dt" in dec[0].left.tags
    chk.ob("R-PAIR", c + "[decision]", "interpolate exactly when target_dt < dt (strict)", ok,
           derived="%s" % [(e.op, "target on left" if "sel:max" in e.left.tags else "target on right") for e in dec],
           loc=dec[0].loc if dec else fi.loc(),
           # the larger of the two steps chosen without max(): the decision is not located -- unless NO comparison with the record's step is made
           # in the method at all while the interpolation routine is called: then the call is unguarded (it also decimates when the target
           # step is coarser than the record's), a located wrong instance
           inconclusive=(not dec) and not (
               any(e.callee.endswith("interp_array_to_approx_dt") for e in r.events("call", fi.qualname)) and
               not any(e.op in ("Lt", "Gt", "LtE", "GtE") and ("attr:_dt" in (e.left.tags | e.right.tags)) for e in r.events("compare", fi.qualname))))
    # target_dt = max(T_min / 20, dt / min_dt_ratio), T_min = first non-zero period: decided on the structure, whatever the locals are called
    norm = straightline_env(fi.node.body, Normaliser(), exclude=set(fi.params))
    maxes = [n for n in ast.walk(fi.node) if isinstance(n, ast.Call) and ast.unparse(n.func) in ("max", "np.maximum", "numpy.maximum")
             and len(n.args) == 2 and not n.keywords]
    tmin_atom = None
    if len(maxes) != 1:
        # no max in this function (the rule moved to a helper, another spelling): nothing located; a two-argument min(...) in its place is a
        # located wrong combiner
        mins = [n for n in ast.walk(fi.node) if isinstance(n, ast.Call) and ast.unparse(n.func) in ("min", "np.minimum", "numpy.minimum")
                and len(n.args) == 2 and not n.keywords]
        chk.ob("R-PAIR", c + "[target_dt]", "target_dt is the max of two terms", False, derived="%d two-argument max(...) call(s), %d min(...)" %
               (len(maxes), len(mins)), loc=fi.loc(mins[0]) if mins else fi.loc(), inconclusive=len(maxes) > 1 or not mins)
    else:
        tgt = maxes[0]
        ps = [norm.poly(a) for a in tgt.args]

        def is_period_term(p):
            return p.is_monomial() and list(p.t.values()) == [Fraction(1, 20)] and len(p.atoms()) == 1 and \
                all(e == 1 for m in p.t for _, e in m)

        def is_dt_term(p):
            if not p.is_monomial() or list(p.t.values()) != [Fraction(1)]:
                return False
            (m, _), = p.t.items()
            d = dict(m)
            return d.get("self.dt") == 1 and d.get("min_dt_ratio") == -1 and len(d) == 2
        ok = (is_period_term(ps[0]) and is_dt_term(ps[1])) or (is_period_term(ps[1]) and is_dt_term(ps[0]))
        if ok:
            tmin_atom = list((ps[0] if is_period_term(ps[0]) else ps[1]).atoms())[0]
        chk.ob("R-PAIR", c + "[target_dt]", "target_dt = max(T_min / 20, dt / min_dt_ratio)", ok,
               derived="max(%s ; %s)" % (ps[0].canon(), ps[1].canon()), loc=fi.loc(tgt), stmt=norm_stmt(tgt))
    # the cached damping replaces xi exactly for the sentinel -1
    xi_sentinel(chk, fi, c, "R-PAIR", cls_q=ACC)
    sibling_defaults(chk, "R-PAIR", [ACC + ".gen_response_spectrum", ACC + ".generate_response_spectrum"], neutral={"xi": -1},
                     label="AccSignal.gen_response_spectrum~generate_response_spectrum")
    sibling_defaults(chk, "R-PAIR", [ACC + ".response_series"], neutral={"xi": -1}, label="AccSignal.response_series")
    # T_min is the first non-zero period: the variable in the period term is assigned periods[0] when periods[0] != 0, periods[1] otherwise
    okt, why = False, "the period term of the max is not a twice-assigned local (%s)" % tmin_atom
    defs = [n for n in ast.walk(fi.node) if isinstance(n, ast.Assign) and len(n.targets) == 1 and isinstance(n.targets[0], ast.Name) and
            n.targets[0].id == tmin_atom]
    PER = "self.response_times"
    if len(defs) == 2:
        host = [n for n in ast.walk(fi.node) if isinstance(n, ast.If) and any(d is x for d in defs for x in n.body) and
                any(d is x for d in defs for x in n.orelse)]
        why = "the two assignments are not the two branches of one test"
        if len(host) == 1 and isinstance(host[0].test, ast.Compare) and len(host[0].test.ops) == 1:
            t = host[0].test
            l, r_ = norm.arg(t.left), norm.arg(t.comparators[0])
            op = type(t.ops[0]).__name__
            if r_ == PER + "[0]":
                l, r_ = r_, l
            first_zero_branch = None
            if l == PER + "[0]" and r_ in ("0", "0.0"):
                first_zero_branch = host[0].body if op == "Eq" else (host[0].orelse if op == "NotEq" else None)
            why = "test `%s`" % ast.unparse(t)
            if first_zero_branch is not None:
                vz = [norm.arg(d.value) for d in defs if any(d is x for x in first_zero_branch)]
                vn = [norm.arg(d.value) for d in defs if not any(d is x for x in first_zero_branch)]
                okt = vz == [PER + "[1]"] and vn == [PER + "[0]"]
                why = "first period zero -> %s, otherwise -> %s" % (vz, vn)
    if not okt and tmin_atom is not None and tmin_atom.startswith(PER + "["):
        # T_min = periods[k] with a computed index k: k = int(periods[0] == 0), or a local that is 1 when periods[0] == 0 and 0 otherwise
        for n in ast.walk(fi.node):
            if isinstance(n, ast.Subscript) and norm.arg(n.value) == PER and norm.opaque(n) == tmin_atom:
                k = n.slice
                if isinstance(k, ast.Name):          # an index held in a local bound once stands for its definition
                    one = [a for a in ast.walk(fi.node) if isinstance(a, ast.Assign) and len(a.targets) == 1 and isinstance(a.targets[0], ast.Name) and
                           a.targets[0].id == k.id]
                    if len(one) == 1:
                        k = one[0].value
                first_is_zero = lambda t: isinstance(t, ast.Compare) and len(t.ops) == 1 and isinstance(t.ops[0], ast.Eq) and (
                    (norm.arg(t.left) == PER + "[0]" and norm.arg(t.comparators[0]) in ("0", "0.0")) or
                    (norm.arg(t.comparators[0]) == PER + "[0]" and norm.arg(t.left) in ("0", "0.0")))
                if isinstance(k, ast.Call) and ast.unparse(k.func) == "int" and len(k.args) == 1 and first_is_zero(k.args[0]):
                    okt, why = True, "index int(%s)" % ast.unparse(k.args[0])
                elif isinstance(k, ast.Name):
                    kd = [a for a in ast.walk(fi.node) if isinstance(a, ast.Assign) and len(a.targets) == 1 and isinstance(a.targets[0], ast.Name) and
                          a.targets[0].id == k.id]
                    hosts = [h for h in ast.walk(fi.node) if isinstance(h, ast.If) and len(kd) == 2 and any(d is x for d in kd for x in h.body) and
                             any(d is x for d in kd for x in h.orelse)]
                    if len(hosts) == 1 and all(isinstance(d.value, ast.Constant) for d in kd):
                        t = hosts[0].test
                        neg = isinstance(t, ast.Compare) and len(t.ops) == 1 and isinstance(t.ops[0], ast.NotEq)
                        tt = ast.Compare(left=t.left, ops=[ast.Eq()], comparators=t.comparators) if neg else t
                        if first_is_zero(tt):
                            zb = hosts[0].orelse if neg else hosts[0].body
                            vz = [d.value.value for d in kd if any(d is x for x in zb)]
                            vn = [d.value.value for d in kd if not any(d is x for x in zb)]
                            okt, why = (vz == [1] and vn == [0]), "index %s = %s when the first period is zero, %s otherwise" % (k.id, vz, vn)
                break
    chk.ob("R-PAIR", c + "[T_min]", "T_min is period [0], or [1] when the first period is 0", okt, derived=why,
           loc=fi.loc(defs[0]) if defs else fi.loc(), inconclusive=(tmin_atom is None))



def xi_sentinel(chk, fi, c, rule, cls_q=None):
    """`xi` is replaced by the cached damping exactly when it equals the sentinel -1 (an explicit xi = 0 must be honoured).
    Decided on the interpretation, so the statement form (`if xi == -1: xi = cached`) and the expression form
    (`d = cached if xi == -1 else xi`) are the same thing: (a) every comparison that involves xi is `== -1` (or `!= -1`);
    (b) with xi = -1 the damping handed on derives from the cached attribute; (c) with xi = 0, -0.5, -2 it is that constant."""
    from ..tyob import analyse, against_const
    cls = cls_q or (fi.cls.qualname if fi.cls is not None else None)       # the class whose objects are analysed (the method may be inherited)
    NJ = ("eqsig.sdof.nigam_and_jennings_response", "eqsig.sdof.response_series", "eqsig.sdof.pseudo_response_spectra")

    def handed_on(xiv):
        r = analyse(chk, fi.qualname, lambda I, st, f: dict(xi=xiv), self_cls=cls, atoms=(R, DT, T))
        out = []
        for e in r.I.events:
            if e.kind == "call" and e.callee in NJ and e.fn == fi.qualname and "xi" in e.bound:
                out.append(e.bound["xi"])
        return r, out
    generic = AV(kind=K_SCALAR, dtype="real", shape=(), origin=frozenset(["lit"]), tags=frozenset(["p:xi"]), note="pyscalar")
    r, vals = handed_on(generic)
    cmps = [e for e in r.I.events if e.kind == "compare" and e.fn == fi.qualname and ("p:xi" in e.left.tags or "p:xi" in e.right.tags)]
    shapes = []
    ok = bool(cmps)
    for e in cmps:
        got = None
        for side, other in ((e.left, e.right), (e.right, e.left)):
            if "p:xi" in side.tags and other.has_const():
                got = (e.op, other.const)
        shapes.append(got)
        ok = ok and got is not None and got[0] in ("Eq", "NotEq") and got[1] in (-1, -1.0)
    chk.ob(rule, c + "{xi sentinel}", "the cached damping is used exactly when xi == -1: every test on xi compares it with -1 for equality", ok,
           derived="tests on xi: %s" % (shapes or "none"), loc=cmps[0].loc if cmps else fi.loc(), stmt=cmps[0].stmt if cmps else None)
    _, vals = handed_on(const_av(-1))
    okc = bool(vals) and all(("attr:_cached_xi" in v.tags) and not (v.has_const() and v.const == -1) for v in vals)
    chk.ob(rule, c + "{xi sentinel: -1}", "with xi = -1 the damping handed on is the cached one", okc,
           derived="%s" % [("cached" if "attr:_cached_xi" in v.tags else (repr(v.const) if v.has_const() else "other")) for v in vals], loc=fi.loc())
    for k in (0, -0.5, -2):
        _, vals = handed_on(const_av(k))
        okk = bool(vals) and all(v.has_const() and v.const == k and "attr:_cached_xi" not in v.tags for v in vals)
        chk.ob(rule, c + "{xi sentinel: %s}" % k, "an explicit xi = %s is honoured" % k, okk,
               derived="%s" % [("cached" if "attr:_cached_xi" in v.tags else (repr(v.const) if v.has_const() else "other")) for v in vals], loc=fi.loc())

"""C08 -- velocity/displacement are cumulative trapezoid integrals; peaks are max abs (typing obligations)."""
from ..tyob import *  # noqa
from ..tyob import analyse, expect, item, read_property, unmodelled_in, check_forwarder
from .c04 import extract_model, memo_key_rule

ARR = "eqsig.displacements.calc_velo_and_disp_from_accel_arr"
FWD = "eqsig.displacements.velocity_and_displacement_from_acceleration"
ACC = "eqsig.single.AccSignal"


def run(chk):
    chk.rule("R-INT-TYPE", "velocity: len n, linear in the record, degree 1 in dt, first element 0; displacement: len n, "
                           "linear, degree 2 in dt (so it integrates velocity, not acceleration), first element 0; per branch of trap")
    chk.rule("R-QUAD", "trap branch: both integrations are trapezoid; trap=False: both are rectangle sums; no mixing")
    chk.rule("R-LAZY", "AccSignal.velocity/.displacement are the first/second result for (values, dt) with trapezoid integration")
    chk.rule("R-PEAK", "calc_peak and pga/pgv/pgd: degree 1 in the record, even, non-negative, applied to values/velocity/displacement "
                       "(degree 0/1/2 in dt); memo keys coincide")
    for q in (ARR, FWD):
        short = q.split(".")[-1]
        for trap, quad, other in ((True, "quad:trapezoid", "quad:rectangle"), (False, "quad:rectangle", "quad:trapezoid")):
            r = analyse(chk, q, lambda I, st, fi, trap=trap: dict(acceleration=rec_array("acceleration"),
                                                                  dt=pos_scalar("dt", DT), trap=const_av(trap)))
            c = "%s:%s(trap=%s)" % (r.fi.module.relpath, short, trap)
            unmodelled_in(r, chk, "R-INT-TYPE", c)
            expect(chk, "R-INT-TYPE", c, r.ret, items=2, loc=r.fi.loc())
            v, d = item(r.ret, 0), item(r.ret, 1)
            expect(chk, "R-INT-TYPE", c + ".velocity", v, length="n", lin=[R], deg={DT: 1}, f0=True, kind=K_ARRAY, loc=r.fi.loc())
            expect(chk, "R-INT-TYPE", c + ".displacement", d, length="n", lin=[R], deg={DT: 2}, f0=True, kind=K_ARRAY, loc=r.fi.loc())
            expect(chk, "R-QUAD", c + ".velocity", v, tags_has=[quad], tags_not=[other], loc=r.fi.loc())
            expect(chk, "R-QUAD", c + ".displacement", d, tags_has=[quad], tags_not=[other], loc=r.fi.loc())
    check_forwarder(chk, "R-INT-TYPE", FWD, ARR)
    # a record handed over as a Python list (the trapezoid branch accepts one): `+` between two lists concatenates and `*` with a float raises,
    # so the record must reach an array routine (or be coerced) before any arithmetic; the result is still one sample per sample
    def _list_rec(I, st, fi):
        el = AV(kind=K_SCALAR, dtype="real", shape=(), alg={R: HOM(1, "odd")}, origin=frozenset(["lit"]), tags=frozenset(["p:acceleration"]))
        return dict(acceleration=AV(kind=K_LIST, elem=el, shape=(LinExpr("n"),), alg={R: HOM(1, "odd")}, origin=frozenset(["p:acceleration"]),
                                    tags=frozenset(["p:acceleration"])), dt=pos_scalar("dt", DT), trap=const_av(True))
    r = analyse(chk, ARR, _list_rec)
    c = "eqsig/displacements.py:calc_velo_and_disp_from_accel_arr(trap=True, record given as a list)"
    te_ = [e for e in r.I.events if e.kind == "type-error"]
    lc_ = [e for e in r.I.events if e.kind == "arith" and e.op == "Add" and e.left is not None and e.right is not None and
           e.left.kind in (K_LIST, K_TUPLE) and e.right.kind in (K_LIST, K_TUPLE) and "p:acceleration" in (e.left.tags | e.right.tags)]
    chk.ob("R-INT-TYPE", c + "{arithmetic}", "no list arithmetic on the record (list + list concatenates, list * float raises)", not te_ and not lc_,
           derived=("%s: %s" % (te_[0].loc, te_[0].what)) if te_ else (("%s: `+` of two lists (concatenation) in %s" % (lc_[0].loc, lc_[0].stmt)) if lc_ else
                                                                      "the record reaches array routines only"),
           loc=(te_[0].loc if te_ else (lc_[0].loc if lc_ else r.fi.loc())))
    v_ = item(r.ret, 0)
    if v_ is not None and v_.length() is not None:
        chk.ob("R-INT-TYPE", c + ".velocity[len]", "length n", v_.length() == LinExpr("n"), derived="length %r" % (v_.length(),), loc=r.fi.loc())
    from ..tyob import no_truncation
    for trap in (True, False):
        no_truncation(chk, "R-INT-TYPE", ARR, lambda I, st, fi, trap=trap: dict(acceleration=rec_array("acceleration", dtype="int"),
                                                                              dt=pos_scalar("dt", DT), trap=const_av(trap)),
                      "eqsig/displacements.py:calc_velo_and_disp_from_accel_arr(trap=%s, integer record)" % trap, what="an integer-typed record")
    # default of trap is trapezoid
    r = analyse(chk, ARR, lambda I, st, fi: dict(acceleration=rec_array("acceleration"), dt=pos_scalar("dt", DT)))
    expect(chk, "R-QUAD", "eqsig/displacements.py:calc_velo_and_disp_from_accel_arr(default)", item(r.ret, 1),
           tags_has=["quad:trapezoid"], tags_not=["quad:rectangle"], loc=r.fi.loc())
    # object level
    for prop, k in (("velocity", 1), ("displacement", 2)):
        v, I, m = read_property(chk, ACC, prop)
        c = "eqsig/single.py:AccSignal.%s" % prop
        expect(chk, "R-LAZY", c, v, length="n", lin=[R], deg={DT: k}, f0=True, tags_has=["quad:trapezoid", "attr:_values", "attr:_dt"],
               tags_not=["quad:rectangle"], loc=m.loc())
    # the explicit generator honours its argument whatever the cache state on entry (a request for rectangle sums on an object
    # whose lazy trapezoid series are already loaded must not be ignored)
    for flags in ("cold", "unknown"):
        r = analyse(chk, ACC + ".generate_displacement_and_velocity_series", lambda I, st, fi: dict(trap=const_av(False)), self_cls=ACC,
                    flags=flags)
        o = r.st.heap[r.self_obj.id]
        c = "eqsig/single.py:AccSignal.generate_displacement_and_velocity_series(trap=False,cache=%s)" % flags
        expect(chk, "R-LAZY", c + "._displacement", o.attrs.get("_displacement"), length="n", deg={DT: 2},
               tags_has=["quad:rectangle"], tags_not=["quad:trapezoid", "stored:_displacement"], loc=r.fi.loc())
        expect(chk, "R-LAZY", c + "._velocity", o.attrs.get("_velocity"), length="n", deg={DT: 1}, tags_has=["quad:rectangle"],
               tags_not=["quad:trapezoid", "stored:_velocity"], loc=r.fi.loc())
    # peaks
    r = analyse(chk, "eqsig.im.calc_peak", lambda I, st, fi: dict(motion=rec_array("motion")))
    expect(chk, "R-PEAK", "eqsig/im.py:calc_peak", r.ret, deg={R: 1}, parity={R: "even"}, sign="nonneg", kind=K_SCALAR, loc=r.fi.loc())
    unmodelled_in(r, chk, "R-PEAK", "eqsig/im.py:calc_peak")
    for prop, k in (("pga", 0), ("pgv", 1), ("pgd", 2)):
        v, I, m = read_property(chk, ACC, prop)
        expect(chk, "R-PEAK", "eqsig/single.py:AccSignal.%s" % prop, v, deg={R: 1, DT: k}, parity={R: "even"}, sign="nonneg",
               kind=K_SCALAR, loc=m.loc())
    memo_key_rule(chk, chk.P, chk.P.cls(ACC), extract_model(chk.P, chk.P.cls(ACC), chk))
    for o in chk.obs:
        if o.rule == "R-MEMOKEY":
            o.rule = "R-PEAK"
    chk.rule("R-OWNS", "each signal object owns its samples (constructor and reset_values store a fresh array): the lazily kept velocity / displacement / peaks of one object cannot be invalidated behind its back by an in-place correction of another object or of the caller's array")
    from ..tyob import owns_values
    owns_values(chk, "R-OWNS")
    chk.floor("R-OWNS", 4)
    chk.floor("R-INT-TYPE", 40)
    chk.floor("R-QUAD", 16)
    chk.floor("R-LAZY", 22)
    chk.floor("R-PEAK", 18)

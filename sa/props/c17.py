"""C17 -- Butterworth filtering, detrending, add_*, running average: the structural clauses."""
import ast
from fractions import Fraction

from ..tyob import *  # noqa
from ..tyob import analyse, expect, item, unmodelled_in
from ..poly import Normaliser, Poly, straightline_env
from ..program import norm_stmt, local_imports_of
from .. import libns

SIG = "eqsig.single.Signal"
ACC = "eqsig.single.AccSignal"
BP = SIG + ".butter_pass"


def scal(name, sign=S_POS):
    return AV(kind=K_SCALAR, dtype="real", shape=(), sign=sign, origin=frozenset(["lit"]), tags=frozenset(["p:" + name]), note="pyscalar")


def kwargs_av(**kw):
    ks = frozenset(kw)
    return AV(kind=K_DICT, dvals=dict(kw), dmust=ks, dmay=ks)


def run(chk):
    P = chk.P
    chk.rule("R-LIBNS", "every NumPy/SciPy name referenced by the functions reachable from the anchored entry points exists in the "
                        "installed library (resolved from the installed stubs/sources, nothing imported)")
    chk.rule("R-BP-TYPE", "decision table over the None pattern of cut_off: (x,y)->'band' with both; (None,y)->'low' with y; (x,None)->"
                          "'high' with x; the cut-off is divided by the Nyquist frequency 0.5/dt; filter_order keyword, default 4; "
                          "list, tuple and array containers are all accepted")
    chk.rule("R-BP-ZEROPHASE", "the filter is applied by a forward-backward routine (filtfilt / sosfiltfilt)")
    chk.rule("R-BP-LEN", "length preserved on every remove_gibbs branch; result linear in the record; stored through reset_values")
    chk.rule("R-POLY-SIB", "Signal.remove_poly and generic.remove_poly: abscissa linspace(0,1,n), polyfit of the requested degree, all "
                           "len(cofs) terms cofs[k]*x**(deg-k) accumulated, result = values - correction; equal summaries")
    chk.rule("R-ADD-GUARD", "add_series stores only under len(series) == npts, add_signal only for a Signal with equal dt, otherwise "
                            "they raise; all three add element-wise through reset_values")
    chk.rule("R-RA-ALIAS", "a loop that stores element i of an array does not read a window of the same array (through any alias)")
    chk.rule("R-RA-LEN", "the averaged record has the record's length (one mean per sample)")
    chk.rule("R-RA-SIB", "both rolling-window loops use the window table i<w/2: [:i+h+1]; i>n-w/2: [i-h:]; else [i-h:i+h+1], h=int(w/2)")
    butter_rules(chk)
    poly_rules(chk)
    add_rules(chk)
    rolling_rules(chk)
    libns_rule(chk)
    chk.floor("R-LIBNS", 8)
    chk.floor("R-BP-TYPE", 20)
    chk.floor("R-BP-ZEROPHASE", 3)
    chk.floor("R-BP-LEN", 12)
    chk.floor("R-POLY-SIB", 12)
    chk.floor("R-ADD-GUARD", 8)
    chk.floor("R-RA-ALIAS", 2)
    chk.floor("R-RA-SIB", 7)
    chk.floor("R-RA-LEN", 2)


REACHED = set()


# ---------------------------------------------------------------------------------------------------------------------
def butter_rules(chk):
    P = chk.P
    fi = P.fn(BP)
    c = "eqsig/single.py:Signal.butter_pass"
    lo, hi = scal("lo"), scal("hi")
    patterns = {"band": (lo, hi), "low": (const_av(None), hi), "high": (lo, const_av(None))}
    for cont in (K_TUPLE, K_LIST, K_ARRAY):
        for pat, (a, b) in patterns.items():
            if cont == K_ARRAY and pat != "band":
                continue  # an ndarray of floats cannot hold None
            if cont == K_ARRAY:
                cut = AV(kind=K_ARRAY, dtype="real", shape=(LinExpr(2),), sign=S_POS, origin=frozenset(["p:cut_off"]),
                         tags=frozenset(["p:lo", "p:hi"]))
            else:
                cut = AV(kind=cont, items=(a, b), origin=frozenset(["p:cut_off"]))
            r = analyse(chk, BP, lambda I, st, fi, cut=cut: {"cut_off": cut, "kwargs": kwargs_av()}, self_cls=SIG)
            REACHED.update(r.I.stats["functions"])
            cc = "%s(cut_off: %s %s)" % (c, cont, pat)
            unmodelled_in(r, chk, "R-BP-TYPE", cc)
            be = r.events("butter")
            normal = any(e.kind == "exit" and e.is_entry and e.normal for e in r.I.events)
            te = [e for e in r.I.events if e.kind in ("type-error",)]
            if len(be) != 1 or not normal:
                chk.ob("R-BP-TYPE", cc, "the container is accepted and one Butterworth design is made", False,
                       derived="%d butter call(s); normal exit: %s" % (len(be), normal), loc=fi.loc())
                continue
            e = be[0]
            bt = e.btype.const if (e.btype is not None and e.btype.has_const()) else None
            ok_bt = bt in {"band": ("band", "bandpass"), "low": ("low", "lowpass"), "high": ("high", "highpass")}[pat]
            chk.ob("R-BP-TYPE", cc + "{btype}", "filter type %s" % pat, ok_bt, derived="btype=%r" % bt, loc=e.loc, stmt=e.stmt)
            wn = e.wn
            has = {"band": ["p:lo", "p:hi"], "low": ["p:hi"], "high": ["p:lo"]}[pat]
            nots = {"band": [], "low": ["p:lo"], "high": ["p:hi"]}[pat]
            expect(chk, "R-BP-TYPE", cc + "{cut-off}", wn, tags_has=has + ["attr:_dt"], tags_not=nots + ["attr:_values"], deg={DT: 1},
                   const_in=[R], loc=e.loc)
            if cont == K_TUPLE:
                chk.ob("R-BP-TYPE", cc + "{order default}", "default filter order 4", e.order.has_const() and e.order.const == 4,
                       derived="order %r" % (e.order.const if e.order.has_const() else "?"), loc=e.loc,
                       inconclusive=not e.order.has_const())       # an order the engine did not fold to a constant is not a located other default
    # explicit order keyword
    r = analyse(chk, BP, lambda I, st, fi: {"cut_off": AV(kind=K_TUPLE, items=(lo, hi)),
                                            "kwargs": kwargs_av(filter_order=AV(kind=K_SCALAR, dtype="int", shape=(), tags=frozenset(["p:filter_order"])))},
                self_cls=SIG)
    be = r.events("butter")
    chk.ob("R-BP-TYPE", c + "{order keyword}", "the filter_order keyword reaches the design", len(be) == 1 and "p:filter_order" in be[0].order.tags,
           derived="order tags %s" % (sorted(be[0].order.tags) if be else None), loc=be[0].loc if be else fi.loc(),
           # a constant order is the located wrong instance (the keyword is ignored); an order whose provenance was lost (options merged through a
           # dict the engine does not follow) is not located
           inconclusive=(not be) or (len(be) == 1 and not be[0].order.has_const() and "p:filter_order" not in be[0].order.tags))
    # normalisation by the Nyquist frequency: wp = cut_off / (0.5 / dt)
    norm = straightline_env(fi.node.body, Normaliser(), exclude={"cut_off"})
    wcall = [n for n in ast.walk(fi.node) if isinstance(n, ast.Call) and ast.unparse(n.func).split(".")[-1] == "butter"]
    if len(wcall) == 1 and len(wcall[0].args) >= 2:
        p = norm.poly(wcall[0].args[1])
        want = Poly.const(2) * Poly.atom("cut_off") * Poly.atom("self.dt")
        okn = p == want
        if not okn and p.is_monomial():
            (m_, co_), = p.t.items()
            d_ = dict(m_)
            others = [a_ for a_ in d_ if a_ != "self.dt"]
            # the same form with the cut-off held under another local name (which value it is: the {cut-off} typing obligation above)
            okn = co_ == 2 and d_.get("self.dt") == 1 and len(others) == 1 and d_[others[0]] == 1 and bool(__import__("re").fullmatch(r"[A-Za-z_]\w*", others[0]))
        chk.ob("R-BP-TYPE", c + "{nyquist}", "normalised cut-off = cut_off / (0.5 / dt)", okn, derived=p.canon(),
               loc=fi.loc(wcall[0]), stmt=norm_stmt(wcall[0]))
    else:
        chk.ob("R-BP-TYPE", c + "{nyquist}", "one butter(...) call", False, derived="%d" % len(wcall), loc=fi.loc(), inconclusive=True)
    # element selection: low uses [1], high uses [0]
    for n in ast.walk(fi.node):
        if isinstance(n, ast.Assign) and isinstance(n.value, ast.Constant) and n.value.value in ("low", "lowpass", "high", "highpass"):
            par = _parent_block(fi.node, n)
            # the element may be taken directly (cut_off = cut_off[1]) or through a local bound once before (high_cut = cut_off[1])
            once = {}
            for m in ast.walk(fi.node):
                if isinstance(m, ast.Assign) and len(m.targets) == 1 and isinstance(m.targets[0], ast.Name):
                    once.setdefault(m.targets[0].id, []).append(m.value)

            def elem_index(v):
                if isinstance(v, ast.Name) and len(once.get(v.id, [])) == 1:
                    v = once[v.id][0]
                if isinstance(v, ast.Subscript) and isinstance(v.value, ast.Name) and v.value.id == "cut_off" and isinstance(v.slice, ast.Constant):
                    return v.slice.value
                return None
            sel = [elem_index(m.value) for m in par if isinstance(m, ast.Assign) and isinstance(m.targets[0], ast.Name) and m.targets[0].id == "cut_off"]
            sel = [x for x in sel if x is not None]
            want = 1 if n.value.value.startswith("low") else 0
            if sel:         # when the selection is spelled some other way the typing rule {cut-off} above (p:lo / p:hi provenance) decides alone
                chk.ob("R-BP-TYPE", c + "{element %s}" % n.value.value, "'%s' uses cut_off[%d]" % (n.value.value, want),
                       len(sel) == 1 and sel[0] == want, derived="uses index %s" % sel, loc=fi.loc(n))
    # ---- zero phase + length / linearity per remove_gibbs branch
    for rg in (None, "start", "end", "mid", "?"):
        def build(I, st, fi, rg=rg):
            kw = {}
            if rg == "?":
                kw["remove_gibbs"] = AV(kind=K_STR, tags=frozenset(["p:remove_gibbs"]))
            elif rg is not None:
                kw["remove_gibbs"] = const_av(rg)
            return {"cut_off": AV(kind=K_TUPLE, items=(lo, hi)), "kwargs": kwargs_av(**kw)}
        r = analyse(chk, BP, build, self_cls=SIG)
        cc = "%s(remove_gibbs=%r)" % (c, rg)
        unmodelled_in(r, chk, "R-BP-LEN", cc)
        o = r.st.heap[r.self_obj.id]
        v = o.attrs.get("_values")
        expect(chk, "R-BP-LEN", cc + ".values", v, length="n", lin=[R], kind=K_ARRAY, tags_has=["filter:zero-phase"], loc=fi.loc())
        n_ = o.attrs.get("_npts")
        chk.ob("R-BP-LEN", cc + ".npts", "npts unchanged", n_ is not None and n_.sym == LinExpr("n"), derived="npts=%r" % (n_.sym if n_ else None,),
               inconclusive=(n_ is None or n_.sym is None or any(a_.startswith("$") for a_ in LinExpr(n_.sym).atoms())),        # a length the engine could not express
               loc=fi.loc())
        fa = r.events("filter-apply")
        chk.ob("R-BP-ZEROPHASE", cc, "one forward-backward (zero-phase) filter application", len(fa) == 1 and fa[0].how.startswith("zero-phase"),
               derived="%s" % [e.how for e in fa], loc=fa[0].loc if fa else fi.loc())
        rv = [e for e in r.events("call") if e.callee.endswith("reset_values")]
        chk.ob("R-BP-LEN", cc + ".store", "the result is stored through reset_values", len(rv) == 1, derived="%d call(s)" % len(rv), loc=fi.loc())
        dtv = o.attrs.get("_dt")
        chk.ob("R-BP-LEN", cc + ".dt", "the time step is unchanged", dtv is not None and dtv.sym == LinExpr("dt"), derived="dt=%r" % (dtv.sym if dtv else None,),
               loc=fi.loc(), nontrivial=False)
        if rg in ("start", "end", "mid"):
            ss = [e for e in r.events("store-shape", BP) if "attr:_values" in e.value.tags and e.value.origin and
                  all(t.endswith("._values") for t in e.value.origin)]
            ok = len(ss) == 1 and ss[0].target_shape == (LinExpr("n"),) and ss[0].value_shape == (LinExpr("n"),)
            # np.pad(record, (before, after), ...) embeds the whole record by construction
            pads = [e for e in r.events("lib-call", BP) if e.name == "numpy.pad" and e.args and "attr:_values" in e.args[0].tags]
            cats_ = [e for e in r.events("lib-call") if e.name == "numpy.concatenate" and e.args and e.args[0].kind in (K_TUPLE, K_LIST) and e.args[0].items and
                     sum(1 for x in e.args[0].items if "attr:_values" in (x.tags or ()) and x.shape == (LinExpr("n"),) and x.kind == K_ARRAY) == 1]
            if not ss and not pads and len(cats_) == 1:
                # np.concatenate((front, record, back)): the whole record is one piece of the padded buffer by construction
                chk.ob("R-BP-LEN", cc + ".window", "the original record is copied into a window of exactly its own length", True,
                       derived="the record (shape (n,)) is one piece of the concatenated buffer", loc=cats_[0].loc)
            elif not ss and len(pads) == 1:
                chk.ob("R-BP-LEN", cc + ".window", "the original record is copied into a window of exactly its own length",
                       pads[0].args[0].shape == (LinExpr("n"),), derived="np.pad of the record, shape %r" % (pads[0].args[0].shape,), loc=pads[0].loc)
            else:
                chk.ob("R-BP-LEN", cc + ".window", "the original record is copied into a window of exactly its own length", ok,
                       derived="%s" % [(e.target_shape, e.value_shape) for e in ss], loc=ss[0].loc if ss else fi.loc(),
                       # a window whose extent the engine did not derive (offsets joined over the branches) is not a located wrong window
                       inconclusive=(not ss) or any(e.target_shape is None or e.value_shape is None or None in tuple(e.target_shape) for e in ss))
            gibbs_alignment(chk, r, cc, fi)


def gibbs_alignment(chk, r, cc, fi):
    """The record is embedded in the padded buffer at some offset and the filtered buffer is cropped at some offset: the two offsets are
    the same number for every record length (otherwise the output is the filtered record shifted by the difference).  The embedding is
    located in three designs (slice store into a buffer; np.concatenate((front, record, back)); np.pad(record, (before, after))); the
    two offsets are compared as symbolic integers, and when they are different expressions both are constant-folded over sample
    record lengths -- a witness length refutes, agreement on the samples without identical forms is inconclusive."""
    from ..values import compare_index_exprs
    crops = [e for e in r.events("subscript") if e.base is not None and "filter:zero-phase" in e.base.tags and e.index is not None and
             e.index.kind == K_SLICE and e.index.items is not None]
    if len(crops) != 1:
        chk.ob("R-BP-LEN", cc + ".alignment", "the crop of the filtered buffer is located", False, derived="%d slice(s) of the filter output" % len(crops),
               inconclusive=True, loc=fi.loc())
        return
    lo = crops[0].index.items[0]
    crop = LinExpr(0) if lo is None else lo.sym
    emb, where = None, None
    ss = [e for e in r.events("store-shape") if e.value is not None and "attr:_values" in e.value.tags and e.value.kind == K_ARRAY and
          e.value.shape == (LinExpr("n"),) and e.index is not None and e.index.kind == K_SLICE and e.index.items is not None]
    cats = [e for e in r.events("lib-call") if e.name == "numpy.concatenate" and e.args and e.args[0].kind in (K_TUPLE, K_LIST) and e.args[0].items and
            any("attr:_values" in (x.tags or ()) and x.shape == (LinExpr("n"),) for x in e.args[0].items)]
    pads = [e for e in r.events("lib-call") if e.name == "numpy.pad" and e.args and "attr:_values" in e.args[0].tags and len(e.args) > 1]
    if len(ss) == 1:
        lo_ = ss[0].index.items[0]
        emb, where = (LinExpr(0) if lo_ is None else lo_.sym), ss[0]
    elif not ss and len(cats) == 1:
        its = cats[0].args[0].items
        k = [i for i, x in enumerate(its) if "attr:_values" in (x.tags or ()) and x.shape == (LinExpr("n"),)]
        if len(k) == 1:
            tot, ok_ = LinExpr(0), True
            for x in its[:k[0]]:
                if x.shape is not None and len(x.shape) == 1 and x.shape[0] is not None:
                    tot = tot + x.shape[0]
                else:
                    ok_ = False
            if ok_:
                emb, where = tot, cats[0]
    elif not ss and not cats and len(pads) == 1:
        w = pads[0].args[1]
        if w.kind in (K_TUPLE, K_LIST) and w.items and len(w.items) == 2:
            emb, where = w.items[0].sym, pads[0]
    if len(ss) == 1 and emb is not None:
        # the window the record is stored into lies inside the padded buffer for every record length: 0 <= offset and offset + n <= buffer
        # length (constant folding of the three symbolic integers over sample lengths; a slice that runs past the end of a NumPy array is
        # silently clipped, and the store then raises or truncates the record)
        from ..values import eval_linexpr, free_atoms
        base_ = ss[0].base
        blen = base_.shape[0] if (base_ is not None and base_.shape is not None and len(base_.shape) == 1) else None
        if blen is not None:
            try:
                fa_ = free_atoms(LinExpr(emb)) | free_atoms(LinExpr(blen))
            except ValueError:
                fa_ = None
            wit, unk = None, fa_ is None or not fa_ <= {"n"}
            if not unk:
                for n_ in list(range(2, 70)) + [100, 127, 128, 129, 255, 256, 257, 1000, 1023, 1024, 1025, 4683, 4684]:
                    try:
                        o_, b_ = eval_linexpr(LinExpr(emb), {"n": n_}), eval_linexpr(LinExpr(blen), {"n": n_})
                    except Exception:
                        unk = True
                        break
                    if o_ < 0 or o_ + n_ > b_:
                        wit = "n=%d: offset %s, buffer length %s" % (n_, o_, b_)
                        break
            chk.ob("R-BP-LEN", cc + ".window in bounds", "the record's window [offset, offset + n) lies inside the padded buffer for every record length",
                   wit is None and not unk, derived=("offset %r, buffer length %r" % (emb, blen)) + (" -- %s" % wit if wit else ""),
                   loc=ss[0].loc, stmt=ss[0].stmt, inconclusive=unk and wit is None)
    if emb is None or crop is None:
        chk.ob("R-BP-LEN", cc + ".alignment", "the offset of the record in the padded buffer is located", False,
               derived="%d slice store(s), %d concatenate(s), %d np.pad of the record; offset not derived" % (len(ss), len(cats), len(pads)),
               inconclusive=True, loc=crops[0].loc)
        return
    verdict, why = compare_index_exprs(emb, crop)
    chk.ob("R-BP-LEN", cc + ".alignment", "the filtered buffer is cropped at the offset at which the record was embedded", verdict == "equal",
           derived="embedded at %r, cropped at %r%s" % (emb, crop, "" if verdict == "equal" else " (%s)" % why), inconclusive=verdict == "unknown",
           loc=crops[0].loc if verdict != "differ" else where.loc, stmt=crops[0].stmt)


def _parent_block(root, node):
    for n in ast.walk(root):
        for fld in ("body", "orelse", "finalbody"):
            b = getattr(n, fld, None)
            if isinstance(b, list) and any(x is node for x in b):
                return b
    return []


# ---------------------------------------------------------------------------------------------------------------------
def poly_summary(chk, fi, c, rename):
    """canonical summary of one remove_poly implementation; the coefficient loop may be `for k in range(len(cofs))` with cofs[k] or
    `for k, c in enumerate(cofs or np.polyfit(...))`: both are summarised as index k, coefficient c_k, all coefficients used"""
    out = {}
    norm = Normaliser(rename=rename)
    fenv = straightline_env(fi.node.body, Normaliser(rename=rename), exclude=set(fi.params))
    calls = {ast.unparse(n.func).split(".")[-1]: n for n in ast.walk(fi.node) if isinstance(n, ast.Call)}
    ls = calls.get("linspace")
    out["abscissa"] = tuple(norm.arg(a) for a in ls.args) if ls is not None else None
    if out["abscissa"]:
        # a local bound once to the number of samples (npts = len(values)) is that number
        once = {}
        for m_ in ast.walk(fi.node):
            if isinstance(m_, ast.Assign) and len(m_.targets) == 1 and isinstance(m_.targets[0], ast.Name):
                once.setdefault(m_.targets[0].id, []).append(m_.value)
        out["abscissa"] = tuple(norm.arg(once[x][0]) if (x in once and len(once[x]) == 1 and norm.arg(once[x][0]) in
                                                         ("len(values)", "self.npts", "len(self.values)", "values.shape[0]", "values.size")) else x
                                for x in out["abscissa"])
        out["abscissa"] = tuple({"self.npts": "len(values)", "values.shape[0]": "len(values)", "values.size": "len(values)",
                                 "len(self.values)": "len(values)"}.get(x, x) for x in out["abscissa"])
    pf = calls.get("polyfit")
    out["fit"] = tuple(norm.arg(a) for a in pf.args) if pf is not None else None
    loops = [n for n in ast.walk(fi.node) if isinstance(n, ast.For)]
    if len(loops) == 1:
        lp = loops[0]
        it = lp.iter
        idx = coef = None
        src = None
        if isinstance(it, ast.Call) and ast.unparse(it.func) == "range" and len(it.args) == 1 and isinstance(it.args[0], ast.Call) and \
                ast.unparse(it.args[0].func) == "len" and isinstance(lp.target, ast.Name):
            idx, src = lp.target.id, it.args[0].args[0]
            coef = "%s[%s]" % (ast.unparse(src), idx)
        elif isinstance(it, ast.Call) and ast.unparse(it.func) == "enumerate" and len(it.args) == 1 and isinstance(lp.target, ast.Tuple) and \
                len(lp.target.elts) == 2 and all(isinstance(e, ast.Name) for e in lp.target.elts):
            idx, coef, src = lp.target.elts[0].id, lp.target.elts[1].id, it.args[0]
        # the sequence iterated over must be the polyfit result itself (directly or through a local bound once)
        srcp = fenv.poly(src).canon() if src is not None else None
        pfp = fenv.poly(pf).canon() if pf is not None else None
        out["range"] = "all coefficients of the fit" if (src is not None and srcp == pfp) else ("over %s" % srcp)
        ren = dict(rename)
        if idx:
            ren[idx] = "k"
        env = straightline_env(lp.body, Normaliser(rename=ren))
        incs = [n for n in ast.walk(lp) if isinstance(n, ast.AugAssign) and isinstance(n.op, ast.Add)]
        if not incs:
            # the terms collected in a list that is summed over its first axis afterwards: terms.append(T); np.sum(terms, axis=0)
            apps = [n for n in ast.walk(lp) if isinstance(n, ast.Call) and isinstance(n.func, ast.Attribute) and n.func.attr == "append" and
                    isinstance(n.func.value, ast.Name) and len(n.args) == 1]
            if len(apps) == 1:
                lst = apps[0].func.value.id
                sums = [n for n in ast.walk(fi.node) if isinstance(n, ast.Call) and ast.unparse(n.func) in ("np.sum", "numpy.sum", "sum") and n.args and
                        isinstance(n.args[0], ast.Name) and n.args[0].id == lst and
                        (ast.unparse(n.func) == "sum" or any(k.arg == "axis" and isinstance(k.value, ast.Constant) and k.value.value == 0 for k in n.keywords))]
                if len(sums) == 1:
                    incs = [type("Term", (), {"value": apps[0].args[0]})()]
        if len(incs) == 1 and isinstance(incs[0], ast.AugAssign) and isinstance(incs[0].target, ast.Name):
            # what the sum starts from: an exact zero array (0 * x, zeros) -- not something that merely simplifies to zero (0 / x is NaN at x = 0)
            acc = incs[0].target.id
            ini = [st for st in fi.node.body if isinstance(st, ast.Assign) and len(st.targets) == 1 and isinstance(st.targets[0], ast.Name) and
                   st.targets[0].id == acc and st.lineno < lp.lineno]
            if len(ini) == 1:
                v_ = ini[0].value
                zero_call = isinstance(v_, ast.Call) and ast.unparse(v_.func).split(".")[-1] in ("zeros", "zeros_like")
                zero_prod = isinstance(v_, ast.BinOp) and isinstance(v_.op, ast.Mult) and any(
                    isinstance(x_, ast.Constant) and x_.value == 0 and not isinstance(x_.value, bool) for x_ in (v_.left, v_.right))
                zero_lit = isinstance(v_, ast.Constant) and v_.value == 0 and not isinstance(v_.value, bool)
                out["start"] = "zero" if (zero_call or zero_prod or zero_lit) else " ".join(ast.unparse(v_).split())
        if len(incs) == 1 and coef is not None:
            ck = Normaliser(rename=ren).arg(ast.parse(coef, mode="eval").body)
            out["term"] = env.poly(incs[0].value).subst_atoms(lambda a_: "c_k" if a_ == ck else a_).canon()
        elif incs:
            out["term"] = None
        # no accumulation statement in the loop at all: the terms are combined some other way (reduce, sum of a generator ...), not located
    rets = [n for n in ast.walk(fi.node) if isinstance(n, ast.Return) and n.value is not None]
    if rets:
        out["result"] = norm.poly(rets[0].value).canon()
    else:
        rv = [n for n in ast.walk(fi.node) if isinstance(n, ast.Call) and isinstance(n.func, ast.Attribute) and n.func.attr == "reset_values"]
        if not rv:
            # the new values handed to another method of the object (a private storing helper): the one statement-level self.<m>(<expr>)
            rv = [n.value for n in fi.node.body if isinstance(n, ast.Expr) and isinstance(n.value, ast.Call) and isinstance(n.value.func, ast.Attribute) and
                  isinstance(n.value.func.value, ast.Name) and n.value.func.value.id == "self" and len(n.value.args) == 1 and not n.value.keywords and
                  n.value.func.attr != "clear_cache"]
            rv = rv if len(rv) == 1 else []
        out["result"] = norm.poly(rv[0].args[0]).canon() if rv else None
    if out.get("result"):
        # values minus ONE correction term, whatever the correction is called (a local, the value of a helper call)
        import re as _re
        m_ = _re.match(r"^(?:-1\*([A-Za-z_]\w*) \+ 1\*values|1\*values \+ -1\*([A-Za-z_]\w*))$", out["result"])
        if m_ and (m_.group(1) or m_.group(2)) != "values":
            out["result"] = "1*values + -1*y_cor"
    return out


def _delegates(chk, a, b):
    """method `a` hands (its values, poly_fit) to function `b` and stores / returns the result unchanged"""
    from ..program import local_imports_of
    li = local_imports_of(a)
    for n in ast.walk(a.node):
        if isinstance(n, ast.Call):
            r = chk.P.resolve_expr(a.module, n.func, li)
            if r and r[0] == "func" and r[1] is b:
                bp = list(b.params)
                bind = dict(zip(bp, n.args))
                bind.update({k.arg: k.value for k in n.keywords if k.arg})
                return set(bind) == set(bp) and ast.unparse(bind[bp[0]]) in ("self.values", "self._values") and \
                    isinstance(bind[bp[1]], ast.Name) and bind[bp[1]].id == bp[1]
    return False


def poly_rules(chk):
    P = chk.P
    a = P.fn(SIG + ".remove_poly")
    b = P.fn("eqsig.fns.generic.remove_poly")
    deleg = _delegates(chk, a, b)
    sb_ = poly_summary(chk, b, "generic.remove_poly", {})
    sa_ = poly_summary(chk, a, "Signal.remove_poly", {"self.values": "values"}) if not deleg else dict(sb_)
    # len(values) ~ self.npts
    def canon(s):
        d = dict(s)
        if d.get("abscissa"):
            d["abscissa"] = tuple(x.replace("self.npts", "len(values)") for x in d["abscissa"])
        return d
    sa_, sb_ = canon(sa_), canon(sb_)
    # field by field: a field located in both and different refutes; a field not located in one of them is inconclusive
    keys_ = sorted(set(sa_) | set(sb_))
    differ_ = [k for k in keys_ if sa_.get(k) is not None and sb_.get(k) is not None and sa_.get(k) != sb_.get(k)]
    missing_ = [k for k in keys_ if sa_.get(k) is None or sb_.get(k) is None]
    chk.ob("R-POLY-SIB", "Signal.remove_poly~generic.remove_poly", "equal summaries (abscissa, fit, range, term, result)",
           (not differ_ and not missing_) or deleg, derived="the method delegates to the function" if deleg else
           ("fields that differ: %s; not located: %s; %s vs %s" % (differ_, missing_, sa_, sb_)),
           loc=a.loc(), inconclusive=(not differ_ and bool(missing_)) or ("term" not in sa_ or "term" not in sb_))
    for nm, s, fi in (("Signal.remove_poly", sa_, a), ("generic.remove_poly", sb_, b)):
        if deleg and fi is a:
            continue
        c = "%s:%s" % (fi.module.relpath, nm)
        chk.ob("R-POLY-SIB", c + "{abscissa}", "x = linspace(0, 1, n)", s.get("abscissa") == ("0", "1", "len(values)"),
               derived="%s" % (s.get("abscissa"),), loc=fi.loc(), inconclusive=s.get("abscissa") is None)
        chk.ob("R-POLY-SIB", c + "{fit}", "polyfit(x, values, poly_fit)", s.get("fit") == ("x", "values", "poly_fit"), derived="%s" % (s.get("fit"),),
               loc=fi.loc())
        chk.ob("R-POLY-SIB", c + "{range}", "all coefficients of the fit are used", s.get("range") == "all coefficients of the fit", derived="%s" % s.get("range"),
               inconclusive="range" not in s,          # no coefficient loop in this design: nothing located
               loc=fi.loc())
        chk.ob("R-POLY-SIB", c + "{term}", "term k is c_k * x ** (poly_fit - k)", s.get("term") in
               ("1*(1*x)**(-1*k + 1*poly_fit)*c_k", "1*(1*x)**(1*poly_fit + -1*k)*c_k"), derived="%s" % s.get("term"), loc=fi.loc(),
               inconclusive="term" not in s)
        chk.ob("R-POLY-SIB", c + "{result}", "result = values - correction", s.get("result") == "1*values + -1*y_cor", derived="%s" % s.get("result"),
               loc=fi.loc(), inconclusive=s.get("result") is None)
        if "start" in s:
            chk.ob("R-POLY-SIB", c + "{start}", "the correction is summed up from an exact zero array (0 * x, zeros)", s["start"] == "zero",
                   derived="%s" % s["start"], loc=fi.loc())
    # typing: linear in the record, same length
    r = analyse(chk, "eqsig.fns.generic.remove_poly", lambda I, st, fi: dict(values=rec_array("values"), poly_fit=AV(
        kind=K_SCALAR, dtype="int", shape=(), sign=S_NONNEG, tags=frozenset(["p:poly_fit"]), sym=LinExpr("k"))))
    REACHED.update(r.I.stats["functions"])
    expect(chk, "R-POLY-SIB", "eqsig/fns/generic.py:remove_poly.result", r.ret, length="n", lin=[R], tags_has=["polyfit", "linspace"], loc=r.fi.loc())
    r = analyse(chk, SIG + ".remove_poly", lambda I, st, fi: dict(poly_fit=AV(kind=K_SCALAR, dtype="int", shape=(), sign=S_NONNEG, sym=LinExpr("k"))),
                self_cls=SIG)
    REACHED.update(r.I.stats["functions"])
    o = r.st.heap[r.self_obj.id]
    expect(chk, "R-POLY-SIB", "eqsig/single.py:Signal.remove_poly.values", o.attrs.get("_values"), length="n", lin=[R], tags_has=["polyfit"], loc=r.fi.loc())


# ---------------------------------------------------------------------------------------------------------------------
def _guard_key(test):
    """(condition name, polarity) of a guard test, whatever its spelling: polarity True means `test is true <=> the condition holds`"""
    pol = True
    while isinstance(test, ast.UnaryOp) and isinstance(test.op, ast.Not):
        test, pol = test.operand, not pol
    t = " ".join(ast.unparse(test).split())
    if isinstance(test, ast.Compare) and len(test.ops) == 1 and isinstance(test.ops[0], (ast.Eq, ast.NotEq)):
        sides = {" ".join(ast.unparse(x).split()) for x in (test.left, test.comparators[0])}
        if isinstance(test.ops[0], ast.NotEq):
            pol = not pol
        if "len(series)" in sides and sides & {"self.npts", "len(self.values)", "self._npts", "len(self._values)"}:
            return "same-length", pol
        if sides == {"new_signal.dt", "self.dt"}:
            return "same-dt", pol
    if isinstance(test, ast.Call) and t == "isinstance(new_signal, Signal)":
        return "is-signal", pol
    return None, None


def _guard_paths(chk, qual, construct, build, conditions, effect_callees):
    """Path enumeration with a branch oracle: when every condition holds the effect is reached and nothing is raised; when any one
    fails (the others holding) the routine raises and the effect is not reached.  Guard clauses, if/else nesting and negated tests
    are all the same thing to this rule."""
    P = chk.P
    fi = P.fn(qual)
    for failing in [None] + list(conditions):
        seen = set()

        def setup(I, failing=failing):
            def oracle(fr, node):
                if fr.fi.qualname != qual:
                    return True if fr.fi.qualname == SIG + ".add_series" else None
                key, pol = _guard_key(node.test)
                if key is None:
                    return None
                seen.add(key)
                holds = key != failing
                return holds if pol else (not holds)
            I.branch_oracle = oracle
            I.oracle_first = True       # the guard tests fold on the generic arguments (equal symbolic lengths); the path is chosen here
        r = analyse(chk, qual, build, self_cls=SIG, atoms=(R, DT, "R2"), setup=setup)
        eff = [e for e in r.I.events if e.kind == "call" and e.fn == qual and e.callee.split(".")[-1] in effect_callees]
        rs = [e for e in r.I.events if e.kind == "raise" and e.fn == qual]
        if failing is None:
            chk.ob("R-ADD-GUARD", construct + "{accepted}", "with %s holding the sum is stored and nothing is raised" % " and ".join(conditions),
                   len(eff) >= 1 and not rs and seen >= set(conditions), derived="%d store(s), %d raise(s), tests met: %s" % (len(eff), len(rs), sorted(seen)),
                   loc=fi.loc())
        else:
            chk.ob("R-ADD-GUARD", construct + "{rejected: not %s}" % failing, "raises and stores nothing", len(rs) >= 1 and not eff,
                   derived="%d store(s), %d raise(s)" % (len(eff), len(rs)), loc=fi.loc())


def add_rules(chk):
    P = chk.P
    _guard_paths(chk, SIG + ".add_series", "eqsig/single.py:Signal.add_series", lambda I, st, fi: dict(series=rec_array("series", atom="R2")),
                 ["same-length"], ("reset_values",))
    _guard_paths(chk, SIG + ".add_signal", "eqsig/single.py:Signal.add_signal",
                 lambda I, st, fi: dict(new_signal=make_signal(I, st, P.cls(SIG), name="new_signal", atom="R2")[1]),
                 ["is-signal", "same-dt"], ("add_series", "reset_values"))
    c = "eqsig/single.py:Signal.add_signal"
    # interpretation: accepted path adds the other signal's values through add_series
    def setup(I):
        I.branch_oracle = lambda fr, node: (True if fr.fi.qualname in (SIG + ".add_signal", SIG + ".add_series") else None)
    r = analyse(chk, SIG + ".add_signal", lambda I, st, fi: dict(new_signal=make_signal(I, st, P.cls(SIG), name="new_signal", atom="R2")[1]),
                self_cls=SIG, atoms=(R, DT, "R2"), setup=setup)
    REACHED.update(r.I.stats["functions"])
    o = r.st.heap[r.self_obj.id]
    expect(chk, "R-ADD-GUARD", c + ".values", o.attrs.get("_values"), length="n", tags_has=["p:new_signal.values", "attr:_values"],
           loc=r.fi.loc())
    for q, pname, pav in ((SIG + ".add_constant", "constant", scal("constant", S_ANY)), (SIG + ".add_series", "series", rec_array("series", atom="R2"))):
        fi = P.fn(q)
        r = analyse(chk, q, lambda I, st, fi, pname=pname, pav=pav: {pname: pav}, self_cls=SIG, atoms=(R, DT, "R2"), setup=setup)
        REACHED.update(r.I.stats["functions"])
        rv = [n for n in ast.walk(fi.node) if isinstance(n, ast.Call) and isinstance(n.func, ast.Attribute) and n.func.attr == "reset_values"]
        cc = "eqsig/single.py:Signal.%s" % fi.name
        if len(rv) == 1:
            p = Normaliser().poly(rv[0].args[0])
            want = Poly.atom("self.values") + Poly.atom(pname)
            chk.ob("R-ADD-GUARD", cc + "{sum}", "new values = values + %s (element-wise)" % pname, p == want, derived=p.canon(), loc=fi.loc(rv[0]),
                   stmt=norm_stmt(rv[0]))
        else:
            chk.ob("R-ADD-GUARD", cc + "{sum}", "one reset_values call", False, derived="%d" % len(rv), loc=fi.loc())
        o = r.st.heap[r.self_obj.id]
        expect(chk, "R-ADD-GUARD", cc + ".values", o.attrs.get("_values"), length="n", tags_has=["p:" + pname, "attr:_values"], loc=fi.loc())


# ---------------------------------------------------------------------------------------------------------------------
def window_table(fi, rename=None):
    """[(op, lhs, rhs) | None, ((lower | None, upper | None), ...)] per branch of the rolling-window loop, as polynomials in canonical
    names: the array inside np.mean(...) is X, the loop variable i; hoisted temporaries (h = int(width / 2), n = len(X)) are inlined;
    the mean may sit in every branch or once after the branches (which then only choose the slice bounds)."""
    loops = [n for n in ast.walk(fi.node) if isinstance(n, ast.For) and any(isinstance(x, ast.If) for x in n.body) and
             any(isinstance(c, ast.Call) and ast.unparse(c.func).split(".")[-1] == "mean" for c in ast.walk(n))]
    if len(loops) != 1:
        return None, None
    lp = loops[0]
    means = [c for c in ast.walk(lp) if isinstance(c, ast.Call) and ast.unparse(c.func).split(".")[-1] == "mean" and c.args and
             isinstance(c.args[0], ast.Subscript) and isinstance(c.args[0].value, ast.Name)]
    # the mean taken once after the branches over a name each branch binds to its slice:  chunk = X[lo:hi] ... np.mean(chunk)
    named = [c for c in ast.walk(lp) if isinstance(c, ast.Call) and ast.unparse(c.func).split(".")[-1] == "mean" and c.args and
             isinstance(c.args[0], ast.Name)]
    chunk = None
    if not means and len(named) == 1:
        chunk = named[0].args[0].id
        defs = [st for st in ast.walk(lp) if isinstance(st, ast.Assign) and len(st.targets) == 1 and isinstance(st.targets[0], ast.Name) and
                st.targets[0].id == chunk]
        if defs and all(isinstance(d.value, ast.Subscript) and isinstance(d.value.value, ast.Name) and isinstance(d.value.slice, ast.Slice) for d in defs) and \
                len({d.value.value.id for d in defs}) == 1:
            means = [ast.Call(func=named[0].func, args=[d.value], keywords=[]) for d in defs]
            chunk_defs = {id(d): m for d, m in zip(defs, means)}
        else:
            chunk = None
    if not means:
        return None, None
    arr = means[0].args[0].value.id
    ren = {arr: "X"}
    loopvar = lp.target.id if isinstance(lp.target, ast.Name) else None
    if loopvar and loopvar != "i":
        ren[loopvar] = "i"
    fenv = straightline_env(fi.node.body, Normaliser(rename=ren), exclude=set(fi.params) | {loopvar, arr})
    rows = []
    top = [x for x in lp.body if isinstance(x, ast.If)][0]
    after = [c for c in means if not any(c is y for y in ast.walk(top))] if chunk is None else []

    def bound(env, e, upper=False):
        if e is None or (isinstance(e, ast.Constant) and e.value is None):
            return None
        p = env.poly(e)
        # an explicit 0 as lower bound, an explicit len(X) as upper bound: the open end
        if (not upper and p == Poly.const(0)) or (upper and p.canon() in ("1*len(X)", "1*X.shape[0]", "1*X.size")):
            return None
        return None if p == Poly.atom("None") else p

    def branch(cond, body):
        env = Normaliser(rename=ren)
        env.env = dict(fenv.env)
        straightline_env(body, env)
        reads = []
        in_body = [c for st in body for c in ast.walk(st) if any(c is m for m in means)] if chunk is None else \
            [chunk_defs[id(d)] for st in body for d in ast.walk(st) if id(d) in chunk_defs]
        for c in in_body + after:
            sl = c.args[0].slice
            if isinstance(sl, ast.Slice):
                reads.append((bound(env, sl.lower), bound(env, sl.upper, upper=True)))
        rows.append((cond, tuple(reads)))
    node = top
    while True:
        t = node.test
        branch((type(t.ops[0]).__name__, fenv.poly(t.left), fenv.poly(t.comparators[0])) if isinstance(t, ast.Compare) and len(t.ops) == 1 else
               ("?", None, None), node.body)
        if len(node.orelse) == 1 and isinstance(node.orelse[0], ast.If):
            node = node.orelse[0]
        else:
            branch(None, node.orelse)
            break
    return rows, lp


def clipped_window(fi):
    """(ok, text) for a rolling loop without branches whose window is X[max(i - H, 0) : i + H + 1] with H = int(<width> / 2); None if there is
    no such loop"""
    import re
    loops = [n for n in ast.walk(fi.node) if isinstance(n, ast.For) and not any(isinstance(x, ast.If) for x in ast.walk(n)) and
             isinstance(n.target, ast.Name)]
    hits = []
    for lp in loops:
        for c in ast.walk(lp):
            if isinstance(c, ast.Call) and ast.unparse(c.func).split(".")[-1] == "mean" and c.args and isinstance(c.args[0], ast.Subscript) and \
                    isinstance(c.args[0].value, ast.Name) and isinstance(c.args[0].slice, ast.Slice):
                hits.append((lp, c))
    if len(hits) != 1:
        return None
    lp, c = hits[0]
    ren = {c.args[0].value.id: "X", lp.target.id: "i"}
    env = straightline_env(fi.node.body, Normaliser(rename=ren), exclude=set(fi.params) | {lp.target.id, c.args[0].value.id})
    sl = c.args[0].slice
    if sl.step is not None or sl.lower is None or sl.upper is None:
        return None
    lo = sl.lower
    if not (isinstance(lo, ast.Call) and ast.unparse(lo.func) in ("max", "np.maximum", "numpy.maximum") and len(lo.args) == 2 and not lo.keywords):
        return None
    i_ = Poly.atom("i")
    parts = [env.poly(a) for a in lo.args]
    zero = [p for p in parts if p == Poly.const(0)]
    other = [p for p in parts if p != Poly.const(0)]
    if len(zero) != 1 or len(other) != 1:
        return False, " ".join(ast.unparse(c.args[0]).split())
    H = i_ - other[0]
    hi = env.poly(sl.upper)
    hs = H.canon()
    ok = hi == i_ + H + Poly.const(1) and H.is_monomial() and re.match(r"^1\*int\(1/2\*.+\)$", hs) is not None
    return ok, "X[max(i - %s, 0) : %s]" % (hs, hi.canon())


def _show_table(t):
    def p(x):
        return "" if x is None else x.canon()
    return [((c[0] + " " + p(c[1]) + " ? " + p(c[2])) if c else "else", [(p(lo), p(hi)) for lo, hi in reads]) for c, reads in (t or [])]


def rolling_rules(chk):
    P = chk.P
    ra = P.fn(SIG + ".running_average")
    rr = P.fn(ACC + ".remove_rolling_average")
    ta, la = window_table(ra)
    tb, lb = window_table(rr)
    oks = []
    unloc = []
    for nm, t, fi in (("Signal.running_average", ta, ra), ("AccSignal.remove_rolling_average", tb, rr)):
        good = [False, False, False]
        if t and len(t) == 3 and t[0][0] is not None and t[0][0][0] == "Lt" and t[0][0][1] == Poly.atom("i") and t[2][0] is None:
            half = t[0][0][2]                                   # the window's half width w/2, whatever the width is called or derived from
            ex = Normaliser(env={"Z": half})
            H = ex.poly(ast.parse("int(Z)", mode="eval").body)
            i_ = Poly.atom("i")
            one = Poly.const(1)
            want = [(("Lt", i_, half), ((None, i_ + H + one),)),
                    (("Gt", i_, ex.poly(ast.parse("len(X) - Z", mode="eval").body)), ((i_ - H, None),)),
                    (None, ((i_ - H, i_ + H + one),))]
            good = [t[k] == want[k] for k in range(3)]
        elif t and len(t) == 2 and t[0][0] is not None and t[0][0][0] == "Lt" and t[0][0][1] == Poly.atom("i") and t[1][0] is None:
            # without the tail branch: [i-h : i+h+1] already stops at the end of the record (a slice bound past the end is the end), so the
            # two-way table  i < w/2: [:i+h+1]  else [i-h:i+h+1]  selects the same windows
            half = t[0][0][2]
            ex = Normaliser(env={"Z": half})
            H = ex.poly(ast.parse("int(Z)", mode="eval").body)
            i_ = Poly.atom("i")
            one = Poly.const(1)
            ok2 = t[0] == (("Lt", i_, half), ((None, i_ + H + one),)) and t[1] == (None, ((i_ - H, i_ + H + one),))
            good = [ok2, ok2, ok2]
        # a loop without a three-way decision on the index (window bounds precomputed, clipped, vectorised ...) is a different design: the
        # table cannot be located in it and the rule does not decide it; a three-way table that differs is refuted
        # (a branch of the table that holds no window slice -- the bounds are computed in a helper, returned as a pair, chosen by conditional
        # expressions -- is not a located row)
        located = bool(t) and len(t) >= 2 and all(len(row) >= 2 and row[1] for row in t)
        if located:
            import re as _re

            def _plain(p_):
                # bounds written in terms of the loop index and the width only; a bare local the rule cannot see through (`hi`) is not read
                return p_ is None or all(a_ == "i" or not _re.fullmatch(r"[A-Za-z_]\w*", a_) or a_ in fi.params for a_ in p_.atoms())
            located = all((row[0] is None or (isinstance(row[0], tuple) and row[0][0] in ("Lt", "Gt", "LtE", "GtE"))) and
                          all(_plain(lo_) and _plain(hi_) for lo_, hi_ in row[1]) for row in t)
        if not located:
            cw = clipped_window(fi)
            if cw is not None:
                # one window for every index, its lower bound clipped at the start of the record: X[max(i - h, 0) : i + h + 1], h = int(w/2).
                # It selects the table's windows: i < w/2 gives i <= h, so max(i - h, 0) = 0; i > n - w/2 gives i + h + 1 > n, and a slice
                # bound past the end is the end; where both apply the table takes its first row, [: i + h + 1], as the clipped form does
                located = True
                good = [cw[0], cw[0], cw[0]]
                t = None
                chk.note("%s: window written as one clipped slice %s" % (nm, cw[1]))
        unloc.append(not located)
        chk.ob("R-RA-SIB", "eqsig/single.py:%s{window table}" % nm, "windows [:i+h+1] / [i-h:] / [i-h:i+h+1] with h = int(w/2), branches i < w/2, "
               "i > n - w/2, else", all(good), derived="%s" % (_show_table(t),), loc=fi.loc(), inconclusive=not located)
        for k in range(3):
            chk.ob("R-RA-SIB", "eqsig/single.py:%s{branch %d}" % (nm, k), "branch %d of the window table" % k, good[k],
                   derived="%s" % (_show_table(t)[k] if t and k < len(t) else "?",), loc=fi.loc(), nontrivial=False, inconclusive=not located)
        oks.append(all(good))
    chk.ob("R-RA-SIB", "running_average~remove_rolling_average", "the two loops have the same window table (each in terms of its own width)",
           all(oks), derived="both match the table: %s" % oks, inconclusive=any(unloc))
    # ---- aliasing: writes and windowed reads inside the loop
    for q, cls in ((SIG + ".running_average", SIG), (ACC + ".remove_rolling_average", ACC)):
        fi = P.fn(q)
        for variant in (("velocity", "values") if q.endswith("remove_rolling_average") else (None,)):
            def build(I, st, fi, variant=variant):
                d = {}
                if variant is not None:
                    d["mtype"] = const_av("velocity" if variant == "velocity" else "acc")
                if "width" in fi.params:        # any window width, not the default one
                    d["width"] = AV(kind=K_SCALAR, dtype="int", shape=(), sign=S_POS, origin=frozenset(["lit"]), tags=frozenset(["p:width"]),
                                    sym=LinExpr("w"))
                return d
            r = analyse(chk, q, build, self_cls=cls)
            REACHED.update(r.I.stats["functions"])
            cc = "eqsig/single.py:%s%s" % (q.split(".", 2)[2], "" if variant is None else "(mtype=%s)" % variant)
            o_ = r.st.heap[r.self_obj.id]
            tgt_attr = "_values" if variant in (None, "values") else None
            if tgt_attr:
                # one mean per original sample, however the means are computed (a library routine whose output length follows the longer
                # of its operands does not keep it)
                expect(chk, "R-RA-LEN", cc + ".values", o_.attrs.get(tgt_attr), length="n", kind=K_ARRAY, loc=fi.loc())
            loops = [n for n in ast.walk(fi.node) if isinstance(n, ast.For)]
            in_loop = lambda node: node is not None and any(node is x for lp in loops for x in ast.walk(lp))
            writes = [e for e in r.events("mutation", q) if e.how in ("subscript-store", "augassign-subscript") and in_loop(e.node)]
            wtok = frozenset().union(*[e.origins for e in writes]) - {"lit", "?"} if writes else frozenset()
            reads = [e for e in r.events("subscript", q) if in_loop(e.node) and e.index.kind == K_SLICE and (e.base.origin & wtok)]
            cc = "eqsig/single.py:%s%s" % (q.split(".", 2)[2], "" if variant is None else "(mtype=%s)" % variant)
            chk.ob("R-RA-ALIAS", cc, "windowed reads inside the loop never alias the array being stored element by element",
                   bool(writes) and not reads,
                   derived=("%d store site(s); windowed read of the same storage at %s" % (len(writes), sorted({e.loc for e in reads})))
                   if reads else "%d store site(s) into %s; no windowed read of it" % (len(writes), sorted(wtok)),
                   loc=reads[0].loc if reads else fi.loc(), stmt=reads[0].stmt if reads else None,
                   detail="later windows average already-averaged samples" if reads else None, inconclusive=not writes)


# ---------------------------------------------------------------------------------------------------------------------
def libns_rule(chk):
    P = chk.P
    seen = {}
    for q in sorted(REACHED):
        fi = P.functions.get(q)
        if fi is None:
            continue
        li = local_imports_of(fi)
        for n in ast.walk(fi.node):
            if isinstance(n, (ast.Attribute, ast.Name)):
                if isinstance(n, ast.Attribute) and isinstance(getattr(n, "ctx", None), ast.Store):
                    continue
                r = P.resolve_expr(fi.module, n, li)
                if r and r[0] == "lib":
                    seen.setdefault((q, r[1]), n)
    # keep the longest chain only (np.fft.fft, not np.fft)
    names = {}
    for (q, name), node in seen.items():
        names.setdefault(q, {})[name] = node
    total = 0
    for q, d in sorted(names.items()):
        fi = P.functions[q]
        keep = [n for n in d if not any(o != n and o.startswith(n + ".") for o in d)]
        for name in sorted(keep):
            ex = libns.exists(name)
            total += 1
            chk.ob("R-LIBNS", "%s:%s{%s}" % (fi.module.relpath, q.split(".", 1)[1], name), "%s exists in the installed library" % name,
                   ex is True, derived={True: "exported", False: "NOT exported by the installed %s" % name.split(".")[0], None: "cannot be resolved statically"}[ex],
                   loc=fi.loc(d[name]), stmt=norm_stmt(d[name]), inconclusive=ex is None,
                   detail="evaluating it raises AttributeError (array cut-offs reach it: list/tuple pass only because `or` short-circuits)"
                   if (ex is False and name == "numpy.Array") else None, nontrivial=True)
    # off-property: the rest of the package, notes only
    for fi in P.all_functions():
        if fi.qualname in REACHED:
            continue
        li = local_imports_of(fi)
        for n in ast.walk(fi.node):
            if isinstance(n, ast.Attribute):
                r = P.resolve_expr(fi.module, n, li)
                if r and r[0] == "lib" and libns.exists(r[1]) is False:
                    chk.note("off-property: %s references %s, absent from the installed library (%s)" % (fi.qualname, r[1], fi.loc(n)))

"""C01 -- SDOF response series: the three structural clauses (T=0 row, third series, entry-point forwarding).

The headline clause (equality with the exact solution) is numerical and is NOT decided here."""
import ast
import math
from fractions import Fraction

from ..tyob import *  # noqa
from ..tyob import analyse, expect, item, unmodelled_in, check_forwarder
from ..poly import Normaliser, straightline_env, Poly
from ..program import norm_stmt
from .c02 import periods_av, xi_av, std_args, NJR, T

ACC = "eqsig.single.AccSignal"


def run(chk):
    P = chk.P
    chk.rule("R-T0", "offset s is 1 exactly when periods[0] == 0; every recurrence store has row slice s: (rows < s keep their "
                     "np.zeros value); with s = 1 the third result's row 0 is assigned minus the record")
    chk.rule("R-ACC", "on both branches the third result equals -2*xi*w*v - w^2*u on rows s: (linear form of the stored expression, "
                      "u/v = first/second returned array), with w = c/periods, c = 2*pi to 1e-6")
    chk.rule("R-FWD", "response_series and AccSignal.response_series forward (record, dt, periods, xi) by role and return the "
                      "three series in callee order")
    fi = P.fn(NJR)
    c = "%s:%s" % (fi.module.relpath, fi.name)
    chk.files.add(fi.module.relpath)
    # ------------------------------------------------------------------ names by role
    rets = [n for n in ast.walk(fi.node) if isinstance(n, ast.Return) and isinstance(n.value, ast.Tuple) and len(n.value.elts) == 3
            and all(isinstance(e, ast.Name) for e in n.value.elts)]
    if len(rets) != 1:
        chk.ob("R-ACC", c, "one `return u, v, a` of three named arrays", False, derived="%d such returns" % len(rets),
               inconclusive=True, loc=fi.loc())
        return
    U, V, A = [e.id for e in rets[0].value.elts]
    rec, dtp, per, xi = fi.params[:4]
    norm = straightline_env(fi.node.body, Normaliser())
    # ------------------------------------------------------------------ R-T0: the branch that selects s
    sel = None
    for n in ast.walk(fi.node):
        if isinstance(n, ast.If) and isinstance(n.test, ast.Compare) and len(n.test.ops) == 1:
            l, r0 = n.test.left, n.test.comparators[0]
            if isinstance(l, ast.Subscript) and isinstance(l.value, ast.Name) and l.value.id == per and \
                    isinstance(l.slice, ast.Constant) and l.slice.value == 0 and isinstance(r0, ast.Constant) and r0.value == 0:
                sel = n
    if sel is None:
        chk.ob("R-T0", c + "{selector}", "a test `periods[0] == 0` selects the offset", False, derived="not found", loc=fi.loc())
        return
    op = type(sel.test.ops[0]).__name__

    def const_assign(stmts):
        d = {}
        for st in stmts:
            if isinstance(st, ast.Assign) and isinstance(st.targets[0], ast.Name) and isinstance(st.value, ast.Constant):
                d[st.targets[0].id] = st.value.value
        return d
    tb, fb = const_assign(sel.body), const_assign(sel.orelse)
    svar = [k for k in tb if k in fb and {tb[k], fb[k]} == {0, 1}]
    if len(svar) != 1:
        chk.ob("R-T0", c + "{selector}", "the test assigns an offset in {0, 1} on both branches", False,
               derived="then %s else %s" % (tb, fb), loc=fi.loc(sel))
        return
    s = svar[0]
    when_zero = tb[s] if op == "Eq" else (fb[s] if op == "NotEq" else None)
    chk.ob("R-T0", c + "{selector}", "offset is 1 exactly when periods[0] == 0", when_zero == 1,
           derived="offset %s = %r when periods[0] == 0 (test %s)" % (s, when_zero, op), loc=fi.loc(sel), stmt=norm_stmt(sel.test))
    # ------------------------------------------------------------------ R-T0: recurrence stores use the row slice s:
    n_st = 0
    for n in ast.walk(fi.node):
        if isinstance(n, ast.For):
            for st in ast.walk(n):
                if isinstance(st, (ast.Assign, ast.AugAssign)):
                    ts = st.targets if isinstance(st, ast.Assign) else [st.target]
                    for t in ts:
                        if isinstance(t, ast.Subscript) and isinstance(t.value, ast.Name) and t.value.id in (U, V):
                            n_st += 1
                            comps = t.slice.elts if isinstance(t.slice, ast.Tuple) else [t.slice]
                            row = comps[0]
                            ok = isinstance(row, ast.Slice) and isinstance(row.lower, ast.Name) and row.lower.id == s and \
                                row.upper is None and row.step is None
                            chk.ob("R-T0", c + "{recurrence-store}", "store rows are `%s:` (rows below the offset stay zero)" % s, ok,
                                   derived="row index `%s`" % ast.unparse(row), loc=fi.loc(st), stmt=norm_stmt(st))
    if n_st == 0:
        chk.ob("R-T0", c + "{recurrence-store}", "recurrence stores found", False, derived="none", inconclusive=True, loc=fi.loc())
    # ------------------------------------------------------------------ R-T0: row 0 of the third series = -record
    row0 = []
    for n in ast.walk(fi.node):
        if isinstance(n, ast.Assign) and isinstance(n.targets[0], ast.Subscript) and isinstance(n.targets[0].value, ast.Name) \
                and n.targets[0].value.id == A and isinstance(n.targets[0].slice, ast.Constant) and n.targets[0].slice.value == 0:
            row0.append(n)
    if len(row0) != 1:
        chk.ob("R-T0", c + "{T=0 row}", "one assignment to row 0 of the third series", False, derived="%d found" % len(row0), loc=fi.loc())
    else:
        p = norm.poly(row0[0].value)
        want = -Poly.atom(rec)
        chk.ob("R-T0", c + "{T=0 row}", "row 0 of the third series is minus the record", p == want,
               derived="assigned %s (record parameter `%s`)" % (p.canon(), rec), loc=fi.loc(row0[0]), stmt=norm_stmt(row0[0]))
        # it must sit on the branch where the offset is non-zero
        guarded = False
        for n in ast.walk(fi.node):
            if isinstance(n, ast.If) and isinstance(n.test, ast.Name) and n.test.id == s and any(row0[0] is x for b in n.body for x in ast.walk(b)):
                guarded = True
        chk.ob("R-T0", c + "{T=0 row guard}", "the row-0 assignment is on the branch `if %s`" % s, guarded,
               derived="guarded by `if %s`: %s" % (s, guarded), loc=fi.loc(row0[0]))
    # ------------------------------------------------------------------ R-ACC
    wname = None
    for st in fi.node.body:
        if isinstance(st, ast.Assign) and isinstance(st.targets[0], ast.Name):
            p = Normaliser().poly(st.value).subst_atoms(lambda a: a.split("[")[0])
            if p.is_monomial():
                (m, co), = p.t.items()
                if dict(m) == {per: Fraction(-1)}:
                    wname = st.targets[0].id
                    chk.ob("R-ACC", c + "{w}", "w = 2*pi / periods (constant within 1e-6 of 2*pi)", abs(float(co) - 2 * math.pi) < 1e-6,
                           derived="w = %s / %s" % (float(co), per), loc=fi.loc(st), stmt=norm_stmt(st))
                elif dict(m) == {per: Fraction(-1), "pi": Fraction(1)}:
                    wname = st.targets[0].id
                    chk.ob("R-ACC", c + "{w}", "w = 2*pi / periods", co == 2, derived="w = %s*pi / %s" % (co, per), loc=fi.loc(st),
                           stmt=norm_stmt(st))
    if wname is None:
        chk.ob("R-ACC", c + "{w}", "a definition w = c / periods", False, derived="not found", loc=fi.loc(), inconclusive=True)
        return
    strip = lambda a: a.split("[")[0]
    w = Poly.atom(wname)
    want = -(Poly.const(2) * Poly.atom(xi) * w * Poly.atom(V)) - w * w * Poly.atom(U)
    norm2 = straightline_env(fi.node.body, Normaliser(), exclude={wname, U, V, A} | set(fi.params))
    found = []
    for n in ast.walk(fi.node):
        if isinstance(n, ast.Assign) and len(n.targets) == 1:
            t = n.targets[0]
            tn = t.id if isinstance(t, ast.Name) else (t.value.id if isinstance(t, ast.Subscript) and isinstance(t.value, ast.Name) else None)
            if tn != A or not isinstance(n.value, (ast.BinOp, ast.UnaryOp)):
                continue
            p = norm2.poly(n.value).subst_atoms(strip)
            rows_ok = True
            if isinstance(t, ast.Subscript):
                rows_ok = isinstance(t.slice, ast.Slice) and isinstance(t.slice.lower, ast.Name) and t.slice.lower.id == s
            # operands must be read on the same rows s:
            for sub in ast.walk(n.value):
                if isinstance(sub, ast.Subscript) and isinstance(sub.value, ast.Name) and sub.value.id in (U, V):
                    sl = sub.slice
                    if not (isinstance(sl, ast.Slice) and isinstance(sl.lower, ast.Name) and sl.lower.id == s and sl.upper is None):
                        rows_ok = False
            found.append(n)
            chk.ob("R-ACC", c + "{third series}", "-(2*xi*w*v + w^2*u) with u=%s, v=%s" % (U, V), p == want,
                   derived=p.canon(), loc=fi.loc(n), stmt=norm_stmt(n))
            chk.ob("R-ACC", c + "{third series rows}", "computed and stored on rows %s:" % s, rows_ok,
                   derived="rows consistent: %s" % rows_ok, loc=fi.loc(n), stmt=norm_stmt(n))
    if not found:
        chk.ob("R-ACC", c + "{third series}", "an arithmetic definition of the third series", False, derived="none found",
               inconclusive=True, loc=fi.loc())
    # typing cross-check on both paths of the selector: third series linear in the record
    for choice in (True, False):
        def oracle(fr, node, choice=choice):
            return choice if (fr.fi is fi and node is _same_if(fi, sel)) else None

        def setup(I):
            I.branch_oracle = lambda fr, node: (choice if (fr.fi.qualname == NJR and isinstance(node.test, ast.Compare)
                                                           and ast.unparse(node.test) == ast.unparse(sel.test)) else None)
        r = analyse(chk, NJR, std_args(), atoms=(R, DT, T), setup=setup)
        expect(chk, "R-ACC", c + "(periods[0]==0: %s).a" % choice, item(r.ret, 2), lin=[R], loc=fi.loc())
        x = item(r.ret, 2)
        chk.ob("R-ACC", c + "(periods[0]==0: %s).a[shape]" % choice, "third series has one row per period and the record's length",
               x is not None and x.shape is not None and len(x.shape) == 2 and x.shape[1] == LinExpr("n") and
               (x.shape[0] == LinExpr("P")), derived="shape %r" % (x.shape if x is not None else None,), loc=fi.loc())
    # ------------------------------------------------------------------ R-FWD
    check_forwarder(chk, "R-FWD", "eqsig.sdof.response_series", NJR, roles={"acc": "motion"})
    check_forwarder(chk, "R-FWD", ACC + ".response_series", "eqsig.sdof.response_series",
                    roles={"__ignore__": ("response_times",)},
                    self_map={"motion": "self.values", "dt": "self.dt", "periods": "self.response_times"})

    def setup_t(I):
        I.tag_returns = {NJR}
    r = analyse(chk, ACC + ".response_series", lambda I, st, fi: dict(xi=xi_av()), self_cls=ACC, atoms=(R, DT, T), setup=setup_t)
    cc = "eqsig/single.py:AccSignal.response_series"
    expect(chk, "R-FWD", cc, r.ret, items=3, loc=r.fi.loc())
    for i in range(3):
        x = item(r.ret, i)
        got = sorted(t for t in (x.tags if x is not None else ()) if t.startswith("ret:"))
        chk.ob("R-FWD", cc + ".result[%d]" % i, "result %d is series %d of the response routine" % (i, i),
               got == ["ret:nigam_and_jennings_response#%d" % i], derived="%s" % got, loc=r.fi.loc())
    calls = [e for e in r.I.events if e.kind == "call" and e.callee == NJR]
    if len(calls) == 1:
        b = calls[0].bound
        o = r.st.heap[r.self_obj.id]
        rt = "attr:_response_times" if "_response_times" in o.attrs else "attr:response_times"
        for pname, tag, nots in ((rec, "attr:_values", ["attr:_dt"]), (dtp, "attr:_dt", ["attr:_values"]), (per, rt, ["attr:_values", "attr:_dt"]),
                                 (xi, "p:xi", ["attr:_values", "attr:_dt"])):
            expect(chk, "R-FWD", cc + ".arg[%s]" % pname, b[pname], tags_has=[tag], tags_not=nots, loc=calls[0].loc)
    else:
        chk.ob("R-FWD", cc, "one call reaching the response routine", False, derived="%d" % len(calls), loc=r.fi.loc())
    from .c03 import xi_sentinel
    xi_sentinel(chk, P.fn(ACC + ".response_series"), cc, "R-FWD")
    chk.floor("R-T0", 5)
    chk.floor("R-ACC", 9)
    chk.floor("R-FWD", 12)


def _same_if(fi, sel):
    return sel

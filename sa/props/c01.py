"""C01 -- SDOF response series: the three structural clauses (T=0 row, third series, entry-point forwarding).

The headline clause (equality with the exact solution) is numerical and is NOT decided here."""
import ast
import math
from fractions import Fraction

from ..tyob import *  # noqa
from ..tyob import analyse, expect, item, unmodelled_in, check_forwarder
from ..poly import Normaliser, straightline_env, Poly
from ..program import norm_stmt
from .c02 import periods_av, xi_av, std_args, NJR, T

ACC = "eqsig.single.AccSignal"


def run(chk):
    P = chk.P
    # an integer-typed record: every step of the recurrence is a real number; stored into buffers that inherit the record's dtype it is truncated
    from ..tyob import no_truncation as _no_trunc
    _fi0 = chk.P.fn("eqsig.sdof.nigam_and_jennings_response")
    _no_trunc(chk, "R-NJ-REC", "eqsig.sdof.nigam_and_jennings_response",
              lambda I, st, fi: {fi.params[0]: rec_array(fi.params[0], dtype="int"), fi.params[1]: pos_scalar("dt", DT),
                                 fi.params[2]: AV(kind=K_ARRAY, dtype="real", shape=(LinExpr("P"),), sign=S_NONNEG, origin=frozenset(["p:periods"]),
                                                  tags=frozenset(["p:periods"])),
                                 fi.params[3]: AV(kind=K_SCALAR, dtype="real", shape=(), sign=S_NONNEG, origin=frozenset(["lit"]), tags=frozenset(["p:xi"]), note="pyscalar")},
              "eqsig/sdof.py:nigam_and_jennings_response(integer-typed record)", what="an integer-typed record")
    chk.rule("R-T0", "offset s is 1 exactly when periods[0] == 0; every recurrence store has row slice s: (rows < s keep their "
                     "np.zeros value); with s = 1 the third result's row 0 is assigned minus the record")
    chk.rule("R-ACC", "on both branches the third result equals -2*xi*w*v - w^2*u on rows s: (linear form of the stored expression, "
                      "u/v = first/second returned array), with w = c/periods, c = 2*pi to 1e-6")
    chk.rule("R-FWD", "response_series and AccSignal.response_series forward (record, dt, periods, xi) by role and return the "
                      "three series in callee order")
    chk.rule("R-NJ-COEF", "each of the eight entries of the propagator matrices A, B returned by compute_a_and_b equals the Nigam-Jennings "
                          "closed form as a rational function of xi, w, dt and E = exp(-xi w dt), Q = sqrt(1-xi^2), S/C = sin/cos(w Q dt) "
                          "(polynomial normal form of the source against the checker's reference table)")
    chk.rule("R-NJ-REC", "the recurrence is x[i+1] = A x[i] + B (load[i], load[i+1]) for every step i = 0..n-2, with (A, B) = "
                         "compute_a_and_b(xi, w, dt) and load = minus the record")
    nj_rules(chk)
    fi = P.fn(NJR)
    c = "%s:%s" % (fi.module.relpath, fi.name)
    chk.files.add(fi.module.relpath)
    # ------------------------------------------------------------------ names by role
    if len(fi.params) >= 4 and _t0_early_return(chk, fi, c, fi.params[0], fi.params[2]):
        chk.floor("R-NJ-COEF", 8)
        return
    names = nj_names(fi)
    if names is None:
        chk.ob("R-ACC", c, "every return is `return u, v, a` of three named arrays with the same u, v", False, derived="not of that shape",
               inconclusive=True, loc=fi.loc())
        return
    U, V, THIRD, rets = names
    A = sorted(THIRD)[0]
    from ..normalise import guards_to_ifelse
    canon = ast.Module(body=guards_to_ifelse(fi.node.body), type_ignores=[])
    rec, dtp, per, xi = fi.params[:4]
    norm = straightline_env(fi.node.body, Normaliser())
    # ------------------------------------------------------------------ R-T0: the branch that selects s
    sel, first_is_zero_test = _t0_selector(fi, per)
    if sel is not None and not isinstance(sel.test, ast.Compare):
        sel_test = first_is_zero_test(sel.test)
    else:
        sel_test = sel.test if sel is not None else None
    if sel is None:
        chk.ob("R-T0", c + "{selector}", "a test `periods[0] == 0` selects the offset", False, derived="not found (the design with a row offset chosen by such a test is the one this rule knows)",
               inconclusive=True, loc=fi.loc())
        return
    op = type(sel_test.ops[0]).__name__
    thr = sel_test.comparators[0].value
    if thr != 0:
        chk.ob("R-T0", c + "{selector}", "the rigid row is selected by `periods[0] == 0` (a period of exactly 0, nothing else)", False,
               derived="selected by %s" % " ".join(ast.unparse(sel_test).split()), loc=fi.loc(sel), stmt=norm_stmt(sel.test))
        return

    def const_assign(stmts):
        d = {}
        for st in stmts:
            if isinstance(st, ast.Assign) and isinstance(st.targets[0], ast.Name) and isinstance(st.value, ast.Constant):
                d[st.targets[0].id] = st.value.value
        return d
    tb, fb = const_assign(sel.body), const_assign(sel.orelse)
    svar = [k for k in tb if k in fb and {tb[k], fb[k]} == {0, 1}]
    if len(svar) != 1:
        chk.ob("R-T0", c + "{selector}", "the test assigns an offset in {0, 1} on both branches", False,
               derived="then %s else %s" % (tb, fb), inconclusive=True, loc=fi.loc(sel))
        return
    s = svar[0]
    when_zero = tb[s] if op == "Eq" else (fb[s] if op == "NotEq" else None)
    chk.ob("R-T0", c + "{selector}", "offset is 1 exactly when periods[0] == 0", when_zero == 1,
           derived="offset %s = %r when periods[0] == 0 (test %s)" % (s, when_zero, op), loc=fi.loc(sel), stmt=norm_stmt(sel.test))
    # ------------------------------------------------------------------ R-T0: recurrence stores use the row slice s:
    n_st = 0
    for n in ast.walk(fi.node):
        if isinstance(n, ast.For):
            for st in ast.walk(n):
                if isinstance(st, (ast.Assign, ast.AugAssign)):
                    ts = st.targets if isinstance(st, ast.Assign) else [st.target]
                    for t in ts:
                        if isinstance(t, ast.Subscript) and isinstance(t.value, ast.Name) and t.value.id in (U, V):
                            n_st += 1
                            comps = t.slice.elts if isinstance(t.slice, ast.Tuple) else [t.slice]
                            row = comps[0]
                            ok = isinstance(row, ast.Slice) and isinstance(row.lower, ast.Name) and row.lower.id == s and \
                                row.upper is None and row.step is None
                            # the rule knows the design "one row per period, stores on rows s:"; state arrays with another row count
                            # (only the oscillators, the rigid row stacked on afterwards) are a different design: not located
                            alloc = [a for a in ast.walk(fi.node) if isinstance(a, ast.Assign) and isinstance(a.targets[0], ast.Name) and
                                     a.targets[0].id == t.value.id and isinstance(a.value, ast.Call) and "zeros" in ast.unparse(a.value.func)]
                            per_rows = bool(alloc) and ("len(%s)" % per) in ast.unparse(alloc[0].value)
                            chk.ob("R-T0", c + "{recurrence-store}", "store rows are `%s:` (rows below the offset stay zero)" % s, ok,
                                   derived="row index `%s`%s" % (ast.unparse(row), "" if per_rows else " on an array that does not have one row per period"),
                                   loc=fi.loc(st), stmt=norm_stmt(st), inconclusive=(not ok and not per_rows))
    if n_st == 0:
        chk.ob("R-T0", c + "{recurrence-store}", "recurrence stores found", False, derived="none", inconclusive=True, loc=fi.loc())
    # ------------------------------------------------------------------ R-T0: row 0 of the third series = -record
    row0 = []
    for n in ast.walk(fi.node):
        if isinstance(n, ast.Assign) and isinstance(n.targets[0], ast.Subscript) and isinstance(n.targets[0].value, ast.Name) \
                and n.targets[0].value.id in THIRD and isinstance(n.targets[0].slice, ast.Constant) and n.targets[0].slice.value == 0:
            row0.append(n)
    if len(row0) != 1:
        chk.ob("R-T0", c + "{T=0 row}", "one assignment to row 0 of the third series", False, derived="%d found" % len(row0), loc=fi.loc(),
               inconclusive=not row0)
    else:
        p = norm.poly(row0[0].value)
        want = -Poly.atom(rec)
        chk.ob("R-T0", c + "{T=0 row}", "row 0 of the third series is minus the record", p == want,
               derived="assigned %s (record parameter `%s`)" % (p.canon(), rec), loc=fi.loc(row0[0]), stmt=norm_stmt(row0[0]))
        # it must sit on the branch where the offset is non-zero
        guarded = False
        for n in ast.walk(canon):      # canonical if/else nesting: a guard clause `if not s: return ...` puts the rest on the `s` branch
            if isinstance(n, ast.If) and isinstance(n.test, ast.Name) and n.test.id == s and any(row0[0] is x for b in n.body for x in ast.walk(b)):
                guarded = True
        chk.ob("R-T0", c + "{T=0 row guard}", "the row-0 assignment is on the branch `if %s`" % s, guarded,
               derived="guarded by `if %s`: %s" % (s, guarded), loc=fi.loc(row0[0]))
    # ------------------------------------------------------------------ R-ACC
    wname = None
    for st in fi.node.body:
        if isinstance(st, ast.Assign) and isinstance(st.targets[0], ast.Name):
            p = Normaliser().poly(st.value).subst_atoms(lambda a: a.split("[")[0])
            if p.is_monomial():
                (m, co), = p.t.items()
                if dict(m) == {per: Fraction(-1)}:
                    wname = st.targets[0].id
                    chk.ob("R-ACC", c + "{w}", "w = 2*pi / periods (constant within 1e-6 of 2*pi)", abs(float(co) - 2 * math.pi) < 1e-6,
                           derived="w = %s / %s" % (float(co), per), loc=fi.loc(st), stmt=norm_stmt(st))
                elif dict(m) == {per: Fraction(-1), "pi": Fraction(1)}:
                    wname = st.targets[0].id
                    chk.ob("R-ACC", c + "{w}", "w = 2*pi / periods", co == 2, derived="w = %s*pi / %s" % (co, per), loc=fi.loc(st),
                           stmt=norm_stmt(st))
    if wname is None:
        chk.ob("R-ACC", c + "{w}", "a definition w = c / periods", False, derived="not found", loc=fi.loc(), inconclusive=True)
        return
    strip = lambda a: a.split("[")[0]
    w = Poly.atom(wname)
    want = -(Poly.const(2) * Poly.atom(xi) * w * Poly.atom(V)) - w * w * Poly.atom(U)
    norm2 = straightline_env(fi.node.body, Normaliser(), exclude={wname, U, V} | THIRD | set(fi.params))
    found = []
    for n in ast.walk(fi.node):
        if isinstance(n, ast.Assign) and len(n.targets) == 1:
            t = n.targets[0]
            tn = t.id if isinstance(t, ast.Name) else (t.value.id if isinstance(t, ast.Subscript) and isinstance(t.value, ast.Name) else None)
            if tn not in THIRD or not isinstance(n.value, (ast.BinOp, ast.UnaryOp)):
                continue
            p = norm2.poly(n.value).subst_atoms(strip)
            rows_ok = True
            if isinstance(t, ast.Subscript):
                rows_ok = isinstance(t.slice, ast.Slice) and isinstance(t.slice.lower, ast.Name) and t.slice.lower.id == s
            # operands must be read on the same rows s:
            for sub in ast.walk(n.value):
                if isinstance(sub, ast.Subscript) and isinstance(sub.value, ast.Name) and sub.value.id in (U, V):
                    sl = sub.slice
                    if not (isinstance(sl, ast.Slice) and isinstance(sl.lower, ast.Name) and sl.lower.id == s and sl.upper is None):
                        rows_ok = False
            found.append(n)
            # an expression that does not mention the two state series at all (the combination is formed elsewhere and only negated / renamed
            # here) is not the located definition; rows selected through something other than a literal slice `[s:]` are not read
            reads_state = bool({U, V} & {x.id for x in ast.walk(n.value) if isinstance(x, ast.Name)})
            slices_read = all(isinstance(x.slice, ast.Slice) for x in [t] + list(ast.walk(n.value)) if isinstance(x, ast.Subscript) and
                              isinstance(x.value, ast.Name) and x.value.id in (U, V, tn))
            chk.ob("R-ACC", c + "{third series}", "-(2*xi*w*v + w^2*u) with u=%s, v=%s" % (U, V), p == want,
                   derived=p.canon(), loc=fi.loc(n), stmt=norm_stmt(n),
                   # (an operand turned into a column by a method call -- (w ** 2).reshape(-1, 1) -- is an opaque atom here: not read)
                   inconclusive=(p != want and (not reads_state or any(".reshape(" in a_ for a_ in p.atoms()))))
            chk.ob("R-ACC", c + "{third series rows}", "computed and stored on rows %s:" % s, rows_ok,
                   derived="rows consistent: %s" % rows_ok, loc=fi.loc(n), stmt=norm_stmt(n),
                   inconclusive=(not rows_ok and (not reads_state or not slices_read)))
    if not found:
        chk.ob("R-ACC", c + "{third series}", "an arithmetic definition of the third series", False, derived="none found",
               inconclusive=True, loc=fi.loc())
    # typing cross-check on both paths of the selector: third series linear in the record
    for choice in (True, False):
        def oracle(fr, node, choice=choice):
            return choice if (fr.fi is fi and node is _same_if(fi, sel)) else None

        def setup(I):
            I.branch_oracle = lambda fr, node: (choice if (fr.fi.qualname == NJR and isinstance(node.test, ast.Compare)
                                                           and ast.unparse(node.test) == ast.unparse(sel.test)) else None)
        r = analyse(chk, NJR, std_args(), atoms=(R, DT, T), setup=setup)
        expect(chk, "R-ACC", c + "(periods[0]==0: %s).a" % choice, item(r.ret, 2), lin=[R], loc=fi.loc())
        x = item(r.ret, 2)
        chk.ob("R-ACC", c + "(periods[0]==0: %s).a[shape]" % choice, "third series has one row per period and the record's length",
               x is not None and x.shape is not None and len(x.shape) == 2 and x.shape[1] == LinExpr("n") and
               (x.shape[0] == LinExpr("P")), derived="shape %r" % (x.shape if x is not None else None,), loc=fi.loc())
    # ------------------------------------------------------------------ R-FWD
    check_forwarder(chk, "R-FWD", "eqsig.sdof.response_series", NJR, roles={"acc": "motion"})
    check_forwarder(chk, "R-FWD", ACC + ".response_series", "eqsig.sdof.response_series",
                    roles={"__ignore__": ("response_times",)},
                    self_map={"motion": "self.values", "dt": "self.dt", "periods": "self.response_times"})

    def setup_t(I):
        I.tag_returns = {NJR}
    r = analyse(chk, ACC + ".response_series", lambda I, st, fi: dict(xi=xi_av()), self_cls=ACC, atoms=(R, DT, T), setup=setup_t)
    cc = "eqsig/single.py:AccSignal.response_series"
    expect(chk, "R-FWD", cc, r.ret, items=3, loc=r.fi.loc())
    for i in range(3):
        x = item(r.ret, i)
        got = sorted(t for t in (x.tags if x is not None else ()) if t.startswith("ret:"))
        chk.ob("R-FWD", cc + ".result[%d]" % i, "result %d is series %d of the response routine" % (i, i),
               got == ["ret:nigam_and_jennings_response#%d" % i], derived="%s" % got, loc=r.fi.loc())
    calls = [e for e in r.I.events if e.kind == "call" and e.callee == NJR]
    if len(calls) == 1:
        b = calls[0].bound
        o = r.st.heap[r.self_obj.id]
        rt = "attr:_response_times" if "_response_times" in o.attrs else "attr:response_times"
        for pname, tag, nots in ((rec, "attr:_values", ["attr:_dt"]), (dtp, "attr:_dt", ["attr:_values"]), (per, rt, ["attr:_values", "attr:_dt"]),
                                 (xi, "p:xi", ["attr:_values", "attr:_dt"])):
            expect(chk, "R-FWD", cc + ".arg[%s]" % pname, b[pname], tags_has=[tag], tags_not=nots, loc=calls[0].loc)
    else:
        chk.ob("R-FWD", cc, "one call reaching the response routine", False, derived="%d" % len(calls), loc=r.fi.loc())
    from .c03 import xi_sentinel
    xi_sentinel(chk, P.fn(ACC + ".response_series"), cc, "R-FWD", cls_q=ACC)
    from ..tyob import leading_zero_tests
    _fi = chk.P.fn("eqsig.sdof.nigam_and_jennings_response")
    leading_zero_tests(chk, "R-T0", _fi, _fi.params[2] if len(_fi.params) > 2 else "periods", "eqsig/sdof.py:nigam_and_jennings_response",
                       what="a leading zero period", minimum=0)
    chk.floor("R-NJ-COEF", 8)
    chk.floor("R-NJ-REC", 5)
    chk.floor("R-T0", 5)
    chk.floor("R-ACC", 7)
    chk.floor("R-FWD", 12)


def nj_names(fi):
    """(u, v, {names that hold the third series}, returns): every return is a 3-tuple of names with the same first two; the third
    names are closed under `x = y` / `x[...] = y` copies between them"""
    rets = [n for n in ast.walk(fi.node) if isinstance(n, ast.Return)]
    if not rets or not all(isinstance(n.value, ast.Tuple) and len(n.value.elts) == 3 and all(isinstance(e, ast.Name) for e in n.value.elts)
                           for n in rets):
        return None
    uv = {(n.value.elts[0].id, n.value.elts[1].id) for n in rets}
    if len(uv) != 1:
        return None
    (U, V), = uv
    third = {n.value.elts[2].id for n in rets}
    changed = True
    while changed:
        changed = False
        for n in ast.walk(fi.node):
            if isinstance(n, ast.Assign) and len(n.targets) == 1 and isinstance(n.value, ast.Name):
                t = n.targets[0]
                tn = t.id if isinstance(t, ast.Name) else (t.value.id if isinstance(t, ast.Subscript) and isinstance(t.value, ast.Name) else None)
                if tn in third and n.value.id not in third and n.value.id not in fi.params and n.value.id not in (U, V):
                    third.add(n.value.id)
                    changed = True
    return U, V, third, rets


def _same_if(fi, sel):
    return sel


# ---------------------------------------------------------------------------------------------------------------- closed forms
# Reference: Nigam & Jennings (1968), Eq 2.7d / 2.7e, written over the role atoms
#   E = exp(-xi*w*dt), Q = sqrt(1 - xi^2), S = sin(w*Q*dt), C = cos(w*Q*dt)
# (trusted table of this checker; it was compared once, by hand, with the exact matrix-exponential solution).
NJ_REF = {
    ("a", 0, 0): "E*(xi/Q*S + C)",
    ("a", 0, 1): "E/(w*Q)*S",
    ("a", 1, 0): "-w/Q*E*S",
    ("a", 1, 1): "E*(C - xi/Q*S)",
    ("b", 0, 0): "E*(((2*xi**2 - 1)/(w**2*dt) + xi/w)*S/(w*Q) + (2*xi/(w**3*dt) + 1/w**2)*C) - 2*xi/(w**3*dt)",
    ("b", 0, 1): "-E*((2*xi**2 - 1)/(w**2*dt)*S/(w*Q) + 2*xi/(w**3*dt)*C) - 1/w**2 + 2*xi/(w**3*dt)",
    ("b", 1, 0): "E*(((2*xi**2 - 1)/(w**2*dt) + xi/w)*(C - xi/Q*S) - (2*xi/(w**3*dt) + 1/w**2)*(w*Q*S + xi*w*C)) + 1/(w**2*dt)",
    ("b", 1, 1): "-E*((2*xi**2 - 1)/(w**2*dt)*(C - xi/Q*S) - 2*xi/(w**3*dt)*(w*Q*S + xi*w*C)) - 1/(w**2*dt)",
}
class NJNorm(Normaliser):
    """Normal form over the role atoms: sqrt/exp/sin/cos/abs applications are interpreted by their (already normalised) argument.
    exp(k*xi*w*dt) = E^-k exactly for rational k; sin/cos(+-w*Q*dt) = +-S / C; sqrt(1-xi^2) = Q; sqrt(1-S^2) = |C| (NOT C).
    A transcendental of an argument that is not a rational multiple of the role's argument is algebraically independent of the
    role atoms (recorded in .indep: comparison stays decisive); a non-trivial rational multiple admits multiple-angle identities
    and is recorded in .unknown (comparison is inconclusive)."""
    FN = {"np.sqrt": "sqrt", "math.sqrt": "sqrt", "numpy.sqrt": "sqrt", "np.exp": "exp", "math.exp": "exp", "numpy.exp": "exp",
          "np.sin": "sin", "math.sin": "sin", "numpy.sin": "sin", "np.cos": "cos", "math.cos": "cos", "numpy.cos": "cos",
          "np.abs": "abs", "abs": "abs", "np.absolute": "abs", "np.fabs": "abs"}

    def __init__(self, **kw):
        Normaliser.__init__(self, **kw)
        self.indep, self.unknown = set(), set()
        A = Poly.atom
        self.zeta = A("xi") * A("w") * A("dt")
        self.theta = A("w") * A("Q") * A("dt")

    @staticmethod
    def ratio(p, q):
        if not p.t or set(p.t) != set(q.t):
            return None
        rs = {p.t[m] / q.t[m] for m in p.t}
        return rs.pop() if len(rs) == 1 else None

    def poly(self, e):
        if isinstance(e, ast.Call) and len(e.args) == 1 and not e.keywords and ast.unparse(e.func) in self.FN:
            return self.fn(self.FN[ast.unparse(e.func)], self.poly(e.args[0]))
        if isinstance(e, ast.BinOp) and isinstance(e.op, ast.Pow) and isinstance(e.right, ast.Constant) and e.right.value == 0.5:
            return self.fn("sqrt", self.poly(e.left))
        return Normaliser.poly(self, e)

    def fn(self, name, p):
        A = Poly.atom
        one = Poly.const(1)
        if name == "sqrt":
            if p == one - A("xi") * A("xi"):
                return A("Q")
            if p == one - A("S") * A("S"):
                return A("|C|")
            if p == one - A("C") * A("C"):
                return A("|S|")
        elif name == "abs":
            if p == A("C"):
                return A("|C|")
            if p == A("S"):
                return A("|S|")
        elif name == "exp":
            k = self.ratio(p, self.zeta)
            if k is not None:
                return A("E").power(-k)
        elif name in ("sin", "cos"):
            k = self.ratio(p, self.theta)
            if k == 1:
                return A("S") if name == "sin" else A("C")
            if k == -1:
                return -A("S") if name == "sin" else A("C")
            if k is not None:
                nm = "%s(%s)" % (name, p.canon())
                self.unknown.add(nm)
                return A(nm)
        nm = "%s(%s)" % (name, p.canon())
        if p.atoms() <= {"xi", "w", "dt", "Q"} and name in ("exp", "sin", "cos"):
            self.indep.add(nm)
        else:
            self.unknown.add(nm)
        return A(nm)


def _expr(txt):
    return ast.parse(txt, mode="eval").body


def nj_rules(chk):
    P = chk.P
    fi = P.fn("eqsig.sdof.compute_a_and_b")
    c = "eqsig/sdof.py:compute_a_and_b"
    chk.files.add(fi.module.relpath)
    if len(fi.params) != 3:
        chk.ob("R-NJ-COEF", c, "parameters (xi, w, dt)", False, derived="%s" % (fi.params,), inconclusive=True, loc=fi.loc())
        return
    ren = dict(zip(fi.params, ("xi", "w", "dt")))
    norm = straightline_env(fi.node.body, NJNorm(rename=ren), exclude=set(fi.params))
    # the entries of the two returned matrices
    rets = [n for n in ast.walk(fi.node) if isinstance(n, ast.Return) and isinstance(n.value, ast.Tuple) and len(n.value.elts) == 2]
    if len(rets) != 1:
        chk.ob("R-NJ-COEF", c, "one `return a, b`", False, derived="%d" % len(rets), inconclusive=True, loc=fi.loc())
        return
    mats = {}
    for which, e in zip(("a", "b"), rets[0].value.elts):
        src = e
        if isinstance(e, ast.Name):
            defs = [n for n in ast.walk(fi.node) if isinstance(n, ast.Assign) and isinstance(n.targets[0], ast.Name) and n.targets[0].id == e.id]
            src = defs[-1].value if len(defs) == 1 else None
        if isinstance(src, ast.Call) and ast.unparse(src.func) in ("np.array", "np.asarray", "numpy.array") and src.args:
            src = src.args[0]
        if isinstance(src, ast.List) and len(src.elts) == 2 and all(isinstance(r, ast.List) and len(r.elts) == 2 for r in src.elts):
            mats[which] = [[x for x in r.elts] for r in src.elts]
        elif isinstance(e, ast.Name):
            # the matrix may also be allocated (np.empty / np.zeros) and filled entry by entry: m[i, j] = expr or m[i][j] = expr
            cells = {}
            for n in ast.walk(fi.node):
                if isinstance(n, ast.Assign) and len(n.targets) == 1 and isinstance(n.targets[0], ast.Subscript):
                    t = n.targets[0]
                    ij = None
                    if isinstance(t.value, ast.Name) and t.value.id == e.id and isinstance(t.slice, ast.Tuple) and len(t.slice.elts) == 2 and \
                            all(isinstance(x, ast.Constant) and x.value in (0, 1) for x in t.slice.elts):
                        ij = (t.slice.elts[0].value, t.slice.elts[1].value)
                    elif isinstance(t.value, ast.Subscript) and isinstance(t.value.value, ast.Name) and t.value.value.id == e.id and \
                            isinstance(t.value.slice, ast.Constant) and isinstance(t.slice, ast.Constant) and \
                            t.value.slice.value in (0, 1) and t.slice.value in (0, 1):
                        ij = (t.value.slice.value, t.slice.value)
                    if ij is not None:
                        cells.setdefault(ij, []).append(n.value)
            if set(cells) == {(0, 0), (0, 1), (1, 0), (1, 1)} and all(len(v) == 1 for v in cells.values()):
                mats[which] = [[cells[(0, 0)][0], cells[(0, 1)][0]], [cells[(1, 0)][0], cells[(1, 1)][0]]]
    if set(mats) != {"a", "b"}:
        chk.ob("R-NJ-COEF", c, "both results are 2x2 matrices written out entry by entry", False, derived="recognised: %s" % sorted(mats),
               inconclusive=True, loc=fi.loc())
        return
    refn = Normaliser()
    known = {"xi", "w", "dt", "Q", "E", "S", "C", "|C|", "|S|"}
    for (which, i, j), txt in sorted(NJ_REF.items()):
        node = mats[which][i][j]
        got = norm.poly(node)
        want = refn.poly(_expr(txt))
        foreign = sorted(a for a in got.atoms() - known if a not in norm.indep)
        cc = c + "{%s[%d][%d]}" % (which, i, j)
        if got == want:
            chk.ob("R-NJ-COEF", cc, "entry equals the closed form " + txt, True, derived="equal as rational functions of xi, w, dt, Q, E, S, C",
                   loc=fi.loc(node), nontrivial=True)
        elif foreign:
            chk.ob("R-NJ-COEF", cc, "entry equals the closed form " + txt, False, derived="built from terms this rule cannot interpret: %s" % foreign[:3],
                   inconclusive=True, loc=fi.loc(node))
        else:
            diff = (got - want).canon()
            odd = sorted(got.atoms() & (norm.indep | {"|C|", "|S|"}))
            chk.ob("R-NJ-COEF", cc, "entry equals the closed form " + txt, False, derived="differs by %s" % diff[:200], loc=fi.loc(node),
                   detail=("uses %s: |C| / |S| stand for sqrt(1 - S^2) / sqrt(1 - C^2), equal to the cosine / sine only while it is non-negative; "
                           "a sine/cosine/exponential of another argument is a different function of (xi, w, dt)" % odd) if odd else None)
    # ------------------------------------------------------------------------------------------------ the recurrence
    fr_ = P.fn(NJR)
    c2 = "eqsig/sdof.py:nigam_and_jennings_response"
    rec, dtp, per, xi = fr_.params[:4]
    names = nj_names(fr_)
    if names is None:
        return
    U, V, THIRD, _ = names
    # (a, b) = compute_a_and_b(xi, w, dt)
    unpack = [n for n in ast.walk(fr_.node) if isinstance(n, ast.Assign) and isinstance(n.targets[0], ast.Tuple) and isinstance(n.value, ast.Call)
              and ast.unparse(n.value.func).split(".")[-1] == "compute_a_and_b"]
    if len(unpack) != 1 or len(unpack[0].targets[0].elts) != 2:
        chk.ob("R-NJ-REC", c2 + "{matrices}", "one `a, b = compute_a_and_b(xi, w, dt)`", False, derived="%d" % len(unpack), inconclusive=True, loc=fr_.loc())
        return
    an, bn = [e.id for e in unpack[0].targets[0].elts]
    call = unpack[0].value
    env0 = straightline_env(fr_.node.body, Normaliser(), exclude={U, V, an, bn} | THIRD | set(fr_.params))
    argtxt = [ast.unparse(a) for a in call.args]
    # by role: first argument derives from xi, third from dt, second is the angular frequency c/periods
    wdef = [n for n in fr_.node.body if isinstance(n, ast.Assign) and isinstance(n.targets[0], ast.Name) and len(call.args) == 3 and
            n.targets[0].id == argtxt[1]]
    ok_args = len(call.args) == 3 and not call.keywords and argtxt[0] == xi and argtxt[2] == dtp and len(wdef) == 1 and \
        per in ast.unparse(wdef[0].value)
    chk.ob("R-NJ-REC", c2 + "{matrices}", "a, b = compute_a_and_b(xi, w, dt) with w the angular frequencies", ok_args,
           derived="compute_a_and_b(%s)" % ", ".join(argtxt), loc=fr_.loc(unpack[0]), stmt=norm_stmt(unpack[0]))
    # the load is minus the record (the library's sign convention: u'' + 2 xi w u' + w^2 u = +a with the published B)
    loads = [n for n in fr_.node.body if isinstance(n, ast.Assign) and isinstance(n.targets[0], ast.Name) and n.targets[0].id == rec]
    lp = Normaliser().poly(loads[0].value) if len(loads) == 1 else None
    chk.ob("R-NJ-REC", c2 + "{load}", "the load series is minus the record (once)", lp is not None and lp == -Poly.atom(rec),
           derived="load = %s" % (lp.canon() if lp is not None else "%d rebinding(s) of the record" % len(loads)),
           loc=fr_.loc(loads[0]) if loads else fr_.loc(),
           inconclusive=len(loads) != 1)        # the load held under another name / formed inline: not located
    loops = [n for n in fr_.node.body if isinstance(n, ast.For)]
    stores = []
    for lp_ in loops:
        for stn in lp_.body:
            if isinstance(stn, ast.Assign) and isinstance(stn.targets[0], ast.Subscript) and isinstance(stn.targets[0].value, ast.Name) and \
                    stn.targets[0].value.id in (U, V):
                stores.append((lp_, stn))
    if len(loops) != 1 or len(stores) != 2 or not isinstance(loops[0].target, ast.Name):
        chk.ob("R-NJ-REC", c2 + "{recurrence}", "one loop with one store per state series", False, derived="%d loop(s), %d store(s)" % (len(loops), len(stores)),
               inconclusive=True, loc=fr_.loc())
        return
    lp_ = loops[0]
    iv = lp_.target.id
    rng = [env0.poly(a).canon() for a in lp_.iter.args] if isinstance(lp_.iter, ast.Call) and ast.unparse(lp_.iter.func) == "range" else None
    want_rng = [Normaliser().poly(_expr("len(%s) - 1" % rec)).canon()]
    load_located = len(loads) == 1       # (the load under another name: the roles in the forms below are not known)
    chk.ob("R-NJ-REC", c2 + "{steps}", "the loop takes every step: range(len(record) - 1)", rng == want_rng, derived="range(%s)" % (rng,), loc=fr_.loc(lp_),
           inconclusive=(rng != want_rng and not load_located))
    for lp_, stn in stores:
        tgt = stn.targets[0]
        which = 0 if tgt.value.id == U else 1
        comps = tgt.slice.elts if isinstance(tgt.slice, ast.Tuple) else [tgt.slice]
        rowtxt = ast.unparse(comps[0]) if comps else "?"
        col = Normaliser().poly(comps[1]).canon() if len(comps) == 2 else None
        okcol = col == Normaliser().poly(_expr("%s + 1" % iv)).canon()
        got = env0.poly(stn.value)      # hoisted coefficients (a_11 = a[0][0]) and per-step views (u_i = u[s:, i]) are inlined
        reft = "{a}[{k}][0]*{U}[{r}, {i}] + {a}[{k}][1]*{V}[{r}, {i}] + {b}[{k}][0]*{f}[{i}] + {b}[{k}][1]*{f}[{i} + 1]".format(
            a=an, b=bn, U=U, V=V, f=rec, r=rowtxt, i=iv, k=which)
        want = Normaliser().poly(_expr(reft))
        chk.ob("R-NJ-REC", c2 + "{recurrence %s}" % ("u" if which == 0 else "v"),
               "x[i+1] = A[k] . (u[i], v[i]) + B[k] . (load[i], load[i+1]), k = %d, stored at column i + 1" % which, got == want and okcol,
               derived="%s -> column %s" % (got.canon(), col), loc=fr_.loc(stn), stmt=norm_stmt(stn),
               # what is stored is a bare local the straight-line environment cannot read through (a state carried and re-bound in the loop): the
               # update expression itself is not located
               inconclusive=(okcol and got.is_monomial() and len(got.atoms()) == 1 and bool(__import__("re").fullmatch(r"[A-Za-z_]\w*", list(got.atoms())[0]))) or
               (not (got == want and okcol) and not load_located))


def _t0_selector(fi, per):
    sel = None

    def first_is_zero_test(t):
        if isinstance(t, ast.BoolOp) and isinstance(t.op, ast.And):        # `len(periods) and periods[0] == 0`
            hits = [x for x in t.values if first_is_zero_test(x)]
            return hits[0] if hits else None
        if isinstance(t, ast.Compare) and len(t.ops) == 1:
            l, r0 = t.left, t.comparators[0]
            if isinstance(l, ast.Subscript) and isinstance(l.value, ast.Name) and l.value.id == per and \
                    isinstance(l.slice, ast.Constant) and l.slice.value == 0 and isinstance(r0, ast.Constant) and \
                    isinstance(r0.value, (int, float)) and not isinstance(r0.value, bool):
                return t
        return None
    for n in ast.walk(fi.node):
        if isinstance(n, ast.If) and first_is_zero_test(n.test) is not None:
            sel = n
    return sel, first_is_zero_test


def _t0_early_return(chk, fi, c, rec, per):
    """True when the T = 0 case is an early return (decided here)"""
    sel, first_is_zero_test = _t0_selector(fi, per)
    # another design of the T = 0 case: the branch `periods[0] == 0` returns early, stacking a rigid row on top of the response of the
    # remaining periods.  Then the first stacked piece of the third series must be minus the record AS IT IS AT THAT POINT of the
    # function (assignments before the return are followed, later ones are not)
    if sel is not None and isinstance(first_is_zero_test(sel.test).ops[0], ast.Eq):
        early = [x for x in sel.body if isinstance(x, ast.Return) and isinstance(x.value, ast.Tuple) and len(x.value.elts) == 3]
        if early:
            third = early[0].value.elts[2]
            env_ = straightline_env(fi.node.body, Normaliser(), stop_at=early[0], exclude=set())
            if isinstance(third, ast.Name) and third.id in env_.env:
                pass
            stk = third
            if isinstance(stk, ast.Name):
                defs = [a for a in ast.walk(sel) if isinstance(a, ast.Assign) and isinstance(a.targets[0], ast.Name) and a.targets[0].id == stk.id]
                stk = defs[-1].value if defs else stk
            if isinstance(stk, ast.Call) and ast.unparse(stk.func).split(".")[-1] in ("vstack", "concatenate", "row_stack") and stk.args and \
                    isinstance(stk.args[0], (ast.List, ast.Tuple)) and stk.args[0].elts:
                top = stk.args[0].elts[0]
                while isinstance(top, (ast.List, ast.Tuple)) and len(top.elts) == 1:
                    top = top.elts[0]
                p = env_.poly(top)
                chk.ob("R-T0", c + "{T=0 row}", "row 0 of the third series is minus the record", p == -Poly.atom(rec),
                       derived="stacked on top: %s (record parameter `%s`, as bound where the branch returns)" % (p.canon(), rec),
                       loc=fi.loc(early[0]), stmt=norm_stmt(early[0]))
            else:
                chk.ob("R-T0", c + "{T=0 row}", "row 0 of the third series is minus the record", False,
                       derived="the T = 0 branch returns early in a form the rule does not know", inconclusive=True, loc=fi.loc(early[0]))
            chk.ob("R-T0", c + "{design}", "the T = 0 case returns early: the offset-based obligations do not apply", False,
                   derived="early return on the `periods[0] == 0` branch", inconclusive=True, loc=fi.loc(sel))
            return True
    return False

"""C04 -- derived quantities of a signal object never go stale (cache protocol).

Model (flags, producers, storage, read sets) is *extracted from the tree*; rules R-INV, R-CLEAR,
R-SETTINGS, R-GETPURE, R-NPTS, R-ORDER, R-INIT, R-WHOWRITES are then decided over all methods
and all paths by the abstract interpreter's typestate facts.
"""
import ast

from ..program import AnalysisError, norm_stmt
from ..interp import Interp, State
from ..entries import make_signal, rec_array, R, DT, generalise_defaults
from ..autoargs import auto_args
from ..values import *  # noqa
from ..values import _NOCONST as _NOCONST_
from ..tyob import sibling_defaults

CLASSES = ["eqsig.single.Signal", "eqsig.single.AccSignal"]
# methods that (re)generate a cached quantity with explicit, caller-chosen parameters: by design the cache then
# holds what the caller asked for (not a staleness defect; see DESIGN.md C04 "not decided")
BASE_INPUT_HINT = {"_values", "_dt", "_npts"}


def _attrs_from_tags(tags):
    return {t[5:] for t in tags if t.startswith("attr:")}


class Model(object):
    def __init__(self):
        self.flags = {}     # flag attr -> dict(producers=set(qualnames), getters=set(), storage=set(), reads=set())
        self.memo = {}      # memo attr -> dict(keys={key: reads}, getters=set())


def extract_model(P, ci, chk):
    """Cold run of every method: find flags (attr stored a literal True in a method and tested by a property),
    their producers, storage and read sets."""
    m = Model()
    # 1. syntactic discovery of flags and memo dicts
    for c in ci.mro():
        for meth in list(c.methods.values()) + list(c.setters.values()):
            for n in ast.walk(meth.node):
                if isinstance(n, ast.Assign) and isinstance(n.value, ast.Constant) and n.value.value is True:
                    for t in n.targets:
                        if isinstance(t, ast.Attribute) and isinstance(t.value, ast.Name) and t.value.id == meth.params[0]:
                            m.flags.setdefault(t.attr, dict(producers=set(), getters=set(), storage=set(), reads=set()))
                            m.flags[t.attr]["producers"].add(meth.qualname)
                if isinstance(n, ast.Compare) and len(n.ops) == 1 and isinstance(n.ops[0], (ast.In, ast.NotIn)):
                    r = n.comparators[0]
                    if isinstance(r, ast.Attribute) and isinstance(r.value, ast.Name) and r.value.id == meth.params[0] \
                            and meth.is_property and isinstance(n.left, ast.Constant):
                        mm = m.memo.setdefault(r.attr, dict(keys={}, getters=set()))
                        mm["keys"].setdefault(n.left.value, set())
                        mm["getters"].add(meth.qualname)
    for c in ci.mro():
        for meth in c.methods.values():
            if not meth.is_property:
                continue
            for n in ast.walk(meth.node):
                if isinstance(n, ast.Attribute) and n.attr in m.flags and isinstance(n.ctx, ast.Load):
                    m.flags[n.attr]["getters"].add(meth.qualname)
    # 2. cold runs through the guarded getters (which call the producers the way a read does):
    #    storage and read sets from the event log (data + control dependence tags)
    for flag, info in m.flags.items():
        # through the guarded getters AND through the producers themselves: a getter whose guard is wrong never reaches its producer, and
        # the storage it hands out would then not be known as storage
        runs = sorted(set(info["getters"]) | set(info["producers"]))
        for gq in runs:
            fi = P.functions[gq]
            I = Interp(P)
            I.atoms = {R, DT}
            st = State()
            o, oav = make_signal(I, st, ci, name="self", flags="cold", is_param=False)
            bound = I.bind(fi, [oav], {}, None, None)
            I.run(fi, bound, st, self_obj=o)
            chk.absorb_interp(I)
            order = []
            for e in I.events:
                if e.kind == "attr-write" and e.obj == o.id and e.via in ("plain", "container-store"):
                    order.append(e)
            for e in order:
                if e.attr == flag or e.attr in m.flags or e.attr in m.memo:
                    continue
                # stores made by this quantity's producers (not by nested producers of other quantities)
                if e.fn in info["producers"]:
                    info["storage"].add(e.attr)
                    info["reads"] |= _attrs_from_tags(e.value.tags)
            for pq in info["producers"]:
                if any(e.fn == pq for e in order):
                    info.setdefault("order", {})[pq] = [(e.attr, e.fn, e.loc, e.stmt) for e in order]
                    info.setdefault("self_reads", {})[pq] = [
                        (e.attr, e.loc) for e in I.events if e.kind == "attr-read" and e.obj == o.id and e.fn == pq]
    for memo, info in m.memo.items():
        for gq in sorted(info["getters"]):
            fi = P.functions[gq]
            I = Interp(P)
            I.atoms = {R, DT}
            st = State()
            o, oav = make_signal(I, st, ci, name="self", flags="cold", is_param=False)
            I.run(fi, {fi.params[0]: oav}, st, self_obj=o)
            chk.absorb_interp(I)
            for e in I.events:
                if e.kind == "attr-write" and e.obj == o.id and e.attr == memo and e.via == "container-store":
                    for k, v in (e.value.dvals or {}).items():
                        if k in info["keys"]:
                            info["keys"][k] |= _attrs_from_tags(v.tags)
    # storage attributes are not inputs
    storage_all = set()
    for info in m.flags.values():
        storage_all |= info["storage"]
    for info in m.flags.values():
        info["reads"] -= storage_all
        info["reads"] -= set(m.flags)
    for info in m.memo.values():
        for k in info["keys"]:
            info["keys"][k] -= storage_all
            info["keys"][k] -= set(m.flags)
    return m


def quantities(m):
    """Q name -> read set."""
    out = {}
    for f, info in m.flags.items():
        out["flag:" + f] = set(info["reads"])
    for memo, info in m.memo.items():
        for k, reads in info["keys"].items():
            out["memo:%s[%s]" % (memo, k)] = set(reads)
    return out


class Typestate(object):
    """Listener implementing the write => invalidate typestate on one receiver object."""

    def __init__(self, model, oid, qs):
        self.m = model
        self.oid = oid
        self.qs = qs
        self.entry = None

    def __call__(self, I, fr, ev):
        if fr is None or fr.state is None:
            return
        st = fr.state
        if ev.kind == "attr-write" and ev.obj == self.oid and ev.via in ("plain", "container-store"):
            a = ev.attr
            v = ev.value
            if a in self.m.flags:
                tv = v.const if v.has_const() else None
                if tv is False:
                    self._clear(st, "flag:" + a)
                    st.facts = frozenset(f for f in st.facts if not (f[0] == "stale" and f[1] == "flag:" + a))
                elif tv is True:
                    # raising the flag declares the stored quantity valid: that is a recomputation only if the storage was rewritten
                    # after the last change of what it is computed from -- otherwise the change stays pending (and now nothing will
                    # ever recompute it)
                    if not any(f[0] == "stale" and f[1] == "flag:" + a for f in st.facts):
                        self._clear(st, "flag:" + a)
                return
            for flag, info in self.m.flags.items():
                if a in info.get("storage", ()):
                    st.facts = frozenset(f for f in st.facts if not (f[0] == "stale" and f[1] == "flag:" + flag))
            if a in self.m.memo:
                if ev.via == "plain":
                    if v.kind == K_DICT and v.dmay is not None and not v.dmay:
                        for k in self.m.memo[a]["keys"]:
                            self._clear(st, "memo:%s[%s]" % (a, k))
                else:
                    old = ev.get("old")
                    for k in (v.dmust or ()):
                        self._clear(st, "memo:%s[%s]" % (a, k))
                return
            self._dirty(st, a, ev)
        elif ev.kind == "mutation":
            o = st.heap.get(self.oid)
            if o is None:
                return
            toks = frozenset(t for t in ev.origins if t not in ("lit", "?"))
            if ev.target is not None and ev.target.kind == K_DICT:
                for a, av in o.attrs.items():
                    if a in self.m.memo and (av.origin & toks):
                        if ev.how == "dict.clear":
                            for k in self.m.memo[a]["keys"]:
                                self._clear(st, "memo:%s[%s]" % (a, k))
                return
            for a, av in o.attrs.items():
                if av.kind in (K_ARRAY, K_LIST, K_TOP) and (av.origin & toks):
                    self._dirty(st, a, ev)

    def _dirty(self, st, attr, ev):
        add = set()
        for q, reads in self.qs.items():
            if attr in reads:
                add.add(("chg", q, attr, ev.loc, ev.stmt))
                if q.startswith("flag:"):
                    add.add(("stale", q))
        if add:
            st.facts = st.facts | frozenset(add)

    def _clear(self, st, q):
        st.facts = frozenset(f for f in st.facts if not (f[0] == "chg" and f[1] == q))


def memo_key_rule(chk, P, ci, m):
    """R-MEMOKEY: in a memoising getter the key tested, the key read and the key stored are one literal."""
    users = {}
    for memo, info in sorted(m.memo.items()):
        for gq in sorted(info["getters"]):
            fi = P.functions[gq]
            tested, loaded, stored = set(), set(), set()
            for n in ast.walk(fi.node):
                if isinstance(n, ast.Compare) and len(n.ops) == 1 and isinstance(n.ops[0], (ast.In, ast.NotIn)) and \
                        isinstance(n.comparators[0], ast.Attribute) and n.comparators[0].attr == memo and \
                        isinstance(n.left, ast.Constant):
                    tested.add(n.left.value)
                if isinstance(n, ast.Subscript) and isinstance(n.value, ast.Attribute) and n.value.attr == memo and \
                        isinstance(n.slice, ast.Constant):
                    (stored if isinstance(n.ctx, ast.Store) else loaded).add(n.slice.value)
                if isinstance(n, ast.Call) and isinstance(n.func, ast.Attribute) and n.func.attr in ("get", "setdefault") \
                        and isinstance(n.func.value, ast.Attribute) and n.func.value.attr == memo and n.args and \
                        isinstance(n.args[0], ast.Constant):
                    loaded.add(n.args[0].value)
            ok = len(tested) == 1 and tested == stored and (not loaded or loaded == tested)
            chk.ob("R-MEMOKEY", "%s:%s.%s" % (fi.module.relpath, fi.cls.name, fi.name),
                   "memo key tested == key read == key stored (one literal)", ok,
                   derived="tested %s, read %s, stored %s" % (sorted(tested), sorted(loaded), sorted(stored)), loc=fi.loc())
            for k_ in stored:
                users.setdefault((memo, k_), []).append(fi)
    # one key, one getter: two getters that memoise under the same key hand each other's value out
    for (memo, k_), fis in sorted(users.items(), key=lambda kv: repr(kv[0])):
        names = sorted({f.name for f in fis})
        chk.ob("R-MEMOKEY", "%s:%s.%s[%r]" % (fis[0].module.relpath, fis[0].cls.name, memo, k_), "a memo key is stored by one getter only",
               len(names) == 1, derived="stored by %s" % names, loc=fis[-1].loc(),
               detail="whichever of them is read first decides what the other returns" if len(names) > 1 else None)


def entries_of(ci):
    """All callable members visible on an instance of ci: methods, property getters, setters."""
    seen = {}
    for c in reversed(ci.mro()):
        for name, meth in c.methods.items():
            seen[("m", name)] = meth
        for name, meth in c.setters.items():
            seen[("s", name)] = meth
    return [seen[k] for k in sorted(seen)]


def flag_state(o, flag):
    v = o.attrs.get(flag)
    if v is None:
        return None
    return v.const if v.has_const() else None


def run(chk):
    P = chk.P
    chk.files |= {"eqsig/single.py"}
    chk.rule("R-INV", "on every path of every method, a write (rebinding, in-place, through any alias) to an attribute "
                      "in the read set of a cached quantity is followed by its invalidation or recomputation before "
                      "the normal exit (typestate over the abstract interpreter's paths)")
    chk.rule("R-CLEAR", "each clear_cache invalidates every cached quantity whose read set contains the values")
    chk.rule("R-SETTINGS", "every public attribute in a read set is a property whose setter satisfies R-INV")
    chk.rule("R-GETPURE", "property getters write only cache storage/flags, never inputs or settings")
    chk.rule("R-NPTS", "after any method that rebinds the values, npts equals the length of the values")
    chk.rule("R-ORDER", "producers set the validity flag after the last store to the storage and do not read their own storage")
    chk.rule("R-INIT", "constructors return with every flag False and the memo empty")
    chk.rule("R-GUARD", "every getter, run with all validity flags False, returns a recomputed value (never the old storage): each "
                        "getter of a cached quantity is guarded by that quantity's flag")
    chk.rule("R-MEMOKEY", "a memoising getter tests, reads and stores one and the same literal key")
    chk.rule("R-WHOWRITES", "no code outside the signal classes stores to cache flags, storage or inputs")
    models = {}
    for cq in CLASSES:
        ci = P.cls(cq)
        m = extract_model(P, ci, chk)
        models[cq] = m
        qs = quantities(m)
        if cq.endswith("AccSignal"):
            if len(m.flags) < 4 or not m.memo:
                raise AnalysisError("cache model of %s incomplete: flags=%s memo=%s (confirmed on the pinned tree: 4 flags, 1 memo)"
                                    % (cq, sorted(m.flags), sorted(m.memo)))
        elif len(m.flags) < 2:
            raise AnalysisError("cache model of %s incomplete: flags=%s" % (cq, sorted(m.flags)))
        memo_key_rule(chk, P, ci, m)
        for q, reads in sorted(qs.items()):
            chk.note("%s: %s reads %s" % (ci.name, q, sorted(reads)))
            if not reads and not any(o.rule == "R-MEMOKEY" and o.status != "discharged" for o in chk.obs):
                raise AnalysisError("empty read set derived for %s of %s" % (q, cq))
        check_class(chk, P, ci, m, qs)
    check_who_writes(chk, P, models)
    # the smoothing-frequency grid is built at three places (range setter, constructor helper, point-count setter): all of them
    # logspace(log10(lo), log10(hi), N, base=10) -- the same grid a fresh object gets
    grids = []
    for ci_ in (P.cls("eqsig.single.Signal"),):
        for meth in list(ci_.methods.values()) + list(ci_.setters.values()):
            for n in ast.walk(meth.node):
                if isinstance(n, ast.Call) and ast.unparse(n.func).split(".")[-1] == "logspace":
                    grids.append((meth, n))
    for meth, n in grids:
        a = n.args
        base = next((k.value for k in n.keywords if k.arg == "base"), None)
        lf = a[0].value.id if (len(a) >= 2 and isinstance(a[0], ast.Subscript) and isinstance(a[0].value, ast.Name)) else None
        src = [x.value for x in ast.walk(meth.node) if isinstance(x, ast.Assign) and len(x.targets) == 1 and isinstance(x.targets[0], ast.Name) and
               x.targets[0].id == lf] if lf else []
        okg = (len(a) >= 3 or (len(a) == 2 and any(k.arg == "num" for k in n.keywords))) and lf is not None and ast.unparse(a[0]) == "%s[0]" % lf and ast.unparse(a[1]) == "%s[1]" % lf and \
            (base is None or (isinstance(base, ast.Constant) and base.value == 10)) and len(src) == 1 and isinstance(src[0], ast.Call) and \
            ast.unparse(src[0].func).split(".")[-1] == "log10"
        chk.ob("R-GUARD", "eqsig/single.py:%s.%s{grid}" % (meth.cls.name, meth.name), "smoothing grid = logspace(log10(limits)[0], log10(limits)[1], N, base=10)",
               okg, derived=" ".join(ast.unparse(n).split()), loc=meth.loc(n), stmt=norm_stmt(n), inconclusive=(lf is None))
    # a read regenerates through generate_*; an explicit gen_*() with the options left out must compute the same thing
    A_ = "eqsig.single.AccSignal"
    S_ = "eqsig.single.Signal"
    sibling_defaults(chk, "R-GUARD", [A_ + ".gen_response_spectrum", A_ + ".generate_response_spectrum"], neutral={"xi": -1},
                     label="AccSignal.gen_response_spectrum~generate_response_spectrum")
    sibling_defaults(chk, "R-GUARD", [S_ + ".gen_smooth_fa_spectrum", S_ + ".generate_smooth_fa_spectrum", "eqsig.fns.frequency.calc_smooth_fa_spectrum"],
                     label="Signal.gen_smooth_fa_spectrum~generate_smooth_fa_spectrum~calc_smooth_fa_spectrum")
    chk.rule("R-OWNS", "each signal object owns its samples (constructor and reset_values store a fresh array): no write that bypasses the object's own invalidation can reach its values")
    from ..tyob import owns_values
    owns_values(chk, "R-OWNS")
    chk.floor("R-OWNS", 4)
    chk.floor("R-GUARD", 30)
    chk.floor("R-INV", 90)
    chk.floor("R-CLEAR", 2)
    chk.floor("R-GETPURE", 20)
    chk.floor("R-ORDER", 5)
    chk.floor("R-INIT", 2)


def check_class(chk, P, ci, m, qs):
    cname = ci.name
    # ---------------------------------------------------------------- R-INV / R-GETPURE / R-NPTS per entry
    input_attrs = set()
    for reads in qs.values():
        input_attrs |= reads
    storage_all = set()
    for info in m.flags.values():
        storage_all |= info["storage"]
    allowed_getter_writes = storage_all | set(m.flags) | set(m.memo)
    for meth in entries_of(ci):
        if meth.name == "__init__":
            continue
        I = Interp(P)
        I.atoms = {R, DT}
        st = State()
        o, oav = make_signal(I, st, ci, name="self", flags="unknown", is_param=False)
        ts = Typestate(m, o.id, qs)
        I.listeners.append(ts)
        args = auto_args(I, st, meth, P)
        if meth.name == "reset_values":
            args["new_values"] = rec_array("new_values", n="m")
        bound = I.bind(meth, [oav], args, None, None)
        generalise_defaults(I, meth, bound, explicit=set(args))
        if meth.kwarg:
            bound[meth.kwarg] = AV(kind=K_DICT, dvals={}, dmust=frozenset(), dmay=None)
        ret, st2, flow = I.run(meth, bound, st, self_obj=o)
        chk.absorb_interp(I)
        construct = "%s:%s.%s%s" % (meth.module.relpath, cname, meth.name, ".setter" if meth.setter_of else "")
        exit_ev = [e for e in I.events if e.kind == "exit" and e.is_entry]
        if len(exit_ev) != 1:
            raise AnalysisError("no unique exit event for entry %s" % meth.qualname)
        ex = exit_ev[-1]
        exit_state = ex.state if (ex is not None and ex.normal) else None
        oo = exit_state.heap.get(o.id) if exit_state is not None else None
        # an operation that raises for every input on the default path of a public operation (None + 1, an index past a tuple ...): the
        # operation cannot be performed at all, whatever it was meant to leave behind
        ill = [e for e in I.events if e.kind in ("type-error", "index-error") and e.fn == meth.qualname]
        seen_ill = set()
        for e in ill:
            if (e.loc, e.what) in seen_ill or len(seen_ill) >= 2:
                continue
            seen_ill.add((e.loc, e.what))
            chk.ob("R-INV", construct + "[well-typed]", "no operation on the path raises for every input", False, derived=e.what, loc=e.loc, stmt=e.stmt,
                   detail="the operation cannot complete: it raises")
        # the same entry as a caller who leaves every option out reaches it: an option left at None / its literal default is that value,
        # not "anything", so `None + 1` on the default path shows (the generalised run above joins None with a number and cannot see it)
        if any(p_ in meth.defaults for p_ in meth.params) and not seen_ill and not meth.is_property and meth.setter_of is None:
            I2 = Interp(P)
            I2.atoms = {R, DT}
            st_d = State()
            o_d, oav_d = make_signal(I2, st_d, ci, name="self", flags="unknown", is_param=False)
            args_d = {k_: v_ for k_, v_ in auto_args(I2, st_d, meth, P).items() if k_ not in meth.defaults}
            if meth.name == "reset_values":
                args_d["new_values"] = rec_array("new_values", n="m")
            bound_d = I2.bind(meth, [oav_d], args_d, None, None)
            if meth.kwarg:
                bound_d[meth.kwarg] = AV(kind=K_DICT, dvals={}, dmust=frozenset(), dmay=frozenset())
            try:
                I2.run(meth, bound_d, st_d, self_obj=o_d)
                chk.absorb_interp(I2)
                for e in [e for e in I2.events if e.kind in ("type-error", "index-error") and e.fn == meth.qualname][:2]:
                    if (e.loc, e.what) in seen_ill:
                        continue
                    seen_ill.add((e.loc, e.what))
                    chk.ob("R-INV", construct + "[well-typed, options left out]", "no operation on the default path raises for every input", False,
                           derived=e.what, loc=e.loc, stmt=e.stmt, detail="called with its options left out the operation cannot complete: it raises")
            except AnalysisError:
                pass
        # R-INV: one obligation per (entry, quantity)
        remaining = {}
        if exit_state is not None:
            for f in exit_state.facts:
                if f[0] == "chg":
                    remaining.setdefault(f[1], []).append(f)
        wrote = {e.attr for e in I.events if e.kind == "attr-write" and e.obj == o.id} | \
                {a for e in I.events if e.kind == "mutation" for a, av in (o.attrs.items())
                 if av.origin & e.origins - {"lit", "?"}}
        for q in sorted(qs):
            bad = []
            for f in remaining.get(q, []):
                if q.startswith("flag:") and oo is not None and flag_state(oo, q[5:]) is False:
                    continue
                if q.startswith("memo:"):
                    memo = q[5:q.index("[")]
                    mv = oo.attrs.get(memo) if oo is not None else None
                    if mv is not None and mv.kind == K_DICT and mv.dmay is not None and q[q.index("[") + 1:-1] not in mv.dmay:
                        continue
                bad.append(f)
            nontrivial = bool(qs[q] & wrote)
            if bad:
                f = sorted(bad)[0]
                chk.ob("R-INV", construct, "%s invalidated or recomputed after every write to %s" % (q, sorted(qs[q])),
                       False, derived="write to %s at %s survives to the normal exit with %s possibly valid" % (f[2], f[3], q),
                       loc=f[3], stmt=None, detail="stale read possible: read %s, call %s, read again" % (q, meth.name),
                       path=["entry %s" % meth.qualname, "write %s (%s)" % (f[2], f[4]), "normal exit without invalidating %s" % q])
            else:
                chk.ob("R-INV", construct, "%s invalidated or recomputed after every write to its read set" % q, True,
                       derived="no surviving write fact at exit" if nontrivial else "no write to the read set on any path",
                       nontrivial=nontrivial)
        # R-GETPURE
        if meth.is_property:
            writes = [e for e in I.events if e.kind == "attr-write" and e.obj == o.id]
            muts = [e for e in I.events if e.kind == "mutation" and any(
                (av.origin & (e.origins - {"lit", "?"})) and a not in allowed_getter_writes for a, av in o.attrs.items())]
            badw = [e for e in writes if e.attr not in allowed_getter_writes]
            ok = not badw and not muts
            chk.ob("R-GETPURE", construct, "getter writes only cache storage/flags", ok,
                   derived="writes: %s" % sorted({e.attr for e in writes}) if ok else
                   "writes %s; in-place effects at %s" % (sorted({e.attr for e in badw}), [e.loc for e in muts]),
                   loc=(badw or muts or [None])[0].loc if (badw or muts) else None, nontrivial=bool(writes))
        # R-NPTS
        rebound = [e for e in I.events if e.kind == "attr-write" and e.obj == o.id and e.attr == "_values"]
        if rebound and oo is not None:
            v = oo.attrs.get("_values")
            n = oo.attrs.get("_npts")
            ln = v.length() if v is not None else None
            ok = ln is not None and n is not None and n.sym is not None and ln == n.sym
            incon = (ln is None or n is None or n.sym is None)
            chk.ob("R-NPTS", construct, "npts == len(values) at exit", ok,
                   derived="len(values)=%r npts=%r" % (ln, n.sym if n is not None else None),
                   inconclusive=(not ok and incon), loc=rebound[-1].loc)
    # ---------------------------------------------------------------- R-GUARD: with every flag invalid, no getter returns old storage
    for meth in entries_of(ci):
        if not meth.is_property:
            continue
        I = Interp(P)
        I.atoms = {R, DT}
        st = State()
        o, oav = make_signal(I, st, ci, name="self", flags="cold", is_param=False)
        ret, _, _ = I.run(meth, {meth.params[0]: oav}, st, self_obj=o)
        chk.absorb_interp(I)
        vals = [ret] + list(ret.items or ())
        stale = sorted({t for v in vals for t in v.tags if t.startswith("stored:")})
        chk.ob("R-GUARD", "%s:%s.%s" % (meth.module.relpath, cname, meth.name),
               "with its validity flag False (or memo empty) the getter recomputes: the result does not derive from old storage", not stale,
               derived="result derives from stale storage %s" % [t[7:] for t in stale] if stale else "recomputed or not cached",
               loc=meth.loc(), detail="read after a change returns the value cached before the change" if stale else None,
               nontrivial=any(e.kind == "attr-read" and e.attr in storage_all for e in I.events))
    # ---------------------------------------------------------------- R-CLEAR
    cc = ci.find_method("clear_cache")
    if cc is None:
        raise AnalysisError("no clear_cache on %s" % ci.qualname)
    I = Interp(P)
    I.atoms = {R, DT}
    st = State()
    o, oav = make_signal(I, st, ci, name="self", flags="unknown", is_param=False)
    I.run(cc, {cc.params[0]: oav}, st, self_obj=o)
    chk.absorb_interp(I)
    oo = st.heap[o.id]
    for q, reads in sorted(qs.items()):
        if "_values" not in reads:
            continue
        construct = "%s:%s.clear_cache[%s]" % (cc.module.relpath, cc.cls.name, q)
        if q.startswith("flag:"):
            ok = flag_state(oo, q[5:]) is False
            der = "%s = %r at exit" % (q[5:], flag_state(oo, q[5:]))
        else:
            memo = q[5:q.index("[")]
            mv = oo.attrs.get(memo)
            ok = mv is not None and mv.kind == K_DICT and mv.dmay is not None and q[q.index("[") + 1:-1] not in mv.dmay
            der = "memo may hold %s" % (sorted(mv.dmay) if (mv is not None and mv.dmay is not None) else "any key")
        chk.ob("R-CLEAR", construct, "%s invalid after clear_cache on a %s" % (q, cname), ok, derived=der,
               loc=cc.loc())
    # ---------------------------------------------------------------- R-SETTINGS
    for a in sorted(input_attrs):
        if a.startswith("_"):
            continue
        prop = ci.find_property(a)
        construct = "%s:%s.%s" % (ci.module.relpath, cname, a)
        users = sorted(q for q, r in qs.items() if a in r)
        if prop is None:
            chk.ob("R-SETTINGS", construct, "public setting read by %s is a property with an invalidating setter" % users,
                   False, derived="plain instance attribute: client assignment cannot invalidate",
                   detail="read %s, assign .%s, read again: stale" % (users[0], a), loc=ci.module.relpath)
        else:
            setter = ci.find_setter(a)
            chk.ob("R-SETTINGS", construct, "public setting read by %s is a property with an invalidating setter" % users,
                   True, derived="property%s (setter checked by R-INV)" % ("" if setter else " without setter: read-only"))
    # ---------------------------------------------------------------- R-ORDER
    for flag, info in sorted(m.flags.items()):
        for pq, order in sorted(info.get("order", {}).items()):
            fi = P.functions[pq]
            construct = "%s:%s.%s[%s]" % (fi.module.relpath, fi.cls.name, fi.name, flag)
            idx_flag = [i for i, (a, fn, loc, stmt) in enumerate(order) if a == flag and fn == pq]
            idx_store = [i for i, (a, fn, loc, stmt) in enumerate(order) if a in info["storage"] and fn == pq]
            ok = bool(idx_flag) and bool(idx_store) and max(idx_store) < max(idx_flag)
            chk.ob("R-ORDER", construct, "flag set True after the last store to %s" % sorted(info["storage"]), ok,
                   derived="store order %s" % [a for a, fn, _, _ in order if fn == pq], loc=fi.loc())
            own = [(a, loc) for a, loc in info.get("self_reads", {}).get(pq, []) if a in info["storage"]]
            chk.ob("R-ORDER", construct + "/no-self-read", "producer does not read its own storage", not own,
                   derived="reads %s" % own if own else "reads none of %s" % sorted(info["storage"]),
                   loc=own[0][1] if own else fi.loc())
    # ---------------------------------------------------------------- R-INIT
    I = Interp(P)
    I.atoms = {R, DT}
    st = State()
    from ..interp import Frame
    init = ci.find_method("__init__")
    fr = Frame(init, st, I)
    node = ast.parse("X(v, d)").body[0].value
    oav = I.instantiate(fr, ci, [rec_array("values"), AV(kind=K_SCALAR, dtype="real", shape=(), sign=S_POS)], {}, node)
    chk.absorb_interp(I)
    oo = st.heap[oav.obj]
    bad = []
    for flag in m.flags:
        v = oo.attrs.get(flag)
        val = v.const if (v is not None and v.has_const()) else (None if v is not None else "class-default")
        if v is None:
            ce = ci.find_class_attr(flag)
            val = ast.literal_eval(ce) if ce is not None else None
        if val is not False:
            bad.append((flag, val))
    for memo in m.memo:
        mv = oo.attrs.get(memo)
        if not (mv is not None and mv.kind == K_DICT and mv.dmay is not None and not mv.dmay):
            bad.append((memo, "not an empty dict"))
    chk.ob("R-INIT", "%s:%s.__init__" % (ci.module.relpath, cname), "all flags False and memo empty after construction",
           not bad, derived="flags %s" % (bad or "all False"), loc=init.loc())
    ln = oo.attrs.get("_values").length() if oo.attrs.get("_values") is not None else None
    n = oo.attrs.get("_npts")
    chk.ob("R-NPTS", "%s:%s.__init__" % (ci.module.relpath, cname), "npts == len(values) after construction",
           ln is not None and n is not None and n.sym == ln, derived="len(values)=%r npts=%r" % (ln, n.sym if n else None),
           loc=init.loc())


def check_who_writes(chk, P, models):
    protected = set()
    for m in models.values():
        protected |= set(m.flags) | set(m.memo)
        for info in m.flags.values():
            protected |= info["storage"] | {r for r in info["reads"] if r.startswith("_")}
    sig_classes = {P.cls(c) for c in CLASSES}
    count = 0
    for fi in P.all_functions():
        if fi.cls is not None and any(fi.cls.is_subclass_of(c) for c in sig_classes):
            continue
        for n in ast.walk(fi.node):
            targets = []
            if isinstance(n, ast.Assign):
                targets = n.targets
            elif isinstance(n, (ast.AugAssign, ast.AnnAssign)):
                targets = [n.target]
            for t in targets:
                for sub in ast.walk(t):
                    if isinstance(sub, ast.Attribute) and isinstance(sub.value, ast.Name) and fi.cls is not None \
                            and fi.params and sub.value.id == fi.params[0]:
                        continue  # attribute of an object of another (non-signal) class
                    if isinstance(sub, ast.Attribute) and sub.attr in protected and isinstance(sub.ctx, ast.Store):
                        count += 1
                        chk.ob("R-WHOWRITES", "%s:%s" % (fi.module.relpath, fi.qualname.split(".", 1)[1]),
                               "no store to protected attribute from outside the signal classes", False,
                               derived="store to .%s" % sub.attr, loc=fi.loc(n), stmt=norm_stmt(n))
            if isinstance(n, ast.Call) and isinstance(n.func, ast.Name) and n.func.id in ("setattr", "exec", "eval"):
                chk.ob("R-WHOWRITES", "%s:%s" % (fi.module.relpath, fi.qualname), "no dynamic attribute writes", False,
                       derived=n.func.id, loc=fi.loc(n), stmt=norm_stmt(n))
    chk.ob("R-WHOWRITES", "eqsig/*", "no store to %d protected attributes outside Signal/AccSignal" % len(protected),
           count == 0, derived="%d stores found in %d functions scanned" % (count, len(list(P.all_functions()))),
           nontrivial=True)

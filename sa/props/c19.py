"""C19 -- surface-energy and time-shift utilities: typing, sign tables, sibling wave construction, row independence."""
import ast
from fractions import Fraction

from ..tyob import *  # noqa
from ..tyob import sibling_defaults, analyse, expect, item, unmodelled_in
from ..poly import Normaliser, Poly, straightline_env
from ..program import norm_stmt

ACC = "eqsig.single.AccSignal"
SE = "eqsig.surface.calc_surface_energy"
CUM = "eqsig.surface.calc_cum_abs_surface_energy"
TSM = "eqsig.surface.get_time_shift_motions"
TS = "eqsig.fns.time_shift."
REDUCING = {"numpy.sum", "numpy.mean", "numpy.max", "numpy.min", "numpy.cumsum", "numpy.diff", "numpy.argmax", "numpy.sort",
            "scipy.integrate.cumulative_trapezoid", "scipy.integrate.trapezoid", "numpy.maximum.accumulate", "numpy.prod"}


def tt(n=3):
    return AV(kind=K_ARRAY, dtype="real", shape=(LinExpr(n),), sign=S_NONNEG, origin=frozenset(["p:travel_times"]),
              tags=frozenset(["p:travel_times"]))


def red(name, arr):
    if arr:
        return AV(kind=K_ARRAY, dtype="real", shape=(LinExpr(3),), sign=S_POS, origin=frozenset(["p:" + name]), tags=frozenset(["p:" + name]))
    return AV(kind=K_SCALAR, dtype="real", shape=(), sign=S_POS, origin=frozenset(["lit"]), tags=frozenset(["p:" + name]), note="pyscalar")


def run(chk):
    P = chk.P
    chk.rule("R-SE-TYPE", "surface energy 0.5*v*|v|: degree 2 and odd in the record; cumulative absolute change: degree 2, even, "
                          "non-negative, nondecreasing along time; trimmed rows have length npts; a scalar travel time returns one row")
    chk.rule("R-SE-SIGN", "nodal: up - down; otherwise up + down (coefficient of the upward wave +1 on both branches); delayed wave = "
                          "np.interp of the record at arange - shifts with left=0, right=0; shifts = 2*travel_times/dt; up = zero-padded record")
    chk.rule("R-SE-SIB", "calc_surface_energy and get_time_shift_motions build the waves identically; up_red scales the upward and "
                         "down_red the delayed wave on both reduction branches")
    chk.rule("R-SE-ROWS", "no operation mixes rows of a travel-time batch: every reducing/cumulative call on a 2-D travel-time array "
                          "works along the time axis (axis 1 / -1)")
    chk.rule("R-SHIFT-GUARD", "in the array-shifting helpers a slice with a negated upper bound x[:-k] is dominated by the guard k > 0")
    chk.rule("R-JOIN", "join_values_w_shifts: 'add' -> a0 + a1, 'sub' -> a0 - a1, a0 the record zero-padded by max(shifts), a1 the "
                       "shifted copies; join_sig_w_time_shift converts times to integer shifts with / dt and forwards")

    def sig(I, st):
        return make_signal(I, st, P.cls(ACC), name="asig")[1]
    # ------------------------------------------------------------------ typing
    for nodal in (True, False):
        for arr in (False, True):
            for trim in (False, True):
                def build(I, st, fi, nodal=nodal, arr=arr, trim=trim):
                    return dict(asig=sig(I, st), travel_times=tt(), nodal=const_av(nodal), up_red=red("up_red", arr), down_red=red("down_red", arr),
                                trim=const_av(trim))
                tag = "(nodal=%s,array-reduction=%s,trim=%s)" % (nodal, arr, trim)
                r = analyse(chk, SE, build)
                c = "eqsig/surface.py:calc_surface_energy" + tag
                unmodelled_in(r, chk, "R-SE-TYPE", c)
                expect(chk, "R-SE-TYPE", c, r.ret, deg={R: 2}, parity={R: "odd"}, kind=K_ARRAY,
                       tags_has=["quad:trapezoid", "abs", "p:up_red", "p:down_red", "p:travel_times", "interp:linear", "pad"], loc=r.fi.loc())
                if trim:
                    expect(chk, "R-SE-TYPE", c + "[trimmed]", r.ret, shape=(3, "n"), loc=r.fi.loc())
                # the summed wave is integrated as formed: a store of a constant into entries of the sum (both waves already in it) replaces the
                # motion of those rows / samples by that constant, whatever the reductions are
                ow = [e for e in r.events("mutation", SE) if e.how == "subscript-store" and e.target is not None and
                      {"pad", "interp:linear"} <= set(e.target.tags) and e.value is not None and e.value.has_const() and
                      "quad:trapezoid" not in e.target.tags]
                chk.ob("R-SE-SIGN", c + "{wave sum untouched}", "no entries of the summed wave are overwritten before it is integrated", not ow,
                       derived=("`%s` stores the constant %r into the summed wave" % (ow[0].stmt, ow[0].value.const)) if ow else "no store into the sum",
                       loc=ow[0].loc if ow else r.fi.loc(), stmt=ow[0].stmt if ow else None, nontrivial=False)
                rows_rule(chk, r, c)
                r2 = analyse(chk, CUM, build)
                c2 = "eqsig/surface.py:calc_cum_abs_surface_energy" + tag
                unmodelled_in(r2, chk, "R-SE-TYPE", c2)
                expect(chk, "R-SE-TYPE", c2, r2.ret, deg={R: 2}, parity={R: "even"}, sign="nonneg", kind=K_ARRAY, loc=r2.fi.loc())
                rk = len(r2.ret.shape) if r2.ret.shape is not None else None
                chk.ob("R-SE-TYPE", c2 + "[mono]", "nondecreasing along the time (last) axis", rk is not None and (rk - 1) in r2.ret.mono,
                       derived="rank %s, monotone axes %s" % (rk, sorted(r2.ret.mono)), loc=r2.fi.loc())
                if trim:
                    expect(chk, "R-SE-TYPE", c2 + "[trimmed]", r2.ret, shape=(3, "n"), loc=r2.fi.loc())
                rows_rule(chk, r2, c2)
    # the energy expression itself: 0.5 * v * |v| of the integrated velocity
    fe = P.fn(SE)
    def _has_abs(e_):
        return any(isinstance(x, ast.Call) and ast.unparse(x.func).split(".")[-1] in ("abs", "absolute") for x in ast.walk(e_))

    def _energy_expr(e_):
        """the product itself when it is handed straight to another call (trim_to_length(0.5 * v * abs(v), ...))"""
        if isinstance(e_, ast.Call) and ast.unparse(e_.func).split(".")[-1] not in ("abs", "absolute"):
            inner = [a for a in list(e_.args) + [k.value for k in e_.keywords] if _has_abs(a)]
            if len(inner) == 1 and isinstance(inner[0], ast.BinOp):
                return inner[0]
        return e_
    ea = [n for n in ast.walk(fe.node) if isinstance(n, ast.Assign) and isinstance(n.targets[0], ast.Name) and _has_abs(n.value)]
    va = [n for n in ast.walk(fe.node) if isinstance(n, ast.Assign) and isinstance(n.value, ast.Call) and
          ast.unparse(n.value.func).split(".")[-1] == "cumulative_trapezoid" and isinstance(n.targets[0], ast.Name)]
    inplace_ = len(ea) == 1 and any(isinstance(x, ast.AugAssign) and isinstance(x.target, ast.Name) and x.target.id == ea[0].targets[0].id
                                    for x in ast.walk(fe.node))
    if len(ea) == 1 and isinstance(ea[0].value, ast.Call) and ast.unparse(ea[0].value.func).split(".")[-1] in ("abs", "absolute"):
        inplace_ = True         # the located statement is |v| alone: the product with v and 0.5 is formed elsewhere (in place, in steps)
    if len(ea) == 1 and len(va) == 1 and inplace_:
        # the product is finished in place on the located array (e = |v|; e *= v; e *= 0.5): the expression is spread over several statements
        chk.ob("R-SE-TYPE", "eqsig/surface.py:calc_surface_energy{energy}", "energy = 0.5 * v * |v| with v the integrated velocity", False,
               derived="formed in place over several statements", loc=fe.loc(ea[0]), inconclusive=True)
    elif len(ea) == 1 and len(va) == 1:
        v = va[0].targets[0].id
        p = Normaliser().poly(_energy_expr(ea[0].value))
        want = Poly.const(Fraction(1, 2)) * Poly.atom(v) * Poly.atom("abs(%s)" % v)
        chk.ob("R-SE-TYPE", "eqsig/surface.py:calc_surface_energy{energy}", "energy = 0.5 * v * |v| with v the integrated velocity", p == want,
               derived=p.canon(), loc=fe.loc(ea[0]), stmt=norm_stmt(ea[0]))
    else:
        chk.ob("R-SE-TYPE", "eqsig/surface.py:calc_surface_energy{energy}", "one energy expression and one velocity integration", False,
               derived="%d / %d" % (len(ea), len(va)), loc=fe.loc(), inconclusive=True)
    # scalar travel time -> a single row
    r = analyse(chk, SE, lambda I, st, fi: dict(asig=sig(I, st), travel_times=AV(kind=K_SCALAR, dtype="real", shape=(), sign=S_NONNEG, origin=frozenset(["lit"]),
                                                                                  tags=frozenset(["p:travel_times"]), note="pyscalar"), trim=const_av(True)))
    expect(chk, "R-SE-TYPE", "eqsig/surface.py:calc_surface_energy(scalar travel time, trim=True)", r.ret, shape=("n",), deg={R: 2}, loc=r.fi.loc())
    # ------------------------------------------------------------------ the third sibling, by interpretation: batch -> one row per travel time,
    # one travel time (scalar or length 1) -> one series
    for nodal in (True, False):
        for arr in (False, True):
            def build3(I, st, fi, nodal=nodal, arr=arr):
                return dict(asig=sig(I, st), travel_times=tt(), nodal=const_av(nodal), up_red=red("up_red", arr), down_red=red("down_red", arr), trim=const_av(True))
            r3 = analyse(chk, TSM, build3)
            c3 = "eqsig/surface.py:get_time_shift_motions(nodal=%s,array-reduction=%s,trim=True)" % (nodal, arr)
            unmodelled_in(r3, chk, "R-SE-TYPE", c3)
            expect(chk, "R-SE-TYPE", c3, r3.ret, deg={R: 1}, kind=K_ARRAY, shape=(3, "n"),
                   tags_has=["p:up_red", "p:down_red", "p:travel_times", "interp:linear", "pad"], loc=r3.fi.loc())
    r3 = analyse(chk, TSM, lambda I, st, fi: dict(asig=sig(I, st), travel_times=AV(kind=K_SCALAR, dtype="real", shape=(), sign=S_NONNEG, origin=frozenset(["lit"]),
                                                                                    tags=frozenset(["p:travel_times"]), note="pyscalar"), trim=const_av(True)))
    unmodelled_in(r3, chk, "R-SE-TYPE", "eqsig/surface.py:get_time_shift_motions(scalar travel time)")
    expect(chk, "R-SE-TYPE", "eqsig/surface.py:get_time_shift_motions(scalar travel time, trim=True)", r3.ret, shape=("n",), deg={R: 1}, loc=r3.fi.loc())
    for q_ in (SE, TSM):
        r3 = analyse(chk, q_, lambda I, st, fi: dict(asig=sig(I, st), travel_times=tt(1), trim=const_av(True)))
        c3 = "eqsig/surface.py:%s(one travel time in a list, trim=True)" % q_.split(".")[-1]
        unmodelled_in(r3, chk, "R-SE-TYPE", c3)
        expect(chk, "R-SE-TYPE", c3, r3.ret, shape=("n",), loc=r3.fi.loc())
    sibling_defaults(chk, "R-SE-SIB", [SE, CUM, TSM], neutral={"up_red": 1.0, "down_red": 1.0, "trim": False, "start": False},
                     label="calc_surface_energy~calc_cum_abs_surface_energy~get_time_shift_motions")
    # ------------------------------------------------------------------ sign tables and wave construction (normal forms), siblings
    summ = {}
    for q in (SE, TSM):
        fi = P.fn(q)
        c = "eqsig/surface.py:%s" % fi.name
        s = wave_summary(chk, fi, c)
        summ[q] = s
    common = sorted(set(summ[SE]) & set(summ[TSM]))
    diff = [k for k in common if summ[SE][k] != summ[TSM][k]]
    chk.ob("R-SE-SIB", "calc_surface_energy~get_time_shift_motions", "identical wave construction (%d shared items)" % len(common),
           not diff and len(common) >= 8, derived=("differ on %s: %s vs %s" % (diff, [summ[SE][k] for k in diff], [summ[TSM][k] for k in diff]))
           if diff else "equal on %s" % common, inconclusive=(not diff and len(common) < 8))       # too little extracted to compare: not located
    # ------------------------------------------------------------------ join
    fj = P.fn(TS + "join_values_w_shifts")
    cj = "eqsig/fns/time_shift.py:join_values_w_shifts"
    env = straightline_env(fj.node.body, Normaliser(), exclude=set(fj.params))
    nm = Normaliser()
    defs = {n.targets[0].id: n for n in ast.walk(fj.node) if isinstance(n, ast.Assign) and isinstance(n.targets[0], ast.Name)}
    pad = [n for n in ast.walk(fj.node) if isinstance(n, ast.Call) and ast.unparse(n.func).split(".")[-1] == "pad"]
    okp = len(pad) == 1 and nm.arg(pad[0].args[0]) == "values" and ast.unparse(pad[0].args[1]).replace(" ", "") in ("(0,np.max(shifts))", "(0,max(shifts))") \
        and (any(k.arg == "constant_values" and ast.unparse(k.value) == "0" for k in pad[0].keywords) or
             (len(pad[0].args) == 2 and not [k for k in pad[0].keywords if k.arg != "mode" or ast.unparse(k.value) not in ("'constant'",)]))  # np.pad's defaults
    chk.ob("R-JOIN", cj + "{a0}", "a0 = values zero-padded at the end by max(shifts)", okp, derived=norm_stmt(pad[0]) if pad else "no np.pad",
           loc=fj.loc(pad[0]) if pad else fj.loc())
    put = [n for n in ast.walk(fj.node) if isinstance(n, ast.Call) and ast.unparse(n.func).split(".")[-1] == "put_array_in_2d_array"]
    chk.ob("R-JOIN", cj + "{a1}", "a1 = put_array_in_2d_array(values, shifts)", len(put) == 1 and [nm.arg(a) for a in put[0].args[:2]] == ["values", "shifts"],
           derived=norm_stmt(put[0]) if put else "none", loc=fj.loc(put[0]) if put else fj.loc())
    a0n = [k for k, n in defs.items() if pad and n.value is pad[0]]
    a1n = [k for k, n in defs.items() if put and n.value is put[0]]
    table = {}
    for n in ast.walk(fj.node):
        if isinstance(n, ast.If) and isinstance(n.test, ast.Compare) and isinstance(n.test.comparators[0], ast.Constant):
            lit = n.test.comparators[0].value
            rets = [x for x in n.body if isinstance(x, ast.Return)]
            if rets and a0n and a1n:
                p = Normaliser().poly(rets[0].value)
                table[lit] = (p.t.get(((a0n[0], Fraction(1)),)), p.t.get(((a1n[0], Fraction(1)),)), len(p.t))
    chk.ob("R-JOIN", cj + "{table}", "'add' -> a0 + a1 ; 'sub' -> a0 - a1", table == {"add": (1, 1, 2), "sub": (1, -1, 2)},
           derived="%s" % {k: (str(v[0]), str(v[1])) for k, v in table.items()}, loc=fj.loc(),
           # neither branch located (a dispatch table, a helper per join type): nothing to compare; a located branch with other coefficients refutes
           inconclusive=not any(k in table and table[k][0] is not None and table[k][1] is not None for k in ("add", "sub")))
    for jt, sgn in (("add", 1), ("sub", -1)):
        r = analyse(chk, fj.qualname, lambda I, st, fi, jt=jt: dict(values=rec_array("values"), shifts=AV(
            kind=K_ARRAY, dtype="int", shape=(LinExpr(3),), origin=frozenset(["p:shifts"]), tags=frozenset(["p:shifts"])), jtype=const_av(jt)))
        expect(chk, "R-JOIN", cj + "(%s)" % jt, r.ret, lin=[R], kind=K_ARRAY, tags_has=["pad", "p:shifts"], loc=fj.loc())
    fs = P.fn(TS + "join_sig_w_time_shift")
    r = analyse(chk, fs.qualname, lambda I, st, fi: dict(sig=make_signal(I, st, P.cls(ACC), name="sig")[1], time_shifts=AV(
        kind=K_ARRAY, dtype="real", shape=(LinExpr(3),), origin=frozenset(["p:time_shifts"]), tags=frozenset(["p:time_shifts"]))))
    cs = "eqsig/fns/time_shift.py:join_sig_w_time_shift"
    calls = [e for e in r.events("call") if e.callee == fj.qualname]
    if len(calls) == 1:
        b = calls[0].bound
        expect(chk, "R-JOIN", cs + ".arg[shifts]", b["shifts"], dtype="int", tags_has=["p:time_shifts", "attr:_dt"], deg={DT: -1} if False else {},
               loc=calls[0].loc)
        org = b["values"].origin
        chk.ob("R-JOIN", cs + ".arg[values]", "the signal's values are forwarded", bool(org) and all(t.endswith(".values") for t in org),
               derived="origin %s" % sorted(org), loc=calls[0].loc)
        jt = b["jtype"]
        chk.ob("R-JOIN", cs + ".arg[jtype]", "jtype is forwarded", any(isinstance(k.value, ast.Name) and k.value.id == "jtype" and k.arg == "jtype"
                                                                   for n in ast.walk(fs.node) if isinstance(n, ast.Call) for k in n.keywords) or
               any(isinstance(a, ast.Name) and a.id == "jtype" for n in ast.walk(fs.node) if isinstance(n, ast.Call) for a in n.args),
               derived="forwarded", loc=calls[0].loc, nontrivial=False)
        sh = [n for n in ast.walk(fs.node) if isinstance(n, ast.Assign) and isinstance(n.targets[0], ast.Name) and n.targets[0].id == "shifts"]
        if sh and isinstance(sh[0].value, ast.Call) and sh[0].value.args:
            p = Normaliser().poly(sh[0].value.args[0])
            chk.ob("R-JOIN", cs + "{shifts}", "shifts = time_shifts / dt (as integers)", p == Poly.atom("time_shifts") * Poly.atom("sig.dt").inverse() and
                   any(k.arg == "dtype" and ast.unparse(k.value) == "int" for k in sh[0].value.keywords), derived=p.canon(), loc=fs.loc(sh[0]))
    else:
        chk.ob("R-JOIN", cs, "one call of join_values_w_shifts", False, derived="%d" % len(calls), loc=fs.loc())
    # slices x[:-k] in the shifting helpers must be guarded by k > 0 (x[:-0] is empty)
    for q, build in ((TS + "put_array_in_2d_array", lambda I, st, fi: dict(values=rec_array("values"), shifts=AV(
            kind=K_ARRAY, dtype="int", shape=(LinExpr(3),), origin=frozenset(["p:shifts"]), tags=frozenset(["p:shifts"])), clip=AV(kind=K_STR))),
                     ("eqsig.surface.trim_to_length", lambda I, st, fi: dict(values=rec_array("values", shape=(LinExpr(3), LinExpr("n"))),
                                                                             npts=int_scalar("npts", "n"), surf2depth_travel_times=tt(),
                                                                             dt=pos_scalar("dt", DT), trim=unknown_bool("trim"), start=unknown_bool("start")))):
        r = analyse(chk, q, build)
        hz = [e for e in r.I.events if e.kind == "neg-zero-slice"]
        c = "%s:%s" % (r.fi.module.relpath, r.fi.name)
        chk.ob("R-SHIFT-GUARD", c, "every slice x[:-k] is reached only with k > 0 (x[:-0] would select nothing)", not hz,
               derived="; ".join("%s `%s`" % (e.loc, e.stmt) for e in hz[:3]) or "no unguarded negative upper bound", loc=hz[0].loc if hz else r.fi.loc(),
               stmt=hz[0].stmt if hz else None)
    put_rules(chk)
    chk.floor("R-PUT", 6)
    chk.floor("R-SE-TYPE", 100)
    chk.floor("R-SE-SIGN", 10)
    chk.floor("R-SE-ROWS", 16)
    chk.floor("R-JOIN", 9)


def put_rules(chk):
    """put_array_in_2d_array: row i holds the values from column start_extras + shifts[i] on, start_extras = -min(min(shifts), 0) columns
    are added in front and end_extras = max(max(shifts), 0) behind, the rest is zero; the clip options cut exactly those added columns.
    Read off the syntax with every single-assignment local inlined, so the names of the loop variables and temporaries do not matter."""
    P = chk.P
    fi = P.fn(TS + "put_array_in_2d_array")
    # the larger / smaller of a number and 0 has several exact spellings (np.max([x, 0]), np.maximum(x, 0), max(x, 0); x.max() for np.max(x)):
    # they are read as the pinned spelling, so that the extras are compared by what they are
    import copy as _copy

    class _MinMax(ast.NodeTransformer):
        def visit_Call(self, n):
            self.generic_visit(n)
            f = ast.unparse(n.func)
            if isinstance(n.func, ast.Attribute) and n.func.attr in ("max", "min") and not n.args and not n.keywords and f not in ("np.max", "np.min"):
                return ast.copy_location(ast.Call(func=ast.parse("np." + n.func.attr, mode="eval").body, args=[n.func.value], keywords=[]), n)
            if f in ("np.maximum", "numpy.maximum", "max", "np.minimum", "numpy.minimum", "min") and len(n.args) == 2 and not n.keywords and \
                    isinstance(n.args[1], ast.Constant) and n.args[1].value == 0 and not isinstance(n.args[1].value, bool):
                which = "np.max" if "max" in f else "np.min"
                return ast.copy_location(ast.Call(func=ast.parse(which, mode="eval").body, args=[ast.List(elts=[n.args[0], n.args[1]], ctx=ast.Load())],
                                                  keywords=[]), n)
            return n
    _root = ast.fix_missing_locations(_MinMax().visit(_copy.deepcopy(fi.node)))
    fi = type("View", (), {"node": _root, "loc": fi.loc, "params": fi.params})()
    c = "eqsig/fns/time_shift.py:put_array_in_2d_array"
    chk.rule("R-PUT", "put_array_in_2d_array: extras from min / max of the shifts against 0, zeros buffer of npts + both extras columns, row i "
                      "stored at [start_extras + shift_i : start_extras + shift_i + npts], clip 'end'/'both' drops the end extras (when > 0), "
                      "'start'/'both' the start extras")
    vals, shf = fi.params[0], fi.params[1]
    nm = straightline_env(fi.node.body, Normaliser(), exclude=set(fi.params))
    defs = {n.targets[0].id: n for n in ast.walk(fi.node) if isinstance(n, ast.Assign) and len(n.targets) == 1 and isinstance(n.targets[0], ast.Name)}
    loops = [n for n in ast.walk(fi.node) if isinstance(n, ast.For)]
    lp = None
    row = col = None
    for n in loops:
        it = n.iter
        if isinstance(it, ast.Call) and ast.unparse(it.func) == "enumerate" and len(it.args) == 1 and ast.unparse(it.args[0]) == shf and \
                isinstance(n.target, ast.Tuple) and len(n.target.elts) == 2 and all(isinstance(x, ast.Name) for x in n.target.elts):
            lp, row, col = n, n.target.elts[0].id, n.target.elts[1].id
    stores = [st for st in (ast.walk(lp) if lp is not None else []) if isinstance(st, ast.Assign) and isinstance(st.targets[0], ast.Subscript) and
              isinstance(st.targets[0].slice, ast.Tuple) and len(st.targets[0].slice.elts) == 2 and isinstance(st.targets[0].slice.elts[1], ast.Slice)]
    npts = Normaliser().poly(ast.parse("len(%s)" % vals, mode="eval").body)
    se_p = Normaliser().poly(ast.parse("-np.min([np.min(%s), 0])" % shf, mode="eval").body)
    ee_p = Normaliser().poly(ast.parse("np.max([np.max(%s), 0])" % shf, mode="eval").body)
    buf = None
    if lp is None:
        # the same placement without a loop: out[arange(rows)[:, None], (start_extras + shifts)[:, None] + arange(npts)[None, :]] = values
        vst = [st for st in fi.node.body if isinstance(st, ast.Assign) and isinstance(st.targets[0], ast.Subscript) and
               isinstance(st.targets[0].value, ast.Name) and isinstance(st.targets[0].slice, ast.Tuple) and len(st.targets[0].slice.elts) == 2 and
               not any(isinstance(x, ast.Slice) for x in st.targets[0].slice.elts)]
        if len(vst) == 1:
            st = vst[0]
            buf = st.targets[0].value.id
            A, B = [nm.poly(x) for x in st.targets[0].slice.elts]
            wantA = Normaliser().poly(ast.parse("np.arange(len(%s))" % shf, mode="eval").body)
            wantB = se_p + Poly.atom(shf) + Normaliser().poly(ast.parse("np.arange(len(%s))" % vals, mode="eval").body)
            chk.ob("R-PUT", c + "{placement}", "row i is stored at columns [start_extras + shift_i : start_extras + shift_i + npts], start_extras = "
                   "-min(min(shifts), 0)", A == wantA and B == wantB and ast.unparse(st.value) == vals,
                   derived="%s[%s, %s] = %s" % (buf, A.canon(), B.canon(), ast.unparse(st.value)), loc=fi.loc(st), stmt=norm_stmt(st))
    if buf is None and (lp is None or len(stores) != 1):
        chk.ob("R-PUT", c + "{placement}", "one loop over enumerate(shifts) with one row store", False,
               derived="%d loop(s) over enumerate(%s), %d row store(s)" % (0 if lp is None else 1, shf, len(stores)), inconclusive=True, loc=fi.loc())
        return
    if buf is None:
      st = stores[0]
      env = Normaliser()
      env.env = dict(nm.env)
      straightline_env(lp.body, env, exclude={row, col})
      r_, sl = st.targets[0].slice.elts
      buf = st.targets[0].value.id if isinstance(st.targets[0].value, ast.Name) else None
      SE, EE = Poly.atom("-np.min"), None
      want_se = "-1*np.min([np.min(%s), 0])" % shf
      want_ee = "1*np.max([np.max(%s), 0])" % shf
      lo, hi = (env.poly(sl.lower) if sl.lower is not None else None), (env.poly(sl.upper) if sl.upper is not None else None)
      J = Poly.atom(col)
      npts = Normaliser().poly(ast.parse("len(%s)" % vals, mode="eval").body)
      se_p = Normaliser().poly(ast.parse("-np.min([np.min(%s), 0])" % shf, mode="eval").body)
      ee_p = Normaliser().poly(ast.parse("np.max([np.max(%s), 0])" % shf, mode="eval").body)
      okrow = isinstance(r_, ast.Name) and r_.id == row and ast.unparse(st.value) == vals
      chk.ob("R-PUT", c + "{placement}", "row i is stored at columns [start_extras + shift_i : start_extras + shift_i + npts], start_extras = "
             "-min(min(shifts), 0)", okrow and lo == se_p + J and hi is not None and lo is not None and hi - lo == npts,
             derived="%s[%s, %s : %s] = %s" % (buf, ast.unparse(r_), lo.canon() if lo is not None else None, hi.canon() if hi is not None else None,
                                             ast.unparse(st.value)), loc=fi.loc(st), stmt=norm_stmt(st))
    # the buffer
    allocs = [n for n in ast.walk(fi.node) if isinstance(n, ast.Assign) and len(n.targets) == 1 and isinstance(n.targets[0], ast.Name) and
              n.targets[0].id == buf and isinstance(n.value, ast.Call) and ast.unparse(n.value.func) in ("np.zeros", "numpy.zeros")]
    alloc = allocs[0] if len(allocs) == 1 else None
    oka, der = False, "no allocation of `%s` found" % buf
    inc = True
    if alloc is not None and isinstance(alloc.value, ast.Call) and ast.unparse(alloc.value.func) in ("np.zeros", "numpy.zeros") and alloc.value.args and \
            isinstance(alloc.value.args[0], (ast.Tuple, ast.List)) and len(alloc.value.args[0].elts) == 2:
        d0, d1 = [nm.poly(x) for x in alloc.value.args[0].elts]
        oka = d0 == Normaliser().poly(ast.parse("len(%s)" % shf, mode="eval").body) and d1 == npts + se_p + ee_p
        der = "np.zeros((%s, %s))" % (d0.canon(), d1.canon())
        inc = False
    chk.ob("R-PUT", c + "{buffer}", "zeros of shape (len(shifts), npts + start_extras + end_extras), end_extras = max(max(shifts), 0)", oka, derived=der,
           loc=fi.loc(alloc) if alloc is not None else fi.loc(), inconclusive=inc)
    # the clip options: which literals select which cut, and what is cut
    def lits(test):
        out = set()
        for x in ast.walk(test):
            if isinstance(x, ast.Compare) and len(x.ops) == 1 and isinstance(x.ops[0], ast.In) and isinstance(x.comparators[0], (ast.List, ast.Tuple, ast.Set)):
                out |= {e.value for e in x.comparators[0].elts if isinstance(e, ast.Constant)}
            elif isinstance(x, ast.Compare) and len(x.ops) == 1 and isinstance(x.ops[0], ast.Eq) and isinstance(x.comparators[0], ast.Constant) and \
                    isinstance(x.comparators[0].value, str):
                out.add(x.comparators[0].value)
        return out
    cuts = []
    # names bound once to a test (clip_end = clip in (...)) are read through; a negated test selects by its else side, which is the rest of
    # the block when the body always leaves
    import copy as _copy
    once = {}
    cnt = {}
    for n in ast.walk(fi.node):
        if isinstance(n, ast.Name) and isinstance(n.ctx, ast.Store):
            cnt[n.id] = cnt.get(n.id, 0) + 1
    for n in ast.walk(fi.node):
        if isinstance(n, ast.Assign) and len(n.targets) == 1 and isinstance(n.targets[0], ast.Name) and cnt.get(n.targets[0].id) == 1 and \
                isinstance(n.value, (ast.Compare, ast.BoolOp, ast.UnaryOp)):
            once[n.targets[0].id] = n.value

    class _In(ast.NodeTransformer):
        def visit_Name(self, x):
            return self.visit(_copy.deepcopy(once[x.id])) if (isinstance(x.ctx, ast.Load) and x.id in once) else x

    def sides(block):
        for k, n in enumerate(block):
            if isinstance(n, ast.If):
                t = _In().visit(_copy.deepcopy(n.test))
                neg = isinstance(t, ast.UnaryOp) and isinstance(t.op, ast.Not)
                pos_side = n.body if not neg else (n.orelse or (block[k + 1:] if _always_leaves(n.body) else []))
                if lits(t):
                    yield t, pos_side, n
                for sub in (n.body, n.orelse):
                    for y in sides(sub):
                        yield y
            else:
                for fld in ("body", "orelse"):
                    sub = getattr(n, fld, None)
                    if isinstance(sub, list) and sub and isinstance(sub[0], ast.stmt) and not isinstance(n, (ast.FunctionDef, ast.ClassDef)):
                        for y in sides(sub):
                            yield y

    def _always_leaves(body):
        return bool(body) and isinstance(body[-1], (ast.Return, ast.Raise))
    for t_, side, n in sides(fi.node.body):
        if True:
            for x in [y for b_ in side for y in ast.walk(b_)]:
                if isinstance(x, ast.Subscript) and isinstance(x.value, ast.Name) and x.value.id == buf and isinstance(x.ctx, ast.Load) and \
                        isinstance(x.slice, ast.Tuple) and len(x.slice.elts) == 2 and isinstance(x.slice.elts[1], ast.Slice):
                    s2 = x.slice.elts[1]
                    cuts.append((frozenset(lits(t_)), nm.poly(s2.lower) if s2.lower is not None else None,
                                 nm.poly(s2.upper) if s2.upper is not None else None, n, t_))
    endc = [x for x in cuts if x[1] is None and x[2] is not None]
    startc = [x for x in cuts if x[1] is not None and x[2] is None]
    chk.ob("R-PUT", c + "{clip end}", "clip in ('end', 'both') cuts the end extras: [:, :-end_extras], only when end_extras > 0", len(endc) == 1 and
           endc[0][0] == frozenset(["end", "both"]) and endc[0][2] == Poly.const(-1) * ee_p and
           any(isinstance(y, ast.Compare) and isinstance(y.ops[0], ast.Gt) and nm.poly(y.left) == ee_p and nm.poly(y.comparators[0]) == Poly.const(0)
               for y in ast.walk(endc[0][4])),
           derived="%s" % [(sorted(x[0]), x[2].canon()) for x in endc], loc=fi.loc(endc[0][3]) if endc else fi.loc(), inconclusive=not endc)
    chk.ob("R-PUT", c + "{clip start}", "clip in ('start', 'both') cuts the start extras: [:, start_extras:]", len(startc) == 1 and
           startc[0][0] == frozenset(["start", "both"]) and startc[0][1] == se_p,
           derived="%s" % [(sorted(x[0]), x[1].canon()) for x in startc], loc=fi.loc(startc[0][3]) if startc else fi.loc(), inconclusive=not startc)
    # typing of the result on the interpretation: linear in the values, independent of nothing else that scales, fresh storage
    r = analyse(chk, TS + "put_array_in_2d_array", lambda I, st_, fi_: dict(values=rec_array("values"), shifts=AV(
        kind=K_ARRAY, dtype="int", shape=(LinExpr(3),), origin=frozenset(["p:shifts"]), tags=frozenset(["p:shifts"])), clip=const_av("none")))
    unmodelled_in(r, chk, "R-PUT", c)
    expect(chk, "R-PUT", c + ".result", r.ret, lin=[R], kind=K_ARRAY, loc=fi.loc())
    ss = [e for e in r.events("store-shape", TS + "put_array_in_2d_array")] if lp is not None else []
    if lp is not None:
      chk.ob("R-PUT", c + "{row width}", "the stored slice is exactly as wide as the values", bool(ss) and all(e.target_shape == e.value_shape for e in ss),
           derived="%s" % [(e.target_shape, e.value_shape) for e in ss], loc=ss[0].loc if ss else fi.loc(), inconclusive=not ss)


def rows_rule(chk, r, c):
    seen = set()
    n = 0
    for e in r.events("lib-call"):
        if e.name not in REDUCING:
            continue
        a = e.args[0] if e.args else None
        if a is None or "p:travel_times" not in a.tags or a.shape is None or len(a.shape) != 2:
            continue
        k = (e.fn, e.stmt, e.name)
        if k in seen:
            continue
        seen.add(k)
        n += 1
        ax = e.kwargs.get("axis")
        av = ax.const if (ax is not None and ax.has_const()) else ("default" if ax is None else "?")
        default_last = e.name in ("scipy.integrate.cumulative_trapezoid", "scipy.integrate.trapezoid", "numpy.diff")
        ok = av in (1, -1) or (av == "default" and default_last)
        chk.ob("R-SE-ROWS", "%s{%s}" % (c, e.stmt), "%s works along the time axis of the (travel times x time) array" % e.name.split(".")[-1], ok,
               derived="axis=%s" % av, loc=e.loc, stmt=e.stmt)
    if n == 0:
        chk.ob("R-SE-ROWS", c, "reducing operations on the batch were enumerated", False, derived="none found", inconclusive=True)


def wave_summary(chk, fi, c):
    """canonical forms of the wave construction of one function; also emits the R-SE-SIGN obligations"""
    nm = Normaliser()
    out = {}
    # the quantities are known by what makes them, then given the names the pinned tree uses: the array made by np.pad of the record is
    # the upward wave, the one made by np.interp the delayed wave, the first argument of that interp the delay positions, what is
    # subtracted from arange(...) there the shifts, and int(max(shifts)) the largest shift
    import copy as _copy
    root = fi.node
    a0 = [n for n in ast.walk(root) if isinstance(n, ast.Assign) and len(n.targets) == 1 and isinstance(n.targets[0], ast.Name)]
    roles = {}

    def made_by(short):
        return [n for n in a0 if isinstance(n.value, ast.Call) and ast.unparse(n.value.func).split(".")[-1] == short]
    pd_, ip_ = made_by("pad"), made_by("interp")
    if len(pd_) == 1:
        roles[pd_[0].targets[0].id] = "up_wave"
    inline_pos = None
    if len(ip_) == 1:
        roles[ip_[0].targets[0].id] = "down_waves"
        if ip_[0].value.args and isinstance(ip_[0].value.args[0], ast.BinOp) and isinstance(ip_[0].value.args[0].op, ast.Sub):
            inline_pos = True
            r_ = ip_[0].value.args[0].right
            while isinstance(r_, ast.Subscript):
                r_ = r_.value
            if isinstance(r_, ast.Name):
                roles[r_.id] = "shifts"
        if ip_[0].value.args and isinstance(ip_[0].value.args[0], ast.Name):
            roles[ip_[0].value.args[0].id] = "dshifted"
            dsd = [n for n in a0 if n.targets[0].id == ip_[0].value.args[0].id]
            if len(dsd) == 1 and isinstance(dsd[0].value, ast.BinOp) and isinstance(dsd[0].value.op, ast.Sub):
                r_ = dsd[0].value.right
                while isinstance(r_, ast.Subscript):
                    r_ = r_.value
                if isinstance(r_, ast.Name):
                    roles[r_.id] = "shifts"
    for n in a0:
        if isinstance(n.value, ast.Call) and ast.unparse(n.value.func) == "int" and n.value.args and isinstance(n.value.args[0], ast.Call) and \
                ast.unparse(n.value.args[0].func).split(".")[-1] == "max":
            roles[n.targets[0].id] = "max_shift"
    roles = {k: v for k, v in roles.items() if k != v}
    if roles and not (set(roles.values()) & {x.id for x in ast.walk(root) if isinstance(x, ast.Name)}):
        from ..normalise import _Rename
        root = ast.fix_missing_locations(_Rename(roles).visit(_copy.deepcopy(root)))
    fi = type("View", (), {"node": root, "loc": fi.loc, "params": fi.params})()
    assigns = [n for n in ast.walk(fi.node) if isinstance(n, ast.Assign) and len(n.targets) == 1 and isinstance(n.targets[0], ast.Name)]
    # locals that only rename an expression of the parameters once (time_shifts = 2 * travel_times) are read through
    once_ = {}
    for n in assigns:
        once_.setdefault(n.targets[0].id, []).append(n)
    for k_, v_ in once_.items():
        if len(v_) == 1 and k_ not in ("shifts", "max_shift", "up_wave", "down_waves", "dshifted", "acc_series") and k_ not in fi.params and \
                not any(isinstance(x, ast.Call) for x in ast.walk(v_[0].value)) and \
                not any(isinstance(x, ast.AugAssign) and isinstance(x.target, ast.Name) and x.target.id == k_ for x in ast.walk(fi.node)):
            nm.env[k_] = Normaliser().poly(v_[0].value)
    # a local bound once to the record read for reading only (values = asig.values, np.asarray(asig.values)), to its length (npts = asig.npts,
    # len(values)) or to an index vector np.arange(E) is what it names
    for k_, v_ in once_.items():
        if len(v_) != 1 or k_ in fi.params or k_ in ("shifts", "max_shift", "up_wave", "down_waves", "dshifted", "acc_series") or \
                any(isinstance(x, ast.AugAssign) and isinstance(x.target, ast.Name) and x.target.id == k_ for x in ast.walk(fi.node)) or \
                any(isinstance(x, ast.Subscript) and isinstance(x.ctx, ast.Store) and isinstance(x.value, ast.Name) and x.value.id == k_ for x in ast.walk(fi.node)):
            continue
        val_ = v_[0].value
        if isinstance(val_, ast.Call) and ast.unparse(val_.func) in ("np.asarray", "np.asanyarray", "numpy.asarray") and val_.args and \
                nm.arg(val_.args[0]) == "asig.values":
            nm.env[k_] = Poly.atom("asig.values")
        elif isinstance(val_, ast.Call) and ast.unparse(val_.func) == "len" and val_.args and nm.arg(val_.args[0]) == "asig.values":
            nm.env[k_] = Poly.atom("asig.npts")
        elif isinstance(val_, ast.Call) and ast.unparse(val_.func) in ("np.arange", "numpy.arange") and len(val_.args) == 1 and not val_.keywords:
            nm.env[k_] = Poly.atom("np.arange(%s)" % nm.poly(val_.args[0]).canon())
    byname = {}
    for n in assigns:
        byname.setdefault(n.targets[0].id, []).append(n)
    def one(name):
        return byname.get(name, [None])[0]
    sh = one("shifts")
    if sh is not None:
        p = nm.poly(sh.value)
        # the array form of the travel times under another local name (tts = np.array(travel_times) / np.array([travel_times])) is the travel times
        arr_alias = set()
        for k_, v_ in byname.items():
            def _is_arr(e_):
                return isinstance(e_, ast.Call) and ast.unparse(e_.func).split(".")[-1] in ("array", "asarray", "atleast_1d") and len(e_.args) == 1 and \
                    ast.unparse(e_.args[0]).replace(" ", "") in ("travel_times", "[travel_times]")
            if k_ != "travel_times" and v_ and all(_is_arr(x.value) for x in v_):
                arr_alias.add(k_)
        if arr_alias:
            p = p.subst_atoms(lambda a_: "travel_times" if a_ in arr_alias else a_)
        out["shifts"] = p.canon()
        chk.ob("R-SE-SIGN", c + "{shifts}", "shifts = 2 * travel_times / dt", p == Poly.const(2) * Poly.atom("travel_times") * Poly.atom("asig.dt").inverse(),
               derived=p.canon(), loc=fi.loc(sh), stmt=norm_stmt(sh))
    ms = one("max_shift")
    if ms is not None:
        out["max_shift"] = nm.arg(ms.value)
    uw = one("up_wave")
    if uw is not None and isinstance(uw.value, ast.Call):
        call = uw.value
        out["up_wave"] = nm.opaque(call)
        def _zero(e_):
            return isinstance(e_, ast.Constant) and isinstance(e_.value, (int, float)) and not isinstance(e_.value, bool) and e_.value == 0
        cv_ = [k.value for k in call.keywords if k.arg == "constant_values"]
        md_ = [k.value for k in call.keywords if k.arg == "mode"] + list(call.args[2:3])
        okp = ast.unparse(call.func).split(".")[-1] == "pad" and nm.poly(call.args[0]).canon() == "1*asig.values" and \
            ast.unparse(call.args[1]).replace(" ", "") == "(0,max_shift)" and \
            ((cv_ and _zero(cv_[0])) or (not cv_ and md_ and isinstance(md_[0], ast.Constant) and md_[0].value == "constant") or
             (not cv_ and not md_ and not [k for k in call.keywords if k.arg is None]))      # zeros are mode='constant''s default fill, 'constant' np.pad's default mode
        chk.ob("R-SE-SIGN", c + "{up wave}", "up = record zero-padded at the end by max_shift", okp, derived=norm_stmt(uw), loc=fi.loc(uw))
    ds = one("dshifted")
    if ds is not None:
        p = nm.poly(ds.value)
        out["dshifted"] = p.canon()
        want = Poly.atom("np.arange(1*asig.npts + 1*max_shift)") - Poly.atom("shifts")
        chk.ob("R-SE-SIGN", c + "{delay positions}", "positions = arange(npts + max_shift) - shifts", p == want, derived=p.canon(), loc=fi.loc(ds),
               stmt=norm_stmt(ds))
    dw = one("down_waves")
    if dw is not None and isinstance(dw.value, ast.Call):
        call = dw.value
        out["down_waves"] = nm.opaque(call)
        kwn = {k.arg: k.value for k in call.keywords}

        def _zero2(e_):
            return isinstance(e_, ast.Constant) and isinstance(e_.value, (int, float)) and not isinstance(e_.value, bool) and e_.value == 0

        def _xp_ok(e_):
            """arange(npts), or the first npts entries of a longer arange"""
            if nm.poly(e_).canon() in ("1*np.arange(asig.npts)", "1*np.arange(1*asig.npts)"):
                return True
            if isinstance(e_, ast.Subscript) and isinstance(e_.slice, ast.Slice) and e_.slice.lower is None and e_.slice.step is None and \
                    e_.slice.upper is not None and nm.poly(e_.slice.upper).canon() == "1*asig.npts" and nm.poly(e_.value).canon().startswith("1*np.arange("):
                return True
            return False
        pos_ok = nm.arg(call.args[0]) == "dshifted" if call.args else False
        if inline_pos and call.args and isinstance(call.args[0], ast.BinOp):
            p = nm.poly(call.args[0])
            out["dshifted"] = p.canon()
            pos_ok = p == Poly.atom("np.arange(1*asig.npts + 1*max_shift)") - Poly.atom("shifts")
            chk.ob("R-SE-SIGN", c + "{delay positions}", "positions = arange(npts + max_shift) - shifts", pos_ok, derived=p.canon(), loc=fi.loc(dw),
                   stmt=norm_stmt(dw))
        oki = ast.unparse(call.func).split(".")[-1] == "interp" and len(call.args) >= 3 and pos_ok and \
            _xp_ok(call.args[1]) and nm.poly(call.args[2]).canon() == "1*asig.values" and _zero2(kwn.get("left")) and _zero2(kwn.get("right"))
        chk.ob("R-SE-SIGN", c + "{delayed wave}", "down = np.interp(positions, arange(npts), record, left=0, right=0)", oki, derived=norm_stmt(dw),
               loc=fi.loc(dw), inconclusive=ast.unparse(call.func).split(".")[-1] != "interp")      # built without np.interp: not located
    # nodal branches
    for n in ast.walk(fi.node):
        if isinstance(n, ast.If) and isinstance(n.test, ast.Name) and n.test.id == "nodal":
            for label, body, want in (("nodal", n.body, (-1, 1)), ("anti-nodal", n.orelse, (1, 1))):
                a = [x for x in body if isinstance(x, ast.Assign)]
                if len(a) == 1:
                    p = nm.poly(a[0].value)
                    got = (p.t.get((("down_waves", Fraction(1)),)), p.t.get((("up_wave", Fraction(1)),)))
                    tgt_ = a[0].targets[0].id if isinstance(a[0].targets[0], ast.Name) else None
                    later = [x for x in assigns if tgt_ and x.lineno >= n.end_lineno and x not in n.body and x not in n.orelse and
                             any(isinstance(y, ast.Name) and y.id == tgt_ for y in ast.walk(x.value))]
                    if got[1] is None and len(later) >= 1 and isinstance(later[0].value, ast.BinOp):
                        # the branch only picks the signed delayed wave; the sum with the upward wave is formed once after the branch
                        nm2 = Normaliser()
                        nm2.env.update(nm.env)
                        nm2.env[tgt_] = p
                        p = nm2.poly(later[0].value)
                        got = (p.t.get((("down_waves", Fraction(1)),)), p.t.get((("up_wave", Fraction(1)),)))
                    out["branch:" + label] = p.canon()
                    chk.ob("R-SE-SIGN", c + "{%s}" % label, "%s: %+d*down %+d*up" % (label, want[0], want[1]), got == want and len(p.t) == 2,
                           derived=p.canon(), loc=fi.loc(a[0]), stmt=norm_stmt(a[0]))
        if isinstance(n, ast.If) and "hasattr(up_red" in ast.unparse(n.test):
            for label, body in (("array", n.body), ("scalar", n.orelse)):
                ups = [x for x in body if isinstance(x, ast.Assign) and isinstance(x.targets[0], ast.Name) and x.targets[0].id == "up_wave"]
                dns = [x for x in body if isinstance(x, ast.AugAssign) and isinstance(x.target, ast.Name) and x.target.id == "down_waves" and isinstance(x.op, ast.Mult)]
                dns2 = [x for x in body if isinstance(x, ast.Assign) and isinstance(x.targets[0], ast.Name) and x.targets[0].id == "down_waves"]
                pu = nm.poly(ups[0].value) if len(ups) == 1 else None
                pd = (Poly.atom("down_waves") * nm.poly(dns[0].value)) if len(dns) == 1 else (nm.poly(dns2[0].value) if len(dns2) == 1 else None)
                oku = pu is not None and pu == Poly.atom("up_wave") * Poly.atom("up_red")
                okd = pd is not None and pd == Poly.atom("down_waves") * Poly.atom("down_red")
                out["red:" + label] = (pu.canon() if pu else None, pd.canon() if pd else None)
                chk.ob("R-SE-SIB", c + "{reduction %s}" % label, "up_red scales the upward wave, down_red the delayed wave", oku and okd,
                       derived="up: %s ; down: %s" % (pu.canon() if pu else None, pd.canon() if pd else None), loc=fi.loc(n))
    return out

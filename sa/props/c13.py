"""C13 -- peak-only series and equivalent-cycle measures: degrees, exponent bookkeeping, length, monotonicity, rebase order."""
import ast
from fractions import Fraction

from ..tyob import *  # noqa
from ..tyob import analyse, expect, item, unmodelled_in, no_truncation
from ..poly import Normaliser, Poly, straightline_env
from ..program import norm_stmt

IM = "eqsig.im."
PK = "eqsig.fns.peaks_and_crossings."
A, N = "A", "N"   # atoms of the reference amplitude and of the cycle count


def bsym():
    return AV(kind=K_SCALAR, dtype="real", shape=(), sign=S_POS, origin=frozenset(["lit"]), tags=frozenset(["p:b"]), note="pyscalar", expo=Exp({1: 1}))


def pos(name, alg=None):
    return AV(kind=K_SCALAR, dtype="real", shape=(), sign=S_POS, origin=frozenset(["lit"]), tags=frozenset(["p:" + name]), note="pyscalar", alg=alg or {})


def run(chk):
    P = chk.P
    chk.rule("R-PL-DEG", "with record and a_ref scaled together: cycles have degree 0, amplitudes degree (1/b)*b = 1 (symbolic exponent b), "
                         "all even in the record; the cut-off comparison has equal degrees on both sides")
    chk.rule("R-PL-INV", "exponent bookkeeping of the inverse pair: cycles ~ peak^(1/b) * a_ref^(-1/b), amplitude ~ N^(-b) * peak^1, same "
                         "half-cycle weight 0.5")
    chk.rule("R-PL-LEN", "all four results have the record's length, are non-negative and (amplitudes) nondecreasing")
    chk.rule("R-PL-DTYPE", "for integer-typed records no real value (a peak raised to 1/b, ...) is stored into a buffer that inherits "
                           "the record's integer dtype (np.zeros_like(values))")
    chk.rule("R-PK-SHIFT", "both peak-only series rebase a fresh copy (values -= values[0]) before cleaning, and scatter the cleaned "
                           "result through the index map returned by the same cleaning call into zeros of the input's length")
    # ------------------------------------------------------------------ degrees (co-scaled a_ref)
    r = analyse(chk, IM + "calc_n_cyc_array_w_power_law", lambda I, st, fi: dict(values=rec_array("values"), a_ref=pos("a_ref", {R: HOM(1, "even")}), b=bsym()))
    c = "eqsig/im.py:calc_n_cyc_array_w_power_law"
    unmodelled_in(r, chk, "R-PL-DEG", c)
    expect(chk, "R-PL-DEG", c, r.ret, deg={R: 0}, parity={R: "even"}, loc=r.fi.loc())
    expect(chk, "R-PL-LEN", c, r.ret, sign="nonneg", kind=K_ARRAY, tags_has=["cum", "abs"], loc=r.fi.loc())
    # the count is held between peaks: interp1d(kind='previous'), or the library's own interp_left (y[searchsorted(x, x0, 'right') - 1])
    via_left = "searchsorted:right" in r.ret.tags and any(e.callee.endswith("fns.generic.interp_left") for e in r.events("call"))
    # or the running count with a zero entry put in front, indexed by the number of peaks passed (searchsorted(..., side='right')): entry j is
    # the count once j peaks have been passed
    via_count = any("searchsorted:right" in e.index.tags and e.index.kind == K_ARRAY and e.base.f0 and "cum" in e.base.tags
                    for e in r.events("subscript"))
    chk.ob("R-PL-LEN", c + "[via:interp:previous]", "derives through a previous-value (step) interpolation onto the time index",
           "interp:previous" in r.ret.tags or via_left or via_count, derived="tags %s" % sorted(t for t in r.ret.tags if t.startswith(("interp:", "searchsorted:"))),
           loc=r.fi.loc(),
           # a located rival (another interpolation kind, searchsorted with the other side) refutes; a hold built some other way (np.repeat over
           # the gaps between peaks, a loop) is not located
           inconclusive=not any(t.startswith(("interp:", "searchsorted:")) for t in r.ret.tags))
    _sh = r.ret.shape
    chk.ob("R-PL-LEN", c + "[len]", "first dimension is the record's length", _sh is not None and _sh[0] == LinExpr("n"),
           derived="shape %r" % (_sh,), loc=r.fi.loc(), inconclusive=(_sh is None and r.ret.indef) or (_sh is not None and _sh[0] is None))
    # the step function's nodes (this design: np.insert + interp1d): a zero count at index 0 in front, the final count repeated at index
    # len(values) behind -- so the count is 0 before the first peak and holds its last value to the end of the record
    inserts = [n for n in ast.walk(r.fi.node) if isinstance(n, ast.Assign) and len(n.targets) == 1 and isinstance(n.targets[0], ast.Name) and
               isinstance(n.value, ast.Call) and ast.unparse(n.value.func) in ("np.insert", "numpy.insert") and len(n.value.args) >= 3 and
               isinstance(n.value.args[0], ast.Name) and n.value.args[0].id == n.targets[0].id]
    groups = {}
    for n in sorted(inserts, key=lambda x: x.lineno):
        groups.setdefault(n.targets[0].id, []).append(n)
    if len(inserts) == 4 and len(groups) == 2 and all(len(g) == 2 for g in groups.values()):
        from ..poly import Normaliser as _N
        nm_ = _N()
        xname = [k for k, g in groups.items() if ast.unparse(g[1].value.args[2]).replace(" ", "") == "len(values)"]
        yname = [k for k in groups if k not in xname]
        for k, g in groups.items():
            a_ = g[0].value.args
            chk.ob("R-PL-LEN", c + "{nodes: %s leads}" % k, "a zero is put in front: np.insert(%s, 0, 0)" % k,
                   nm_.poly(a_[1]) == Poly.const(0) and nm_.poly(a_[2]) == Poly.const(0), derived=norm_stmt(g[0]), loc=r.fi.loc(g[0]), stmt=norm_stmt(g[0]))
        if len(yname) == 1 and len(xname) == 1:
            Y, X = yname[0], xname[0]
            lenY, lenX = nm_.poly(ast.parse("len(%s)" % Y, mode="eval").body), nm_.poly(ast.parse("len(%s)" % X, mode="eval").body)
            gy, gx = groups[Y][1], groups[X][1]
            py = nm_.poly(gy.value.args[1])
            chk.ob("R-PL-LEN", c + "{nodes: final count repeated}", "the final count is repeated behind: inserted at the end (or before the last, its copy)",
                   py in (lenY, lenY - Poly.const(1)) and ast.unparse(gy.value.args[2]).replace(" ", "") == "%s[-1]" % Y, derived=norm_stmt(gy), loc=r.fi.loc(gy), stmt=norm_stmt(gy))
            px, vx = nm_.poly(gx.value.args[1]), nm_.poly(gx.value.args[2])
            after_y = gx.lineno > gy.lineno
            okx = vx == nm_.poly(ast.parse("len(values)", mode="eval").body) and (px == lenX or (after_y and px == lenY - Poly.const(1)))
            chk.ob("R-PL-LEN", c + "{nodes: end index}", "index len(values) is appended to the peak indices", okx, derived=norm_stmt(gx),
                   loc=r.fi.loc(gx), stmt=norm_stmt(gx))
    cut = [e for e in r.events("compare", r.fi.qualname) if "p:cut_off" in (e.left.tags | e.right.tags) or "red:max" in (e.left.tags | e.right.tags)]
    for e in cut[:1]:
        chk.ob("R-PL-DEG", c + "{cut-off}", "both sides of the cut-off comparison have degree 1 and are even", alg_degree(e.left.a(R)) == Exp(1) and
               alg_degree(e.right.a(R)) == Exp(1) and alg_parity(e.left.a(R)) == "even" and alg_parity(e.right.a(R)) == "even",
               derived="%s vs %s" % (alg_str(e.left.a(R)), alg_str(e.right.a(R))), loc=e.loc, stmt=e.stmt,
               inconclusive=any(is_top(x.a(R)) and not x.a(R)[1] for x in (e.left, e.right)))
    if not cut:
        chk.ob("R-PL-DEG", c + "{cut-off}", "a cut-off comparison against max|values|", False, derived="none found", loc=r.fi.loc())
    # ---- separate atoms: exponents
    r = analyse(chk, IM + "calc_n_cyc_array_w_power_law", lambda I, st, fi: dict(values=rec_array("values"), a_ref=pos("a_ref", {A: HOM(1, "even")}), b=bsym()),
                atoms=(R, A))
    invb = Exp({-1: 1})
    expect(chk, "R-PL-INV", c + "[exponents]", r.ret, deg={R: invb, A: -invb}, atoms=(R, A), loc=r.fi.loc())
    half_weight(chk, r.fi, c, "0.5 / (...)")
    for q, two in (("calc_cyc_amp_array_w_power_law", False), ("calc_cyc_amp_gm_arrays_w_power_law", True), ("calc_cyc_amp_combined_arrays_w_power_law", True)):
        def build(I, st, fi, two=two):
            d = dict(n_cyc=pos("n_cyc", {N: HOM(1, "even")}), b=bsym())
            if two:
                d["values0"], d["values1"] = rec_array("values0"), rec_array("values1")
            else:
                d["values"] = rec_array("values")
            return d
        r = analyse(chk, IM + q, build, atoms=(R, N))
        c = "eqsig/im.py:" + q
        unmodelled_in(r, chk, "R-PL-DEG", c)
        expect(chk, "R-PL-DEG", c, r.ret, deg={R: 1}, parity={R: "even"}, atoms=(R, N), loc=r.fi.loc())
        expect(chk, "R-PL-INV", c + "[exponents]", r.ret, deg={N: -Exp({1: 1})}, atoms=(R, N), loc=r.fi.loc())
        expect(chk, "R-PL-LEN", c, r.ret, length="n", sign="nonneg", mono=0, kind=K_ARRAY, tags_has=["cum", "abs"], loc=r.fi.loc())
        if q == "calc_cyc_amp_array_w_power_law":
            # with a scalar exponent the series is one-dimensional, one value per sample (the column axis exists only for an array of b)
            chk.ob("R-PL-LEN", c + "[scalar b: 1-D]", "for a scalar b the result has shape (len(values),)", r.ret.shape is not None and len(r.ret.shape) == 1,
                   derived="shape %r" % (r.ret.shape,), loc=r.fi.loc(), inconclusive=r.ret.shape is None)
        # a count "how many peaks have occurred up to sample i" read with np.searchsorted(peak indices, arange(n)) credits a peak at its own
        # sample only with side='right' (entries <= i); the default side='left' counts the entries strictly before i
        for e_ in r.I.events:
            if e_.kind == "lib-call" and e_.name == "numpy.searchsorted" and len(e_.args) >= 2 and "arange0" in e_.args[1].tags:
                sd_ = e_.kwargs.get("side") if e_.kwargs else None
                if sd_ is None and len(e_.args) >= 3:
                    sd_ = e_.args[2]
                val_ = sd_.const if (sd_ is not None and sd_.has_const()) else ("left" if sd_ is None else None)
                chk.ob("R-PL-LEN", c + "{peaks counted up to and including the sample}", "np.searchsorted(peak indices, arange(n), side='right')",
                       val_ == "right", derived="side=%r" % (val_,), loc=e_.loc, stmt=e_.stmt, inconclusive=val_ is None)
        if not q.endswith("gm_arrays_w_power_law"):
            half_weight(chk, r.fi, c, "/ 2 / n_cyc")
    # ------------------------------------------------------------------ integer records: buffers inherit the record's dtype
    for q, two in (("calc_cyc_amp_array_w_power_law", False), ("calc_cyc_amp_combined_arrays_w_power_law", True), ("calc_cyc_amp_gm_arrays_w_power_law", True)):
        def build_i(I, st, fi, two=two):
            d = dict(n_cyc=pos("n_cyc"), b=bsym())
            if two:
                d["values0"], d["values1"] = rec_array("values0", dtype="int"), rec_array("values1", dtype="int")
            else:
                d["values"] = rec_array("values", dtype="int")
            return d
        no_truncation(chk, "R-PL-DTYPE", IM + q, build_i, "eqsig/im.py:" + q, what="an integer-typed record")
    for q in ("determine_peaks_only_delta_series", "determine_pseudo_cyclic_peak_only_series"):
        no_truncation(chk, "R-PL-DTYPE", PK + q, lambda I, st, fi: dict(values=rec_array("values", dtype="int")),
                      "eqsig/fns/peaks_and_crossings.py:" + q, what="an integer-typed series")
    # ------------------------------------------------------------------ rebase before use
    for q, inner in (("determine_peaks_only_delta_series", "determine_peak_only_delta_series_4_cleaned_data"),
                     ("determine_pseudo_cyclic_peak_only_series", "_determine_peak_only_series_4_cleaned_data")):
        def setup(I):
            I.tag_returns = {PK + "clean_out_non_changing"}
        r = analyse(chk, PK + q, lambda I, st, fi: dict(values=rec_array("values")), setup=setup)
        c = "eqsig/fns/peaks_and_crossings.py:" + q
        unmodelled_in(r, chk, "R-PK-SHIFT", c)
        cls_ = [e for e in r.events("call", PK + q) if e.callee.endswith("clean_out_non_changing")]
        if len(cls_) != 1:
            chk.ob("R-PK-SHIFT", c + "{order}", "one call of the cleaning routine", False, derived="%d" % len(cls_), loc=r.fi.loc(), inconclusive=not cls_)
        else:
            v = cls_[0].bound["values"]
            # what reaches the cleaning is the series minus its own first sample (x - x[0], in place or not): first element exactly zero
            chk.ob("R-PK-SHIFT", c + "{order}", "the series is rebased to a zero first sample before the cleaning (x - x[0], in place or as a new array)",
                   v.f0 and "p:values" in v.tags and alg_degree(v.a(R)) == Exp(1), derived="first element exactly zero: %s; degree %s" %
                   (v.f0, alg_str(v.a(R))), loc=cls_[0].loc)
            expect(chk, "R-PK-SHIFT", c + "{cleaned input}", v, length="n", kind=K_ARRAY, loc=cls_[0].loc)
        # orientation: the sign that makes the first movement an increase is read from the CLEANED array (its second sample differs from its
        # first by construction); read from the raw series it is 0 whenever the record starts with a plateau and wipes the result out
        sg = [e for e in r.events("lib-call", PK + q) if e.name == "numpy.sign" and e.args and e.args[0].kind in (K_SCALAR, K_TOP)]
        for e in sg[:1]:
            chk.ob("R-PK-SHIFT", c + "{orientation}", "the orienting sign is taken from the cleaned array", "ret:clean_out_non_changing#0" in e.args[0].tags,
                   derived="sign of a value with provenance %s" % (sorted(t for t in e.args[0].tags if t.startswith(("ret:", "p:"))),), loc=e.loc, stmt=e.stmt,
                   detail="a leading plateau gives sign 0: both peak-only series come out identically zero" if
                   "ret:clean_out_non_changing#0" not in e.args[0].tags else None)
        for e in sg[:1]:
            a_ = e.node.args[0] if getattr(e.node, "args", None) else None
            if isinstance(a_, ast.Subscript) and isinstance(a_.slice, ast.Constant) and type(a_.slice.value) is int:
                # the cleaned array starts at 0 (rebased) and its second sample differs from the first: sample 1 IS the first movement
                chk.ob("R-PK-SHIFT", c + "{orientation sample}", "the orienting sign is that of the cleaned array's second sample (the first movement)",
                       a_.slice.value == 1, derived="sample %d" % a_.slice.value, loc=e.loc, stmt=e.stmt)
        puts = [e for e in r.events("lib-call", PK + q) if e.name == "numpy.put"]
        if len(puts) == 1:
            tgt, ind, vals = puts[0].args[:3]
            expect(chk, "R-PK-SHIFT", c + "{scatter target}", tgt, length="n", sign="zero", loc=puts[0].loc)
            chk.ob("R-PK-SHIFT", c + "{scatter map}", "indices are the map returned by the same cleaning call",
                   "ret:clean_out_non_changing#1" in ind.tags and "ret:clean_out_non_changing#0" not in ind.tags - frozenset(["ret:clean_out_non_changing#1"]) or
                   sorted(t for t in ind.tags if t.startswith("ret:")) == ["ret:clean_out_non_changing#1"],
                   derived="%s" % sorted(t for t in ind.tags if t.startswith("ret:")), loc=puts[0].loc)
            chk.ob("R-PK-SHIFT", c + "{scatter values}", "values derive from the cleaned array", "ret:clean_out_non_changing#0" in vals.tags,
                   derived="%s" % sorted(t for t in vals.tags if t.startswith("ret:")), loc=puts[0].loc)
        else:
            chk.ob("R-PK-SHIFT", c + "{scatter}", "one np.put into the full-length series", False, derived="%d" % len(puts), loc=r.fi.loc(),
                   inconclusive=not puts)          # the scatter is spelled some other way (a helper, an indexed store): not located
        expect(chk, "R-PK-SHIFT", c + ".result", r.ret, length="n", deg={R: 1}, kind=K_ARRAY, loc=r.fi.loc())
    from ..tyob import plateau_cleaner_exact
    plateau_cleaner_exact(chk, "R-PK-SHIFT")
    chk.floor("R-PL-DEG", 9)
    chk.floor("R-PL-INV", 6)
    chk.floor("R-PL-LEN", 14)
    chk.floor("R-PK-SHIFT", 14)


def half_weight(chk, fi, c, what):
    """each peak counts as half a cycle: a coefficient 1/2 in the accumulated expression"""
    found = []
    for n in ast.walk(fi.node):
        if isinstance(n, ast.Call) and ast.unparse(n.func).split(".")[-1] == "cumsum" and n.args:
            e = n.args[0]
            # the accumulated array may be a zeros buffer that receives the per-peak contributions by one scattered store
            # (buf[indices] = contributions): then the contributions carry the weight
            if isinstance(e, ast.Name):
                allocs = [a for a in ast.walk(fi.node) if isinstance(a, ast.Assign) and len(a.targets) == 1 and isinstance(a.targets[0], ast.Name)
                          and a.targets[0].id == e.id]
                stores = [a for a in ast.walk(fi.node) if isinstance(a, ast.Assign) and len(a.targets) == 1 and
                          isinstance(a.targets[0], ast.Subscript) and isinstance(a.targets[0].value, ast.Name) and a.targets[0].value.id == e.id]
                if len(allocs) == 1 and isinstance(allocs[0].value, ast.Call) and ast.unparse(allocs[0].value.func).split(".")[-1] in \
                        ("zeros", "zeros_like") and len(stores) == 1:
                    e = stores[0].value
            env = straightline_env(fi.node.body, Normaliser(), exclude=set(fi.params))
            p = env.poly(e)
            found.append(p)
    ok = bool(found) and all(all(co == Fraction(1, 2) for co in p.t.values()) for p in found)
    chk.ob("R-PL-INV", c + "{half cycle}", "each peak weighs 0.5 cycle in the accumulated sum (%s)" % what, ok,
           derived="; ".join(p.canon()[:120] for p in found) or "no cumsum found", loc=fi.loc())

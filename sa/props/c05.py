"""C05 -- signal objects own their data; analysis functions do not mutate inputs.

R-NOMUT  no in-place effect reaches a value whose origin is a parameter (whole package, all paths)
R-OWN    every store to the values of a signal is a fresh array (no escaping reference to caller data)
R-KIND   every value stored as the values of a signal is an ndarray
R-TIME   the time axis is dt * [0..npts-1]
R-PURE   no global / class-level state is written, no nondeterministic source is called
"""
import ast

from ..program import AnalysisError, norm_stmt
from ..interp import Interp, State, Frame, is_fresh_origin
from ..entries import make_signal, rec_array, pos_scalar, R, DT, generalise_defaults
from ..autoargs import auto_args
from ..values import *  # noqa

SIG = "eqsig.single.Signal"
ACC = "eqsig.single.AccSignal"
ANCHOR_FILES = {"eqsig/single.py", "eqsig/multiple.py", "eqsig/fns/peaks_and_crossings.py", "eqsig/stockwell.py",
                "eqsig/surface.py", "eqsig/im.py"}
INPUT_ATTRS = {"_values", "_dt", "_npts"}
MUT_NOTE_ONLY = {"swtf"}


def param_tokens(origins):
    return sorted(t for t in origins if t.startswith("p:"))


def make_cluster(I, st, P, stype):
    ci = P.cls("eqsig.multiple.Cluster")
    init = ci.find_method("__init__")
    fr = Frame(init, st, I)
    node = ast.parse("Cluster(v, d)").body[0].value
    vals = AV(kind=K_ARRAY, dtype="real", shape=(LinExpr("S"), LinExpr("n")), origin=frozenset(["p:cluster_values"]),
              alg={R: LIN}, tags=frozenset(["p:cluster_values"]))
    oav = I.instantiate(fr, ci, [vals, pos_scalar("dt", DT)], {"stypes": const_av(stype)}, node)
    return st.heap[oav.obj], oav

from ..normalise import pinned


def run(chk):
    P = chk.P
    chk.rule("R-NOMUT", "no mutation site (augmented/subscript store, out=, np.put, in-place method, overwrite_x on "
                        "complex, callee that mutates) is reached by a value aliasing a parameter; self is exempt for "
                        "methods of the signal classes only")
    chk.rule("R-OWN", "every store into the values of a signal has a fresh origin (or is the object's own storage)")
    chk.rule("R-KIND", "every value stored as the values of a signal is an ndarray (at every call site)")
    chk.rule("R-TIME", "time = arange(npts) * dt: length npts, degree 1 in dt, ascending from zero")
    chk.rule("R-PURE", "no global/class-level write, no mutable default, no RNG/clock call in the package")
    sigs = {P.cls(SIG), P.cls(ACC)}
    n_entries = 0
    stores = []  # (_values attr-write events, entry)
    # ------------------------------------------------------------------ all functions of the package
    for fi in P.all_functions():
        if fi.name.startswith("__") and fi.name != "__init__":
            continue
        is_sig_method = fi.cls is not None and any(fi.cls.is_subclass_of(c) for c in sigs)
        recv_classes = [None]
        if fi.cls is not None:
            if is_sig_method:
                recv_classes = [c for c in sigs if c.is_subclass_of(fi.cls)]
            elif fi.cls.name == "Cluster":
                recv_classes = ["cluster:acc", "cluster:custom"]
            else:
                continue
        if fi.name == "__init__":
            continue  # constructors are analysed through instantiation below
        # parameters bound as scalars by the role table that the function's own code treats as possibly array-valued (it tests
        # hasattr(p, '__len__') / isinstance / np.isscalar, takes len(p) or subscripts p): a second pass binds them as arrays,
        # because `p *= c` rebinds a scalar but writes into a caller's array
        dual = _arrayish_params(fi)
        for rc, as_array in [(rc, aa) for rc in recv_classes for aa in ((False, True) if dual else (False,))]:
            I = Interp(P)
            I.atoms = {R, DT}
            st = State()
            pos = []
            self_obj = None
            if rc is not None and not isinstance(rc, str):
                self_obj, oav = make_signal(I, st, rc, name="self", flags="unknown", is_param=False)
                pos = [oav]
            elif isinstance(rc, str):
                self_obj, oav = make_cluster(I, st, P, rc.split(":")[1])
                pos = [oav]
                I.events = []
            args = auto_args(I, st, fi, P, flags="unknown")
            if fi.name == "reset_values":
                args["new_values"] = rec_array("new_values", n="m")
            if as_array:
                changed = False
                for pn in dual:
                    cur = args.get(pn)
                    if cur is None or cur.kind in (K_SCALAR, K_BOOL):
                        args[pn] = AV(kind=K_ARRAY, dtype="real", shape=(LinExpr("K"),), origin=frozenset(["p:" + pn]),
                                      tags=frozenset(["p:" + pn]))
                        changed = True
                if not changed:
                    continue
            bound = I.bind(fi, pos, args, None, None)
            generalise_defaults(I, fi, bound, explicit=set(args))
            if fi.kwarg:
                bound[fi.kwarg] = AV(kind=K_DICT, dvals={}, dmust=frozenset(), dmay=None)
            I.run(fi, bound, st, self_obj=self_obj)
            chk.absorb_interp(I)
            n_entries += 1
            chk.files.add(fi.module.relpath)
            label = fi.qualname.split(".", 1)[1] + ("" if rc is None or isinstance(rc, str) else "@" + rc.name) + \
                ("[array-valued %s]" % ",".join(sorted(dual)) if as_array else "")
            construct = "%s:%s" % (fi.module.relpath, label)
            bad = []
            notes = []
            # a helper the pinned tree does not have, private by name, is not an API of the library: its parameters are whatever its
            # callers pass (an output buffer, usually), and every caller is analysed through it (inlined or followed) with its own
            # arguments, so a write that reaches a caller's argument is still reported there
            new_private = fi.qualname not in pinned() and not fi.name.startswith("__") and \
                (fi.name.startswith("_") or fi.module.name.split(".")[-1].startswith("_"))      # also: any function of a new private module
            # NumPy's convention for an output buffer: a parameter `out=None` of a function the pinned tree does not have is where the
            # result is written when the caller asks for it -- an output, not an input
            out_params = {"p:" + p_ for p_ in (list(fi.params) + list(fi.kwonly)) if p_ == "out" and p_ in fi.defaults and
                          isinstance(fi.defaults[p_], ast.Constant) and fi.defaults[p_].value is None} if fi.qualname not in pinned() else set()
            for e in I.events:
                if e.kind == "mutation":
                    pt = param_tokens(e.origins)
                    if pt and set(pt) <= out_params:
                        notes.append("%s writes its result into the output buffer `out` when one is passed (NumPy convention)" % label)
                    elif pt and new_private:
                        notes.append("%s (new private helper) writes into its parameter %s: judged at its callers" % (label, pt))
                    elif pt:
                        bad.append((e, "in-place %s on value aliasing parameter %s" % (e.how, pt)))
                elif e.kind == "attr-write" and e.is_param:
                    if e.attr in INPUT_ATTRS and new_private:
                        notes.append("%s (new private helper) stores to .%s of its parameter object: judged at its callers" % (label, e.attr))
                    elif e.attr in INPUT_ATTRS:
                        bad.append((e, "store to .%s of a parameter object" % e.attr))
                    elif e.attr in MUT_NOTE_ONLY:
                        notes.append("%s attaches .%s to its argument (cache, not data)" % (label, e.attr))
                elif e.kind == "note" and "overwrite_x" in (e.what or ""):
                    if param_tokens(e.origins or ()):
                        chk.note("%s: %s" % (e.loc, e.what))
                if e.kind == "attr-write" and e.attr == "_values" and e.obj is not None and e.via == "plain" and not \
                        (new_private and e.fn == fi.qualname):
                    # (a new private method that stores its parameter is judged at its callers, which are analysed through it with what they pass)
                    stores.append((e, construct, st))
            for n in notes:
                chk.note(n)
            if bad:
                e, why = bad[0]
                chk.ob("R-NOMUT", construct, "arguments left unchanged on every path", False, derived=why,
                       loc=e.loc, stmt=e.stmt, detail="%d offending site(s); call chain %s" % (len(bad), list(e.stack)))
            else:
                nm = sum(1 for e in I.events if e.kind == "mutation")
                chk.ob("R-NOMUT", construct, "arguments left unchanged on every path", True,
                       derived="%d in-place site(s), all on fresh locals or own storage" % nm, nontrivial=nm > 0)
    # ------------------------------------------------------------------ constructors
    for cq in (SIG, ACC):
        ci = P.cls(cq)
        I = Interp(P)
        I.atoms = {R, DT}
        st = State()
        init = ci.find_method("__init__")
        fr = Frame(init, st, I)
        node = ast.parse("X(v, d)").body[0].value
        kw = {"smooth_fa_freqs": AV(kind=K_ARRAY, dtype="real", shape=(LinExpr("F"),), origin=frozenset(["p:smooth_fa_freqs"]))}
        if cq == ACC:
            kw["response_times"] = AV(kind=K_ARRAY, dtype="real", shape=(LinExpr("P"),), origin=frozenset(["p:response_times"]))
        oav = I.instantiate(fr, ci, [rec_array("values"), pos_scalar("dt", DT)], kw, node)
        chk.absorb_interp(I)
        construct = "%s:%s.__init__" % (ci.module.relpath, ci.name)
        bad = [e for e in I.events if e.kind == "mutation" and param_tokens(e.origins)]
        chk.ob("R-NOMUT", construct, "arguments left unchanged on every path", not bad,
               derived="in-place on parameter" if bad else "no in-place effect on arguments", loc=bad[0].loc if bad else None)
        oo = st.heap[oav.obj]
        for e in I.events:
            if e.kind == "attr-write" and e.attr == "_values" and e.via == "plain":
                stores.append((e, construct, st))
        for a, v in sorted(oo.attrs.items()):
            if v.kind == K_ARRAY and a != "_values":
                pt = param_tokens(v.origin)
                chk.ob("R-OWN", construct + "[%s]" % a, "array-valued setting stored by the constructor is a copy", not pt,
                       derived="origin %s" % sorted(v.origin), loc=init.loc())
        # R-TIME on the constructed object
        tprop = ci.find_property("time")
        if tprop is None:
            raise AnalysisError("no time property on %s" % cq)
        fr2 = Frame(tprop, st, I)
        t = I.load_attr(fr2, oav, "time", tprop.node)
        ok = t.kind == K_ARRAY and t.length() is not None and oo.attrs["_npts"].sym is not None and \
            t.length() == oo.attrs["_npts"].sym and alg_degree(t.a(DT)) == Exp(1) and t.f0 and 0 in t.mono and \
            t.a(R)[0] in ("const", "zero")
        chk.ob("R-TIME", "%s:%s.time" % (ci.module.relpath, ci.name), "len npts, deg(dt)=1, starts at 0, ascending, independent of the values",
               ok, derived=repr(t.describe({R, DT})), loc=tprop.loc())
        held = sorted(a for a, av in st.heap[oav.obj].attrs.items() if av.kind == K_ARRAY and (av.origin & t.origin))
        chk.ob("R-TIME", "%s:%s.time[fresh]" % (ci.module.relpath, ci.name), "each read of time returns a fresh array that the object does not keep",
               is_fresh_origin(t.origin) and not held, derived="origin %s; kept in attribute(s) %s" % (sorted(t.origin), held), loc=tprop.loc(),
               detail="a later in-place edit of a slice of .time changes what .time reports" if held else None)
        v = oo.attrs.get("_values")
        chk.ob("R-KIND", construct, "values are an ndarray of length npts after construction",
               v is not None and v.kind == K_ARRAY and v.length() == oo.attrs["_npts"].sym,
               derived="kind=%s len=%r npts=%r" % (v.kind if v else None, v.length() if v else None, oo.attrs["_npts"].sym),
               loc=init.loc())
    # ------------------------------------------------------------------ npts follows a replacement of the values, on every signal class
    for cq in (SIG, ACC):
        ci = P.cls(cq)
        rv = ci.find_method("reset_values")
        if rv is None:
            continue
        I = Interp(P)
        I.atoms = {R, DT}
        st = State()
        o, oav = make_signal(I, st, ci, name="self", flags="unknown", is_param=False)
        new_vals = rec_array("new_values", n="m")
        bound = I.bind(rv, [oav], {rv.params[1]: new_vals}, None, None)
        I.run(rv, bound, st, self_obj=o)
        chk.absorb_interp(I)
        oo = st.heap[o.id]
        v, npts = oo.attrs.get("_values"), oo.attrs.get("_npts")
        ok = v is not None and npts is not None and v.length() is not None and v.length() == LinExpr("m") and npts.sym == LinExpr("m")
        chk.ob("R-KIND", "%s:%s.reset_values{npts}" % (ci.module.relpath, ci.name), "after replacing the values by an array of another length, "
               "npts is the new length (whichever class overrides the hooks reset_values calls)", ok,
               derived="len(values)=%r npts=%r" % (v.length() if v is not None else None, npts.sym if npts is not None else None), loc=rv.loc())
    # ------------------------------------------------------------------ R-OWN / R-KIND at every store to _values
    seen = set()
    for e, entry, st in stores:
        v = e.value
        key = (e.fn, e.stmt, entry)
        if key in seen:
            continue
        seen.add(key)
        site = "%s:%s{%s}" % (e.loc.split(":")[0], e.fn.split(".", 1)[1], e.stmt)
        own = frozenset(t for t in v.origin if t.startswith("o") and "._values" in t)
        rest = v.origin - own
        fresh = all(t.startswith("a@") or t == "lit" for t in rest)
        unknown = "?" in rest
        pt = param_tokens(rest)
        chk.ob("R-OWN", site + " <- " + entry, "stored values have a fresh origin", fresh and not pt,
               derived="origin %s" % sorted(v.origin), loc=e.loc, stmt=e.stmt,
               inconclusive=(not pt and unknown),
               detail="the object keeps a reference to the caller's data: a later in-place correction changes it" if pt else None)
        isarr = v.kind == K_ARRAY
        chk.ob("R-KIND", site + " <- " + entry, "stored values are an ndarray", isarr,
               derived="kind=%s" % v.kind, loc=e.loc, stmt=e.stmt, inconclusive=(v.kind == K_TOP),
               detail=None if isarr else "values become a %s (call chain %s)" % (v.kind, list(e.stack)))
    # ------------------------------------------------------------------ R-PURE
    nglob = 0
    sig_class_names = {c.name for c in P.classes.values()}
    for fi in P.all_functions():
        for n in ast.walk(fi.node):
            if isinstance(n, (ast.Global, ast.Nonlocal)):
                nglob += 1
                chk.ob("R-PURE", "%s:%s" % (fi.module.relpath, fi.qualname), "no global statement", False,
                       derived="global %s" % n.names, loc=fi.loc(n), stmt=norm_stmt(n))
            if isinstance(n, (ast.Assign, ast.AugAssign)):
                ts = n.targets if isinstance(n, ast.Assign) else [n.target]
                for t in ts:
                    for sub in ast.walk(t):
                        if isinstance(sub, ast.Attribute) and isinstance(sub.value, ast.Name) and \
                                isinstance(sub.ctx, ast.Store):
                            r = P.resolve_name(fi.module, sub.value.id, None)
                            if sub.value.id not in fi.params and r is not None and r[0] in ("class", "module") and \
                                    not _is_local(fi, sub.value.id):
                                nglob += 1
                                chk.ob("R-PURE", "%s:%s" % (fi.module.relpath, fi.qualname), "no class/module attribute write",
                                       False, derived="store to %s.%s" % (sub.value.id, sub.attr), loc=fi.loc(n),
                                       stmt=norm_stmt(n))
        for p, d in fi.defaults.items():
            if isinstance(d, (ast.List, ast.Dict, ast.Set, ast.Call, ast.ListComp)):
                nglob += 1
                chk.ob("R-PURE", "%s:%s[%s]" % (fi.module.relpath, fi.qualname, p), "no mutable default argument", False,
                       derived=ast.unparse(d), loc=fi.loc())
    chk.ob("R-PURE", "eqsig/*[globals]", "no global/class-level write or mutable default in %d functions" % len(list(P.all_functions())),
           nglob == 0, derived="%d found" % nglob)
    # nondeterminism: library references resolved through the import tables
    nrng = 0
    from ..program import local_imports_of
    for fi in P.all_functions():
        li = local_imports_of(fi)
        for n in ast.walk(fi.node):
            if isinstance(n, ast.Call):
                r = P.resolve_expr(fi.module, n.func, li)
                if r and r[0] == "lib" and (r[1].startswith(("numpy.random", "random.", "time.", "datetime.", "os.urandom",
                                                            "secrets.", "uuid."))):
                    nrng += 1
                    chk.ob("R-PURE", "%s:%s" % (fi.module.relpath, fi.qualname), "no RNG/clock call", False,
                           derived=r[1], loc=fi.loc(n), stmt=norm_stmt(n))
    chk.ob("R-PURE", "eqsig/*[nondeterminism]", "no RNG/clock call in the package", nrng == 0, derived="%d found" % nrng)
    chk.note("entries analysed: %d" % n_entries)
    chk.floor("R-NOMUT", 190)
    chk.floor("R-OWN", 20)
    chk.floor("R-KIND", 20)
    chk.floor("R-TIME", 4)


def _is_local(fi, name):
    for n in ast.walk(fi.node):
        if isinstance(n, ast.Name) and n.id == name and isinstance(n.ctx, ast.Store):
            return True
    return False


def _arrayish_params(fi):
    """Parameters that the function itself treats as possibly array-valued."""
    out = set()
    params = set(fi.params)
    for n in ast.walk(fi.node):
        if isinstance(n, ast.Subscript) and isinstance(n.value, ast.Name) and n.value.id in params:
            out.add(n.value.id)
        elif isinstance(n, ast.Call) and n.args and isinstance(n.args[0], ast.Name) and n.args[0].id in params:
            f = ast.unparse(n.func)
            if f in ("hasattr", "len", "isinstance", "np.isscalar", "np.ndim", "np.shape", "np.size"):
                out.add(n.args[0].id)
    return out

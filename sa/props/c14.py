"""C14 -- resampling keeps the record: the step rule (rounding direction), shared factor, even rule, sibling agreement."""
import ast

from ..tyob import *  # noqa
from ..tyob import analyse, expect, item, unmodelled_in
from ..program import norm_stmt

ARR = "eqsig.fns.time_step.interp_array_to_approx_dt"
OBJ = "eqsig.fns.time_step.interp_to_approx_dt"
RS = "eqsig.fns.time_step.resample_to_approx_dt"
ACC = "eqsig.single.AccSignal"
REF = "div[dt,tgt]"   # x = dt / target_dt


def tgt():
    return pos_scalar("target_dt", None, sym=LinExpr("tgt"))


REGIMES = {"x==1": dict(Eq=True, NotEq=False, Gt=False, GtE=True, Lt=False, LtE=True),
           "x>1": dict(Eq=False, NotEq=True, Gt=True, GtE=True, Lt=False, LtE=False),
           "x<1": dict(Eq=False, NotEq=True, Gt=False, GtE=False, Lt=True, LtE=True)}
FLIP = {"Gt": "Lt", "Lt": "Gt", "GtE": "LtE", "LtE": "GtE", "Eq": "Eq", "NotEq": "NotEq"}


def paths(q):
    """the three regimes of x = dt/target: x == 1, x > 1, x < 1: every test of x against the literal 1 is answered by the regime"""
    for name, dec in REGIMES.items():
        def oracle(fr, node, dec=dec):
            if fr.fi.qualname != q or not isinstance(node.test, ast.Compare) or len(node.test.ops) != 1:
                return None
            t = node.test
            op = type(t.ops[0]).__name__

            def is_x(expr):
                """the tested quantity is the ratio of the two steps (not a dimension count, a length ...)"""
                try:
                    n0 = len(fr.interp.events)
                    v = fr.interp.ev(expr, fr)
                    del fr.interp.events[n0:]
                except Exception:
                    return False
                return ("p:dt" in v.tags or "attr:_dt" in v.tags) and "p:target_dt" in v.tags
            if isinstance(t.comparators[0], ast.Constant) and t.comparators[0].value == 1 and is_x(t.left):
                return dec.get(op)
            if isinstance(t.left, ast.Constant) and t.left.value == 1 and is_x(t.comparators[0]):
                return dec.get(FLIP.get(op))
            return None
        yield name, oracle


def factor_of(r, q):
    """the divisor applied to dt on this path (from the arithmetic events)"""
    divs = [e for e in r.events("arith", q) if e.op == "Div" and "p:dt" in e.left.tags and e.left.sym == LinExpr("dt")
            and "p:target_dt" not in e.right.tags - e.left.tags or
            (e.op == "Div" and e.left.sym == LinExpr("dt") and e.right.sym != LinExpr("tgt") and e.right.kind == K_SCALAR)]
    divs = [e for e in divs if e.right.sym != LinExpr("tgt")]
    return divs


def _unfloor(t_):
    """floor(floor(x) / k) = floor(x / k) for a positive integer k: int(int(x) // 2) and int(x / 2) are the same number for x >= 0"""
    if not t_:
        return t_
    # int(int(x)) = int(x): truncation is idempotent
    while True:
        i = t_.find("int[int[")
        if i < 0:
            break
        j = i + len("int[int[")
        depth, k = 1, j
        while k < len(t_) and depth:
            depth += {"[": 1, "]": -1}.get(t_[k], 0)
            k += 1
        if depth or not t_[k:].startswith("]"):
            break
        t_ = t_[:i] + "int[" + t_[j:k - 1] + "]" + t_[k + 1:]
    key = "int[div[int["
    pos = 0
    while True:
        i = t_.find(key, pos)
        if i < 0:
            return t_
        j = i + len(key)
        depth, k = 1, j
        while k < len(t_) and depth:
            depth += {"[": 1, "]": -1}.get(t_[k], 0)
            k += 1
        inner = t_[j:k - 1]                  # X of int[X]
        rest = t_[k:]
        import re
        m = re.match(r",(\d+)\]\]", rest)
        if depth == 0 and m:
            t_ = t_[:i] + "int[div[" + inner + "," + m.group(1) + "]]" + rest[m.end():]
            pos = 0
        else:
            pos = i + 1


def run(chk):
    P = chk.P
    chk.rule("R-ROUND", "with x = dt/target: on x > 1 the factor is an integer >= x (ceil); on x < 1 it is the reciprocal of an "
                        "integer and >= x (1/floor(1/x)); on x == 1 it is x; hence new_dt = dt/factor <= target on every branch "
                        "(rounding-relation domain; round()/int()/swapped ceil-floor are modelled and refute)")
    chk.rule("R-GRID", "the returned step dt/factor, the abscissa arange(new_npts)/factor and new_npts = factor*len(values) use one "
                       "factor; interpolation is np.interp over arange(len(values)) and the values; even=True gives 2*int(./2)")
    chk.rule("R-RS-SIB", "resample_to_approx_dt follows the same factor/length rule; interp_to_approx_dt pairs the returned values "
                         "with the returned dt")
    summary = {}
    for q, build in ((ARR, lambda I, st, fi, ev=True: dict(values=rec_array("values"), dt=pos_scalar("dt", DT, sym=LinExpr("dt")),
                                                           target_dt=tgt(), even=const_av(ev))),
                     (RS, lambda I, st, fi, ev=True: dict(asig=make_signal(I, st, P.cls(ACC), name="asig")[1], target_dt=tgt(),
                                                          even=const_av(ev)))):
        for even in (True, False):
            for pname, oracle in paths(q):
                def setup(I, oracle=oracle):
                    I.branch_oracle = oracle
                    I.watch_arith = {q}
                r = analyse(chk, q, lambda I, st, fi, even=even: build(I, st, fi, even), setup=setup)
                c = "%s:%s(%s,even=%s)" % (r.fi.module.relpath, r.fi.name, pname, even)
                unmodelled_in(r, chk, "R-ROUND", c)
                assumed = [e for e in r.I.events if e.kind == "assumed-branch"]
                if not assumed:
                    chk.ob("R-ROUND", c, "the factor rule tests x against the literal 1", False,
                           derived="no such test recognised", inconclusive=True, loc=r.fi.loc())
                    continue
                muls = [e for e in r.events("arith", q) if e.op == "Mult" and e.left.kind == K_SCALAR and e.right.kind == K_SCALAR and
                        (e.right.sym == LinExpr("n")) != (e.left.sym == LinExpr("n"))]
                if len(muls) != 1:
                    chk.ob("R-GRID", c + "{new_npts}", "new_npts = factor * len(values): one such product", False,
                           derived="%d product(s) with len(values)" % len(muls), loc=r.fi.loc(),
                           inconclusive=not r.events("arith", q))
                    continue
                fmul = muls[0].left if muls[0].right.sym == LinExpr("n") else muls[0].right
                divs = [e for e in r.events("arith", q) if e.op == "Div" and e.left.sym == LinExpr("dt") and e.right.kind == K_SCALAR
                        and e.right.sym == fmul.sym and e.right.rel == fmul.rel]
                chk.ob("R-GRID", c + "{step}", "the step is computed as dt / factor with the factor of new_npts", len(divs) >= 1,
                       derived="%d division(s) dt/factor" % len(divs), loc=muls[0].loc,
                       # a division of dt by something else is the located wrong step; no division of dt at all: the step is formed elsewhere
                       inconclusive=not divs and not [e for e in r.events("arith", q) if e.op == "Div" and e.left.sym == LinExpr("dt")])
                divs = [muls[0]]
                f = fmul
                rel = f.rel
                if pname == "x==1":
                    ok = rel is None and repr(f.sym) == REF
                    der = "factor = %r (unrounded)" % f.sym if ok else "factor %r rel %r" % (f.sym, rel)
                    want = "factor is x itself"
                elif pname == "x>1":
                    ok = rel is not None and repr(rel[0]) == REF and rel[1] == 1 and rel[2] == "ge" and rel[3] == "int"
                    der = _rel_str(rel)
                    want = "factor is an integer >= x"
                else:
                    ok = rel is not None and repr(rel[0]) == REF and rel[1] == 1 and rel[2] == "ge" and rel[3] == "recip-int"
                    der = _rel_str(rel)
                    want = "factor is the reciprocal of an integer and >= x"
                chk.ob("R-ROUND", c + "{factor}", want + " (so dt/factor <= target)", ok, derived=der, loc=divs[0].loc, stmt=divs[0].stmt)
                summary[(q, pname, even)] = (_rel_str(rel), ok)
                # ---- shared factor
                chk.ob("R-GRID", c + "{new_npts}", "new_npts = factor * len(values)", True, derived="factor %r" % (f.sym,), loc=muls[0].loc)
                if q == ARR:
                    adiv = [e for e in r.events("arith", q) if e.op == "Div" and "arange0" in e.left.tags and e.left.kind == K_ARRAY]
                    chk.ob("R-GRID", c + "{abscissa}", "abscissa = arange(new_npts) / factor with the same factor",
                           len(adiv) == 1 and adiv[0].right.sym == f.sym and adiv[0].right.rel == f.rel,
                           derived="%d division(s) of an arange; same factor: %s" % (len(adiv), bool(adiv) and adiv[0].right.sym == f.sym),
                           loc=adiv[0].loc if adiv else r.fi.loc())
                    ip = [e for e in r.events("lib-call", q) if e.name == "numpy.interp"]
                    if len(ip) == 1:
                        x, xp, fp = ip[0].args[:3]
                        expect(chk, "R-GRID", c + "{interp.xp}", xp, length="n", f0=True, mono=0, tags_has=["arange0"], loc=ip[0].loc)
                        chk.ob("R-GRID", c + "{interp.fp}", "interpolates the values argument itself", fp.origin == frozenset(["p:values"]),
                               derived="origin %s" % sorted(fp.origin), loc=ip[0].loc)
                        nl = x.length()
                        summary[(q, pname, even, "len")] = _unfloor(repr(nl).replace("$", ""))
                        base = muls[0] if muls else None
                        if even:
                            okl = nl is not None and all(co.numerator % 2 == 0 and co.denominator == 1 for _, co in nl.t) and \
                                nl.c % 2 == 0 and any(a.startswith("int[") for a in nl.atoms())
                            # and it is the even number just below factor*len(values): exactly 2 * int(X / 2) for that X
                            if okl:
                                at2 = _unfloor(nl.t[0][0]) if len(nl.t) == 1 else ""
                                okl = len(nl.t) == 1 and nl.c == 0 and nl.t[0][1] == 2 and at2.startswith("int[div[mul[") and \
                                    at2.endswith(",2]]") and "n" in at2
                            chk.ob("R-GRID", c + "{even}", "length is 2*int(new_npts/2): even by construction", okl,
                                   derived="length %r" % (nl,), loc=ip[0].loc)
                        else:
                            # np.arange(x) has ceil(x) elements for a real x >= 0: `arange(x)` and `arange(int(ceil(x)))` are the same grid
                            at_ = nl.t[0][0] if (nl is not None and len(nl.t) == 1) else ""
                            if at_.startswith("ceil[") and at_.endswith("]"):
                                at_ = at_[5:-1]
                            okl = nl is not None and len(nl.t) == 1 and at_.startswith("mul[") and "n" in at_
                            chk.ob("R-GRID", c + "{length}", "length is factor*len(values)", okl, derived="length %r" % (nl,), loc=ip[0].loc)
                        expect(chk, "R-GRID", c + ".values", item(r.ret, 0), lin=[R], tags_has=["interp:linear"], loc=r.fi.loc())
                    else:
                        chk.ob("R-GRID", c + "{interp}", "one np.interp call", False, derived="%d" % len(ip), loc=r.fi.loc(), inconclusive=not ip)
                    nd = item(r.ret, 1)
                    chk.ob("R-GRID", c + ".new_dt", "the second result is dt / factor", nd is not None and nd.kind == K_SCALAR and
                           repr(nd.sym) == "div[dt,%r]" % f.sym if f.sym is not None else False,
                           derived="new_dt = %r" % (nd.sym if nd is not None else None,), loc=r.fi.loc(),
                           inconclusive=(nd is None or nd.sym is None))
                else:
                    o = r.st.heap.get(r.ret.obj) if r.ret.kind == K_OBJ else None
                    rsm = [e for e in r.events("lib-call", q) if e.name == "scipy.signal.resample"]
                    okr = o is not None and len(rsm) == 1 and repr(o.attrs["_dt"].sym) == "div[dt,%r]" % f.sym
                    chk.ob("R-RS-SIB", c + ".new_dt", "the resampled signal's step is dt / factor", okr,
                           derived="dt = %r" % (o.attrs["_dt"].sym if o is not None else None,), loc=r.fi.loc())
                    if rsm:
                        expect(chk, "R-RS-SIB", c + "{resample input}", rsm[0].args[0], tags_has=["attr:_values"], lin=[R], loc=rsm[0].loc)
                        org = rsm[0].args[0].origin
                        chk.ob("R-RS-SIB", c + "{resample input}[identity]", "resamples the signal's values themselves",
                               bool(org) and all(t.endswith(".values") or t.endswith("._values") for t in org),
                               derived="origin %s" % sorted(org), loc=rsm[0].loc)
                        nl = (rsm[0].args[1].sym if len(rsm[0].args) > 1 else None)
                        summary[(q, pname, even, "len")] = _unfloor(repr(nl).replace("$", ""))
    # sibling agreement on the factor rule
    for pname in ("x==1", "x>1", "x<1"):
        for even in (True, False):
            a, b = summary.get((ARR, pname, even)), summary.get((RS, pname, even))
            chk.ob("R-RS-SIB", "interp_array_to_approx_dt~resample_to_approx_dt(%s,even=%s)" % (pname, even),
                   "both follow the same factor rule", a is not None and a == b, derived="%s vs %s" % (a, b),
                   inconclusive=(a is None or b is None))          # a rule that could not be derived is not a disagreement
    # and on the number of samples: np.arange(x) of the interpolating sibling has ceil(x) elements, the count handed to scipy's resample is
    # the same number
    def _unceil(t_):
        return t_[5:-1] if (t_ is not None and t_.startswith("ceil[") and t_.endswith("]")) else t_
    for pname in ("x==1", "x>1", "x<1"):
        for even in (True, False):
            a, b = summary.get((ARR, pname, even, "len")), summary.get((RS, pname, even, "len"))
            chk.ob("R-RS-SIB", "interp_array_to_approx_dt~resample_to_approx_dt(%s,even=%s){samples}" % (pname, even),
                   "both produce the same number of samples", a is not None and _unceil(a) == _unceil(b), derived="%s vs %s" % (a, b),
                   inconclusive=(a is None or b is None or a == "None" or b == "None"))
    # object-level forwarder pairs values with dt
    def setup_t(I):
        I.tag_returns = {ARR}
    r = analyse(chk, OBJ, lambda I, st, fi: dict(asig=make_signal(I, st, P.cls(ACC), name="asig")[1], target_dt=tgt()), setup=setup_t)
    o = r.st.heap.get(r.ret.obj) if r.ret.kind == K_OBJ else None
    c = "eqsig/fns/time_step.py:interp_to_approx_dt"
    if o is None:
        chk.ob("R-RS-SIB", c, "returns a signal object", False, derived=r.ret.kind, loc=r.fi.loc())
    else:
        tv = sorted(t for t in o.attrs["_values"].tags if t.startswith("ret:"))
        td = sorted(t for t in o.attrs["_dt"].tags if t.startswith("ret:"))
        chk.ob("R-RS-SIB", c + "{pairing}", "new signal = (returned values, returned dt)", tv == ["ret:interp_array_to_approx_dt#0"] and
               td == ["ret:interp_array_to_approx_dt#1"], derived="values from %s, dt from %s" % (tv, td), loc=r.fi.loc())
        calls = [e for e in r.events("call") if e.callee == ARR]
        if len(calls) == 1:
            b = calls[0].bound
            expect(chk, "R-RS-SIB", c + ".arg[values]", b["values"], tags_has=["attr:_values"], loc=calls[0].loc)
            expect(chk, "R-RS-SIB", c + ".arg[dt]", b["dt"], tags_has=["attr:_dt"], tags_not=["p:target_dt"], loc=calls[0].loc)
            expect(chk, "R-RS-SIB", c + ".arg[target_dt]", b["target_dt"], tags_has=["p:target_dt"], tags_not=["attr:_dt"], loc=calls[0].loc)
            chk.ob("R-RS-SIB", c + ".arg[even]", "even is forwarded", "even" in b and not b["even"].has_const() or
                   _passes_even(r.fi), derived="forwarded: %s" % _passes_even(r.fi), loc=calls[0].loc)
    chk.floor("R-ROUND", 12)
    chk.floor("R-GRID", 40)
    chk.floor("R-RS-SIB", 20)


def _passes_even(fi):
    for n in ast.walk(fi.node):
        if isinstance(n, ast.Call):
            for k in n.keywords:
                if k.arg == "even" and isinstance(k.value, ast.Name) and k.value.id == "even":
                    return True
            for a in n.args:
                if isinstance(a, ast.Name) and a.id == "even":
                    return True
    return False


def _rel_str(rel):
    if rel is None:
        return "no rounding relation (exact or unrelated)"
    ref, pw, cmp_, shape = rel
    return "%s %s (%r)%s" % (shape or "value", {"ge": ">=", "le": "<=", "eq": "==", None: "?? (either direction)"}[cmp_], ref,
                             "" if pw == 1 else "^-1")

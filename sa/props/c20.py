"""C20 -- interpolation, averaging, step-fit and design-spectrum helpers: the structural clauses."""
import ast
import re
from fractions import Fraction

from ..tyob import *  # noqa
from ..tyob import analyse, expect, item, unmodelled_in, no_truncation, no_int_arith
from ..poly import Normaliser, Poly, straightline_env
from ..program import norm_stmt

AV_ = "eqsig.fns.average."
GEN = "eqsig.fns.generic."
DS = "eqsig.design_spectra."


def run(chk):
    P = chk.P
    chk.rule("R-STEP-PARITY", "the step-fit error is even in the data (error(-x) == error(x)), of degree pow, for each documented power "
                              "{1, 2}: every term must be |.|**pow (a signed mean**pow is odd for pow = 1)")
    chk.rule("R-STEP-DTYPE", "for integer data no real error value is stored into an integer buffer (np.ones_like(values) inherits the dtype)")
    chk.rule("R-STEP-LEVELS", "step levels are the means of values[:ind] and values[ind+1:] (both exclude the split sample); the default "
                              "split is the argmin of the error")
    chk.rule("R-ROLL", "rolling average: length kept on all three modes, linear, divided by the same `steps` that defines the lag; "
                       "forward pads after, backward before, centre floor(steps/2) before and the rest after")
    chk.rule("R-LEFT", "interp_left: index = searchsorted(x, x0, side='right') - 1 (greatest node <= query); scalar in, scalar out")
    chk.rule("R-I2D", "table interpolation: result = (1-s)*f[lower] + s*f[upper] with s = (x-a_lower)/(a_upper-a_lower), table and nodes "
                      "indexed by the same bracket, upper = lower + 1 before clamping, lower clamped at 0 and upper at len-1; linear in the table")
    chk.rule("R-NZS-SIB", "c_h_factor and sd_nzs: identical breakpoints per site class and, per interval, sd branch = c_h branch * T^2; "
                          "sd multiplies by Z*N*R once; t_eff's corner constants/period equal the last interval's coefficient/breakpoint")
    chk.rule("R-NZS-CONT", "adjacent branches agree within 1 % at their common breakpoint (constant folding of the literals)")
    step_rules(chk)
    roll_rules(chk)
    left_rules(chk)
    interp2d_rules(chk)
    # an integer-typed table: rows are blended with real weights; no row difference is formed in the table's own dtype (unsigned
    # tables wrap around on every decreasing column)
    no_int_arith(chk, "R-I2D", GEN + "interp2d", lambda I, st, fi: dict(
        x=AV(kind=K_ARRAY, dtype="real", shape=(LinExpr("X"),), origin=frozenset(["p:x"]), tags=frozenset(["p:x"])),
        xf=AV(kind=K_ARRAY, dtype="real", shape=(LinExpr("XF"),), origin=frozenset(["p:xf"]), tags=frozenset(["p:xf"]), mono=frozenset([0])),
        f=AV(kind=K_ARRAY, dtype="int", shape=(LinExpr("XF"), LinExpr("M")), origin=frozenset(["p:f"]), tags=frozenset(["p:f"]), alg={R: LIN})),
        "eqsig/fns/generic.py:interp2d(integer table)", what="an integer-typed table")
    nzs_rules(chk)
    chk.floor("R-STEP-PARITY", 6)
    chk.floor("R-STEP-LEVELS", 4)
    chk.floor("R-ROLL", 14)
    chk.floor("R-LEFT", 4)
    chk.floor("R-I2D", 7)
    chk.floor("R-NZS-SIB", 24)
    chk.floor("R-NZS-CONT", 12)


def step_rules(chk):
    P = chk.P
    q = AV_ + "calc_step_fn_vals_error"
    for pw in (1, 2):
        r = analyse(chk, q, lambda I, st, fi, pw=pw: dict(values=rec_array("values"), pow=const_av(pw)))
        c = "eqsig/fns/average.py:calc_step_fn_vals_error(pow=%d)" % pw
        unmodelled_in(r, chk, "R-STEP-PARITY", c)
        expect(chk, "R-STEP-PARITY", c, r.ret, deg={R: pw}, parity={R: "even"}, length="n", kind=K_ARRAY, loc=r.fi.loc())
        # name the offending term(s): stores into the error array whose value is not even
        for e in r.events("mutation", q):
            if e.value is not None and e.how == "subscript-store" and alg_parity(e.value.a(R)) not in ("even", "any"):
                chk.ob("R-STEP-PARITY", c + "{%s}" % e.stmt, "every stored error term is even in the data", False,
                       derived=alg_str(e.value.a(R)), loc=e.loc, stmt=e.stmt,
                       detail="for pow=1 the padded-zero correction mean**pow is odd: error(x) != error(-x) as soon as a side mean is negative")
    # integer data: the error array must not be an integer buffer
    no_truncation(chk, "R-STEP-DTYPE", q, lambda I, st, fi: dict(values=rec_array("values", dtype="int"), pow=const_av(1)),
                  "eqsig/fns/average.py:calc_step_fn_vals_error", what="integer data")
    # the power is applied to each deviation, inside the sums (sum(|d|**p), not sum(|d|)**p)
    fi = P.fn(q)
    sums = [n for n in ast.walk(fi.node) if isinstance(n, ast.Call) and ast.unparse(n.func).split(".")[-1] == "sum" and n.args and
            any(isinstance(x, ast.Call) and ast.unparse(x.func).split(".")[-1] in ("abs", "absolute") for x in ast.walk(n.args[0]))]
    pows_outside = [n for n in ast.walk(fi.node) if isinstance(n, ast.BinOp) and isinstance(n.op, ast.Pow) and any(n.left is s_ for s_ in sums)]
    inside = [s_ for s_ in sums if any(isinstance(x, ast.BinOp) and isinstance(x.op, ast.Pow) and isinstance(x.right, ast.Name) and x.right.id == "pow"
                                      for x in ast.walk(s_.args[0]))]
    chk.ob("R-STEP-PARITY", "eqsig/fns/average.py:calc_step_fn_vals_error{power inside the sums}",
           "each of the three error sums is sum(|deviation| ** pow): the power is applied per sample", len(sums) == 3 and len(inside) == 3 and
           not pows_outside, derived="%d abs-sums, %d with `** pow` inside, %d raised to a power as a whole" % (len(sums), len(inside), len(pows_outside)),
           loc=fi.loc(pows_outside[0]) if pows_outside else fi.loc())
    # each |.| is taken of a DEVIATION from a mean: (samples) - (their mean); a sum |x + mean| is not an error of fit
    env_ = straightline_env(fi.node.body, Normaliser(), exclude=set(fi.params))
    for s_ in sums:
        for x in ast.walk(s_.args[0]):
            if isinstance(x, ast.Call) and ast.unparse(x.func).split(".")[-1] in ("abs", "absolute") and x.args and isinstance(x.args[0], ast.BinOp) and \
                    isinstance(x.args[0].op, (ast.Sub, ast.Add)):
                bo = x.args[0]
                means_right = any(isinstance(y, ast.Call) and ast.unparse(y.func).split(".")[-1] in ("mean", "sum") for y in ast.walk(bo.right)) or \
                    (isinstance(bo.right, (ast.Name, ast.Subscript)) and "mean" in ast.unparse(bo.right))
                if means_right:
                    chk.ob("R-STEP-PARITY", "eqsig/fns/average.py:calc_step_fn_vals_error{deviation `%s`}" % norm_stmt(bo),
                           "the absolute value is taken of samples MINUS their mean", isinstance(bo.op, ast.Sub), derived=norm_stmt(bo), loc=fi.loc(bo),
                           stmt=norm_stmt(bo))
                break
    q2 = AV_ + "calc_step_fn_steps_vals"
    r = analyse(chk, q2, lambda I, st, fi: dict(values=rec_array("values"), ind=int_scalar("ind", "k")))
    c = "eqsig/fns/average.py:calc_step_fn_steps_vals"
    subs = [e for e in r.events("subscript", q2) if e.base.origin == frozenset(["p:values"]) and e.index.kind == K_SLICE]
    got = sorted(((repr(e.index.items[0].sym) if e.index.items[0] is not None else None, repr(e.index.items[1].sym) if e.index.items[1] is not None else None)
                  for e in subs), key=repr)
    chk.ob("R-STEP-LEVELS", c + "{slices}", "levels use values[:ind] and values[ind+1:]", got == sorted([(None, "k"), ("k+1", None)], key=repr),
           derived="slices %s" % got, loc=r.fi.loc())
    means = [e for e in r.events("lib-call", q2) if e.name == "numpy.mean"]
    chk.ob("R-STEP-LEVELS", c + "{means}", "both levels are means", len(means) == 2, derived="%d np.mean call(s)" % len(means), loc=r.fi.loc())
    expect(chk, "R-STEP-LEVELS", c, r.ret, items=2, loc=r.fi.loc())
    for i, nm in enumerate(("pre", "post")):
        expect(chk, "R-STEP-LEVELS", c + "." + nm, item(r.ret, i), lin=[R], kind=K_SCALAR, tags_has=["red:mean"], loc=r.fi.loc())
    pre, post = item(r.ret, 0), item(r.ret, 1)
    r2 = analyse(chk, q2, lambda I, st, fi: dict(values=rec_array("values")))
    am = [e for e in r2.events("lib-call", q2) if e.name == "numpy.argmin"]
    called = [e for e in r2.events("call", q2) if e.callee == q]
    okd = len(am) == 1 and len(called) == 1 and called[0].bound["values"].origin == frozenset(["p:values"])
    der = "%d argmin, %d error call(s)" % (len(am), len(called))
    inc = False
    if len(am) == 1 and not called:
        # the error routine is not called by name (both may share a worker): the array handed to argmin must then be, in everything this
        # analysis derives (typing, degree, tags, shape), the array calc_step_fn_vals_error(values) returns with its defaults
        r3 = analyse(chk, q, lambda I, st, fi: dict(values=rec_array("values")))

        def summ(v):
            return (v.kind, v.dtype, repr(v.shape), tuple(sorted((k, repr(x)) for k, x in v.alg.items())), v.sign,
                    tuple(sorted(t for t in v.tags if not t.startswith(("ret:", "at#")))))
        a_, b_ = summ(am[0].args[0]), summ(r3.ret)
        okd = a_ == b_
        # not located by name and not recognisably the same array: no verdict -- unless the two arrays differ in their degree in the data
        # (the error of another power): then they are different functions of the data
        da, db = alg_degree(am[0].args[0].a(R)), alg_degree(r3.ret.a(R))
        inc = not okd and not (da is not None and db is not None and da != db)
        der = "no call of the error routine; argmin over %s; calc_step_fn_vals_error(values) returns %s" % (a_, b_)
    chk.ob("R-STEP-LEVELS", c + "{default split}", "default split = argmin(calc_step_fn_vals_error(values))", okd, derived=der, loc=r2.fi.loc(),
           inconclusive=inc)


def roll_rules(chk):
    P = chk.P
    q = AV_ + "calc_roll_av_vals"
    fi = P.fn(q)
    steps = lambda: AV(kind=K_SCALAR, dtype="int", shape=(), sign=S_POS, sym=LinExpr("S"), tags=frozenset(["p:steps"]), origin=frozenset(["lit"]),
                       note="integral")
    for mode in ("forward", "backward", "centre"):
        r = analyse(chk, q, lambda I, st, fi, mode=mode: dict(values=rec_array("values"), steps=steps(), mode=const_av(mode)))
        c = "eqsig/fns/average.py:calc_roll_av_vals(mode=%s)" % mode
        unmodelled_in(r, chk, "R-ROLL", c)
        expect(chk, "R-ROLL", c, r.ret, length="n", lin=[R], kind=K_ARRAY, tags_has=["cum", "p:steps"], loc=fi.loc())
        cc_all = [e for e in r.events("lib-call", q) if e.name == "numpy.concatenate"]
        # the extension is the concatenation that contains the record itself (another one may assemble the zero-led running sum)
        cc = [e for e in cc_all if e.args and e.args[0].items is not None and any(i.kind == K_ARRAY and "p:values" in i.tags and "cum" not in i.tags and repr(i.length()) == "n" for i in e.args[0].items)]
        pads = [e for e in r.events("lib-call", q) if e.name == "numpy.pad"]
        if not cc and len(pads) == 1:
            # the same extension by np.pad(values, (before, after), mode='edge')
            pe = pads[0]
            pw = pe.args[1] if len(pe.args) > 1 else pe.kwargs.get("pad_width")
            md = pe.kwargs.get("mode") or (pe.args[2] if len(pe.args) > 2 else None)
            expect(chk, "R-ROLL", c + "{extension}", r.I.api.as_num(pe.args[0]), lin=[R], loc=pe.loc)
            # the same replication spelt mode='constant', constant_values=(x[0], x[-1]) for the padded x
            cvk = [k for k in getattr(pe.node, "keywords", []) if k.arg == "constant_values"]
            a0n = pe.node.args[0] if getattr(pe.node, "args", None) else None
            by_consts = md is not None and md.has_const() and md.const == "constant" and len(cvk) == 1 and isinstance(cvk[0].value, ast.Tuple) and \
                isinstance(a0n, ast.Name) and [" ".join(ast.unparse(x).split()) for x in cvk[0].value.elts] == ["%s[0]" % a0n.id, "%s[-1]" % a0n.id]
            chk.ob("R-ROLL", c + "{edges}", "the pads replicate the first / last value (mode='edge')", md is not None and md.has_const() and (md.const == "edge" or by_consts) and
                   "p:values" in pe.args[0].tags and repr(pe.args[0].length()) == "n" and "cum" not in pe.args[0].tags, derived="mode=%s" % (md.const if (md is not None and md.has_const()) else None), loc=pe.loc)
            its = pw.items if (pw is not None and pw.items is not None and len(pw.items) == 2) else None
            if its is None:
                chk.ob("R-ROLL", c + "{padding}", "pad widths (before, after)", False, derived="pad widths not derived", inconclusive=True, loc=pe.loc)
            else:
                bsym = its[0].sym if its[0].sym is not None else None
                asym = its[1].sym if its[1].sym is not None else None
                tot = (bsym + asym) if (bsym is not None and asym is not None) else None
                if mode == "forward":
                    okp = repr(bsym) == "0" and asym == LinExpr("S") - 1
                elif mode == "backward":
                    okp = repr(asym) == "0" and bsym == LinExpr("S") - 1
                else:
                    okp = tot == LinExpr("S") - 1 and bsym is not None and repr(bsym).startswith(("int[", "floor[", "floordiv[")) and "S" in repr(bsym) and \
                        "2" in repr(bsym)
                chk.ob("R-ROLL", c + "{padding}", {"forward": "forward: pads after the record with steps-1 edge values",
                                                   "backward": "backward: pads before the record with steps-1 edge values"}.get(
                    mode, "centre: floor(steps/2) before and steps-1-floor(steps/2) after"), okp,
                    derived="pad widths (%r, %r), sum %r" % (bsym, asym, tot), loc=pe.loc, inconclusive=(bsym is None or asym is None))
        if len(cc) == 1:
            expect(chk, "R-ROLL", c + "{extension}", cc[0].args[0] if False else r.I.api.as_num(cc[0].args[0]), lin=[R], loc=cc[0].loc)
            ln = None
            parts = cc[0].args[0].items
            if parts is not None:
                lens = [repr(p.length()) for p in parts if repr(p.length()) != "0"]          # a zero-length pad is no pad
                want = {"forward": ["n", "S-1"], "backward": ["S-1", "n"]}.get(mode)
                if want is not None:
                    chk.ob("R-ROLL", c + "{padding}", "%s: pads %s the record with steps-1 edge values" % (mode, "after" if mode == "forward" else "before"),
                           lens == want, derived="part lengths %s" % lens, loc=cc[0].loc)
                else:
                    ok = len(lens) == 3 and lens[1] == "n" and lens[0].startswith(("int[", "floor[")) and "div[S,2]" in lens[0]      # HALF the steps
                    tot = None
                    try:
                        tot = parts[0].length() + parts[2].length()
                    except Exception:
                        pass
                    chk.ob("R-ROLL", c + "{padding}", "centre: floor(steps/2) before and steps-1-floor(steps/2) after", ok and tot == LinExpr("S") - 1,
                           derived="part lengths %s (sum of pads %r)" % (lens, tot), loc=cc[0].loc)
                edge = [("sel" in "".join(p.tags)) for p in parts]
        ss = [e for e in r.events("store-shape", q)]
        # a scalar stored into a slice is a broadcast fill; a value whose shape was not derived says nothing
        def _fits(e):
            return e.value_shape == () or e.value_shape is None or e.target_shape is None or e.target_shape == e.value_shape
        okss = all(_fits(e) for e in ss) and bool(ss)
        unk_ss = any(e.value_shape is None or e.target_shape is None for e in ss)
        if not ss:
            # the zero-led running sum assembled in one piece: np.concatenate([[0.0], np.cumsum(extended)])
            zl = [e for e in cc_all if e not in cc and e.args and e.args[0].items is not None and len(e.args[0].items) == 2 and
                  "cum" in e.args[0].items[1].tags and r.I.api.as_num(e.args[0].items[0]).sign == S_ZERO and
                  repr(r.I.api.as_num(e.args[0].items[0]).length()) == "1"]
            okss = len(zl) == 1
        chk.ob("R-ROLL", c + "{cumsum store}", "the cumulative sum fills csum[1:] exactly", okss,
               derived="%s" % [(e.target_shape, e.value_shape) for e in ss], loc=ss[0].loc if ss else fi.loc(),
               # no running sum anywhere in the function (windows formed by convolution, a loop ...): not located
               inconclusive=(bool(ss) and okss and unk_ss) or (not ss and not okss and not any(
                   e.name in ("numpy.cumsum",) for e in r.events("lib-call", q))))
    rets = [n for n in ast.walk(fi.node) if isinstance(n, ast.Return) and n.value is not None]
    p = Normaliser().poly(rets[-1].value)
    # the running sum is whatever array is read at [steps:] and at [:-steps] (one and the same): call it csum
    _names = set(re.findall(r"([A-Za-z_]\w*)\[steps:\]", p.canon())) & set(re.findall(r"([A-Za-z_]\w*)\[:-1\*steps\]", p.canon()))
    if len(_names) == 1 and "csum" not in _names:
        _nm = next(iter(_names))
        p = p.subst_atoms(lambda a_: a_.replace(_nm + "[", "csum[") if a_.startswith(_nm + "[") else a_)
    want = (Poly.atom("csum[steps:]") - Poly.atom("csum[:-1*steps]")) * Poly.atom("steps").inverse()
    chk.ob("R-ROLL", "eqsig/fns/average.py:calc_roll_av_vals{mean}", "result = (csum[steps:] - csum[:-steps]) / steps: lag and divisor are the same steps",
           p == want, derived=p.canon(), loc=fi.loc(rets[-1]), stmt=norm_stmt(rets[-1]))
    # edge replication: first pad uses values[0], last uses values[-1]
    edges = {}
    for n in ast.walk(fi.node):
        if isinstance(n, ast.If) or isinstance(n, ast.Assign):
            pass
    for br_name, body in _mode_branches(fi):
        cats = [x for st in body for x in ast.walk(st) if isinstance(x, ast.Call) and ast.unparse(x.func).split(".")[-1] == "concatenate"]
        if len(cats) == 1 and isinstance(cats[0].args[0], (ast.List, ast.Tuple)):
            seq = [" ".join(ast.unparse(e).split()) for e in cats[0].args[0].elts]
            idx = seq.index("values") if "values" in seq else None
            before = seq[:idx] if idx is not None else []
            after = seq[idx + 1:] if idx is not None else []
            ok = idx is not None and all("values[0]" in s for s in before) and all("values[-1]" in s for s in after)
            # pads that are bare temporaries (the value of a helper call bound by the normaliser) are not located here
            opaque_ = any(re.fullmatch(r"[A-Za-z_]\w*", s_) and s_ != "values" for s_ in before + after)
            chk.ob("R-ROLL", "eqsig/fns/average.py:calc_roll_av_vals{edges %s}" % br_name, "leading pads replicate values[0], trailing pads values[-1]",
                   ok, derived="%s" % seq, loc=fi.loc(cats[0]), inconclusive=(not ok and opaque_))


def _mode_branches(fi):
    out = []
    for n in ast.walk(fi.node):
        if isinstance(n, ast.If) and isinstance(n.test, ast.Compare) and isinstance(n.test.left, ast.Name) and n.test.left.id == "mode":
            node = n
            while True:
                lit = node.test.comparators[0].value if isinstance(node.test.comparators[0], ast.Constant) else "?"
                out.append((lit, node.body))
                if len(node.orelse) == 1 and isinstance(node.orelse[0], ast.If):
                    node = node.orelse[0]
                else:
                    out.append(("else", node.orelse))
                    break
            break
    return out


def interp2d_rules(chk):
    """Structural clauses of the table interpolation (bracketing by nearest node, clamping, convex weights), read off the RETURNED
    expression with every local substituted in statement order (the function is straight-line), so the names of the locals, the number
    of temporaries and the spelling of the clamps (np.clip / np.maximum / np.minimum) do not matter."""
    import copy
    P = chk.P
    q = GEN + "interp2d"
    fi = P.fn(q)
    c = "eqsig/fns/generic.py:interp2d"
    xq, xf, ftab = fi.params[:3]
    env = {}

    class Sub(ast.NodeTransformer):
        def visit_Name(self, n):
            if isinstance(n.ctx, ast.Load) and n.id in env:
                return copy.deepcopy(env[n.id])
            return n
    ret = None
    straight = True
    for st in fi.node.body:
        if isinstance(st, ast.Expr) and isinstance(st.value, ast.Constant):
            continue
        if isinstance(st, ast.Assign) and len(st.targets) == 1 and isinstance(st.targets[0], ast.Name):
            env[st.targets[0].id] = Sub().visit(copy.deepcopy(st.value))
        elif isinstance(st, ast.Return) and st.value is not None:
            ret = Sub().visit(copy.deepcopy(st.value))
            break
        else:
            straight = False
            break
    if ret is None or not straight:
        chk.ob("R-I2D", c, "a straight-line body ending in one return", False, derived="not of that shape", inconclusive=True, loc=fi.loc())
        return

    def callname(e):
        return ast.unparse(e.func).split(".")[-1] if isinstance(e, ast.Call) else None

    class Unclip(ast.NodeTransformer):            # np.clip(E, tiny, None) guards a division: E itself wherever E > 0
        def visit_Call(self, n):
            self.generic_visit(n)
            if callname(n) == "clip" and len(n.args) == 3 and isinstance(n.args[1], ast.Constant) and isinstance(n.args[1].value, float) and \
                    0 < n.args[1].value <= 1e-6 and isinstance(n.args[2], ast.Constant) and n.args[2].value is None:
                return n.args[0]
            if callname(n) == "maximum" and len(n.args) == 2 and not n.keywords:        # the same guard spelt np.maximum(E, tiny)
                for k in (0, 1):
                    t_ = n.args[1 - k]
                    if isinstance(t_, ast.Constant) and isinstance(t_.value, float) and 0 < t_.value <= 1e-6:
                        return n.args[k]
            return n
    nm = Normaliser()
    p = nm.poly(ret)
    # the two table rows: atoms f[<index>]
    rows = sorted(a for a in p.atoms() if a.startswith(ftab + "["))
    rownodes = {}
    for n in ast.walk(ret):
        if isinstance(n, ast.Subscript) and isinstance(n.value, ast.Name) and n.value.id == ftab:
            rownodes.setdefault(nm.opaque(n), n)
    if len(rows) != 2 or set(rows) != set(rownodes):
        chk.ob("R-I2D", c + "{weights}", "result = w0 * f[lower] + w1 * f[upper]", False, derived="%d table rows in the returned expression" % len(rows),
               inconclusive=len(rows) == 0, loc=fi.loc())
        return

    def coeff(poly, atom):
        d = {}
        for m, co in poly.t.items():
            dm = dict(m)
            if dm.get(atom) == 1:
                rest = tuple((a_, e) for a_, e in m if a_ != atom)
                d[rest] = d.get(rest, 0) + co
            elif atom in dm:
                return None
        return Poly(d)
    w = {r_: coeff(p, r_) for r_ in rows}
    lin = all(v is not None for v in w.values()) and all(not (set(m_ for m_, _ in m) & set(rows)) or sum(1 for a_, _ in m if a_ in rows) == 1 for m in p.t)
    oksum = lin and (w[rows[0]] + w[rows[1]]) == Poly.const(1)
    chk.ob("R-I2D", c + "{weights}", "result = w0 * f[i0] + w1 * f[i1], linear in the two rows, weights sum to one", oksum,
           derived="weights %s" % {k: (v.canon() if v is not None else None) for k, v in w.items()}, loc=fi.loc())
    if not oksum:
        return
    # the weight that is an np.where(D > 0, (x - a_lower) / D, 1) belongs to the UPPER row
    whs = {}
    for n in ast.walk(ret):
        if callname(n) == "where" and len(n.args) == 3 and isinstance(n.args[2], ast.Constant) and n.args[2].value == 1:
            whs.setdefault(nm.opaque(n), n)
    upper = [r_ for r_ in rows if any(w[r_] == Poly.atom(k) for k in whs)]
    if len(upper) != 1 or len(whs) != 1:
        chk.ob("R-I2D", c + "{weight}", "one weight is np.where(span > 0, (x - a_lower) / span, 1)", False, derived="%d such np.where, %d row(s) weighted by it"
               % (len(whs), len(upper)), loc=fi.loc())
        return
    up_row = upper[0]
    lo_row = [r_ for r_ in rows if r_ != up_row][0]
    wnode = list(whs.values())[0]
    cnd, tv, _ = wnode.args
    i_lo, i_up = rownodes[lo_row].slice, rownodes[up_row].slice
    A0 = nm.opaque(ast.Subscript(value=ast.Name(id=xf, ctx=ast.Load()), slice=i_lo, ctx=ast.Load()))
    A1 = nm.opaque(ast.Subscript(value=ast.Name(id=xf, ctx=ast.Load()), slice=i_up, ctx=ast.Load()))
    span = Poly.atom(A1) - Poly.atom(A0)
    okc = isinstance(cnd, ast.Compare) and len(cnd.ops) == 1 and (
        (isinstance(cnd.ops[0], ast.Gt) and nm.poly(cnd.left) == span and nm.poly(cnd.comparators[0]) == Poly.const(0)) or
        (isinstance(cnd.ops[0], ast.Lt) and nm.poly(cnd.comparators[0]) == span and nm.poly(cnd.left) == Poly.const(0)))
    ptv = nm.poly(Unclip().visit(copy.deepcopy(tv)))
    okw = ptv == (Poly.atom(xq) - Poly.atom(A0)) * span.inverse()
    chk.ob("R-I2D", c + "{weight}", "s = (x - a_lower) / (a_upper - a_lower) on a non-degenerate bracket (a_upper - a_lower > 0), 1 otherwise; nodes "
           "and rows taken at the same bracket indices", okc and okw, derived="%s where %s else 1" % (ptv.canon()[:160], " ".join(ast.unparse(cnd).split())[:120]),
           loc=fi.loc())
    chk.ob("R-I2D", c + "{pairing}", "the row weighted by s is the upper one (its node is a_upper), the other row has weight 1 - s", okc and okw,
           derived="lower row %s, upper row %s" % (lo_row[:60], up_row[:60]), loc=fi.loc(), nontrivial=False)
    # bracket and clamping: lower = max(where(C, N-1, N), 0), upper = min(where(C, N, N+1), len(xf)-1), C: xf[N] > x, N nearest node
    def unclamp(e, kind):
        if isinstance(e, ast.Call):
            cn = callname(e)
            a_ = e.args
            if cn == "clip" and len(a_) == 3:
                lo_c, hi_c = a_[1], a_[2]
                none = lambda z: isinstance(z, ast.Constant) and z.value is None
                if kind == "lo" and none(hi_c) and nm.poly(lo_c) == Poly.const(0):
                    return a_[0], True
                if kind == "hi" and none(lo_c) and nm.poly(hi_c) == nm.poly(ast.parse("len(%s) - 1" % xf, mode="eval").body):
                    return a_[0], True
            if cn == ("maximum" if kind == "lo" else "minimum") and len(a_) == 2:
                bound = Poly.const(0) if kind == "lo" else nm.poly(ast.parse("len(%s) - 1" % xf, mode="eval").body)
                for k in (0, 1):
                    if nm.poly(a_[1 - k]) == bound:
                        return a_[k], True
        return e, False
    e_lo, cl_lo = unclamp(i_lo, "lo")
    e_up, cl_up = unclamp(i_up, "hi")
    chk.ob("R-I2D", c + "{clamping}", "lower index clamped at 0, upper index at len(xf) - 1 (each clamps itself)", cl_lo and cl_up,
           derived="lower clamped at 0: %s; upper clamped at len-1: %s" % (cl_lo, cl_up), loc=fi.loc())
    okb, whyb = False, "bracket indices are not two np.where selections"
    if callname(e_lo) == "where" and callname(e_up) != "where" and len(e_lo.args) == 3 and nm.poly(e_up) == nm.poly(e_lo) + Poly.const(1):
        # the upper index written as (unclamped lower index) + 1: the same bracket, (N-1, N) / (N, N+1)
        c0, a0_, b0_ = e_lo.args
        N = nm.poly(b0_)
        near = N.is_monomial() and len(N.atoms()) == 1 and "argmin(" in list(N.atoms())[0] and "abs(" in list(N.atoms())[0]
        shape_ok = nm.poly(a0_) == N - Poly.const(1)
        cond_ok = False
        if isinstance(c0, ast.Compare) and len(c0.ops) == 1:
            node_at = nm.opaque(ast.Subscript(value=ast.Name(id=xf, ctx=ast.Load()), slice=b0_, ctx=ast.Load()))
            l_, r_ = nm.poly(c0.left), nm.poly(c0.comparators[0])
            cond_ok = (isinstance(c0.ops[0], ast.Gt) and l_ == Poly.atom(node_at) and r_ == Poly.atom(xq)) or \
                      (isinstance(c0.ops[0], ast.Lt) and r_ == Poly.atom(node_at) and l_ == Poly.atom(xq))
        okb = near and shape_ok and cond_ok
        whyb = "upper = lower + 1; nearest node by argmin|x - xf|: %s; lower is (N-1 if cond else N): %s; condition xf[N] > x: %s" % (near, shape_ok, cond_ok)
    elif callname(e_lo) == "where" and callname(e_up) == "where" and len(e_lo.args) == 3 and len(e_up.args) == 3:
        c0, a0_, b0_ = e_lo.args
        c1, a1_, b1_ = e_up.args
        same_c = ast.dump(c0) == ast.dump(c1)
        N = nm.poly(b0_)
        near = N.is_monomial() and len(N.atoms()) == 1 and "argmin(" in list(N.atoms())[0] and "abs(" in list(N.atoms())[0]
        shape_ok = nm.poly(a0_) == N - Poly.const(1) and nm.poly(a1_) == N and nm.poly(b1_) == N + Poly.const(1)
        cond_ok = False
        if isinstance(c0, ast.Compare) and len(c0.ops) == 1:
            node_at = nm.opaque(ast.Subscript(value=ast.Name(id=xf, ctx=ast.Load()), slice=b0_, ctx=ast.Load()))
            l_, r_ = nm.poly(c0.left), nm.poly(c0.comparators[0])
            cond_ok = (isinstance(c0.ops[0], ast.Gt) and l_ == Poly.atom(node_at) and r_ == Poly.atom(xq)) or \
                      (isinstance(c0.ops[0], ast.Lt) and r_ == Poly.atom(node_at) and l_ == Poly.atom(xq))
        okb = same_c and near and shape_ok and cond_ok
        whyb = "same condition: %s; nearest node by argmin|x - xf|: %s; (N-1, N) / (N, N+1): %s; condition xf[N] > x: %s" % (same_c, near, shape_ok, cond_ok)
    else:
        # the same bracket by mask arithmetic: lower = N - M, upper = N - M + 1 with M = (xf[N] > x) as 0/1
        ams = [n for n in ast.walk(e_lo) if isinstance(n, ast.Call) and callname(n) == "argmin"]
        mks = [n for n in ast.walk(e_lo) if isinstance(n, ast.Call) and isinstance(n.func, ast.Attribute) and n.func.attr == "astype" and
               isinstance(n.func.value, ast.Compare) and len(n.func.value.ops) == 1]
        if ams and mks:
            Nn, Mn = ams[0], mks[0]
            N, M = nm.poly(Nn), Poly.atom(nm.opaque(Mn))
            c0 = Mn.func.value
            node_at = nm.opaque(ast.Subscript(value=ast.Name(id=xf, ctx=ast.Load()), slice=Nn, ctx=ast.Load()))
            l_, r_ = nm.poly(c0.left), nm.poly(c0.comparators[0])
            cond_ok = (isinstance(c0.ops[0], ast.Gt) and l_ == Poly.atom(node_at) and r_ == Poly.atom(xq)) or \
                      (isinstance(c0.ops[0], ast.Lt) and r_ == Poly.atom(node_at) and l_ == Poly.atom(xq))
            near = "abs(" in nm.opaque(Nn)
            int_mask = "float" not in ast.unparse(Mn.args[0]) if Mn.args else False
            shape_ok = nm.poly(e_lo) == N - M and nm.poly(e_up) == N - M + Poly.const(1)
            okb = near and shape_ok and cond_ok and int_mask
            whyb = "mask arithmetic: nearest node by argmin|x - xf|: %s; lower = N - M, upper = N - M + 1: %s; M is xf[N] > x: %s" % (near, shape_ok, cond_ok)
            located = True
        else:
            located = False
    if callname(e_lo) == "where":
        located = True
    chk.ob("R-I2D", c + "{bracket}", "before clamping the bracket is (N-1, N) when the nearest node N lies above the query, (N, N+1) otherwise", okb, derived=whyb,
           inconclusive=not located,
           loc=fi.loc(), detail="a query below the first node would be extrapolated instead of clamped" if not okb else None)
    r = analyse(chk, q, lambda I, st, fi: dict(x=AV(kind=K_ARRAY, dtype="real", shape=(LinExpr("Q"),), origin=frozenset(["p:x"]), tags=frozenset(["p:x"])),
                                               xf=AV(kind=K_ARRAY, dtype="real", shape=(LinExpr("X"),), mono=frozenset([0]), origin=frozenset(["p:xf"]),
                                                     tags=frozenset(["p:xf"])),
                                               f=rec_array("f", shape=(LinExpr("X"), LinExpr("C")))))
    unmodelled_in(r, chk, "R-I2D", c)
    expect(chk, "R-I2D", c + ".result", r.ret, shape=("Q", "C"), lin=[R], tags_has=["p:x", "p:xf", "red:argmin"], kind=K_ARRAY, loc=fi.loc())


def left_rules(chk):
    P = chk.P
    q = GEN + "interp_left"
    fi = P.fn(q)
    c = "eqsig/fns/generic.py:interp_left"
    xs = lambda: AV(kind=K_ARRAY, dtype="real", shape=(LinExpr("X"),), mono=frozenset([0]), origin=frozenset(["p:x"]), tags=frozenset(["p:x"]))
    r = analyse(chk, q, lambda I, st, fi: dict(x0=AV(kind=K_ARRAY, dtype="real", shape=(LinExpr("Q"),), origin=frozenset(["p:x0"]), tags=frozenset(["p:x0"])),
                                               x=xs(), y=AV(kind=K_ARRAY, dtype="real", shape=(LinExpr("X"),), origin=frozenset(["p:y"]), tags=frozenset(["p:y"]))))
    unmodelled_in(r, chk, "R-LEFT", c)
    ssd = [e for e in r.events("lib-call", q) if e.name == "numpy.searchsorted"]
    side = None
    if len(ssd) == 1:
        sv = ssd[0].kwargs.get("side") or (ssd[0].args[2] if len(ssd[0].args) > 2 else None)
        side = sv.const if (sv is not None and sv.has_const()) else "left"
    chk.ob("R-LEFT", c + "{side}", "searchsorted(..., side='right')", side == "right", derived="side=%r" % side, loc=ssd[0].loc if ssd else fi.loc())
    if ssd:
        chk.ob("R-LEFT", c + "{operands}", "searches the queries x0 in the nodes x", "p:x" in ssd[0].args[0].tags and "p:x0" in ssd[0].args[1].tags and
               "p:x0" not in ssd[0].args[0].tags, derived="a<-%s v<-%s" % (sorted(ssd[0].args[0].tags), sorted(ssd[0].args[1].tags)), loc=ssd[0].loc)
    idx = [n for n in ast.walk(fi.node) if isinstance(n, ast.Assign) and "searchsorted" in ast.unparse(n.value)]
    if len(idx) == 1:
        p = Normaliser().poly(idx[0].value)
        ok = len(p.t) == 2 and p.t.get(()) == -1 and any(co == 1 and len(m) == 1 and "searchsorted" in m[0][0] for m, co in p.t.items() if m)
        chk.ob("R-LEFT", c + "{index}", "index = searchsorted(...) - 1", ok, derived=p.canon(), loc=fi.loc(idx[0]), stmt=norm_stmt(idx[0]))
    else:
        chk.ob("R-LEFT", c + "{index}", "one index computation", False, derived="%d" % len(idx), loc=fi.loc(), inconclusive=True)
    expect(chk, "R-LEFT", c + ".result", r.ret, shape=("Q",), tags_has=["p:y", "searchsorted:right"], kind=K_ARRAY, loc=fi.loc())
    r2 = analyse(chk, q, lambda I, st, fi: dict(x0=AV(kind=K_SCALAR, dtype="real", shape=(), origin=frozenset(["lit"]), tags=frozenset(["p:x0"]), const=0.5),
                                                x=xs(), y=AV(kind=K_ARRAY, dtype="real", shape=(LinExpr("X"),), origin=frozenset(["p:y"]), tags=frozenset(["p:y"]))))
    expect(chk, "R-LEFT", c + "(scalar query).result", r2.ret, kind=K_SCALAR, tags_has=["p:y"], loc=fi.loc())
    unmodelled_in(r2, chk, "R-LEFT", c + "(scalar query)")


# ---------------------------------------------------------------------------------------------------------------------
def chain(node, var):
    """[(op, breakpoint or None, branch expr)] of an if/elif chain over `var` compared with literals"""
    rows = []
    while True:
        t = node.test
        if not (isinstance(t, ast.Compare) and len(t.ops) == 1 and isinstance(t.left, ast.Name) and t.left.id == var and
                isinstance(t.comparators[0], ast.Constant)):
            return None
        a = [x for x in node.body if isinstance(x, ast.Assign)]
        if len(a) != 1:
            return None
        rows.append((type(t.ops[0]).__name__, t.comparators[0].value, a[0].value))
        if len(node.orelse) == 1 and isinstance(node.orelse[0], ast.If):
            node = node.orelse[0]
        else:
            a = [x for x in node.orelse if isinstance(x, ast.Assign)]
            if len(a) != 1:
                return None
            rows.append(("else", None, a[0].value))
            return rows


def site_tables(fi, var):
    """site class -> rows of its period chain: the if/elif chain on site_class is FOLLOWED for each class (a test `== 'C'` holds for C,
    a test `!= 'C'` for the others), so the table a class really gets is the one reported for it"""
    tops = [n for n in ast.walk(fi.node) if isinstance(n, ast.If) and isinstance(n.test, ast.Compare) and isinstance(n.test.left, ast.Name) and
            n.test.left.id == "site_class" and isinstance(n.test.comparators[0], ast.Constant) and len(n.test.ops) == 1 and
            isinstance(n.test.ops[0], (ast.Eq, ast.NotEq))]
    inner_ifs = {id(x) for n in tops for x in ast.walk(n) if x is not n}
    roots = [n for n in tops if id(n) not in inner_ifs]
    out = {}
    classes = {n.test.comparators[0].value for n in tops} | {"C", "D", "E"}
    for cls in sorted(classes, key=repr):
        for root in roots:
            node = root
            body = None
            while True:
                holds = (node.test.comparators[0].value == cls) == isinstance(node.test.ops[0], ast.Eq)
                if holds:
                    body = node.body
                    break
                if len(node.orelse) == 1 and isinstance(node.orelse[0], ast.If) and node.orelse[0] in tops:
                    node = node.orelse[0]
                else:
                    body = node.orelse
                    break
            inner = [x for x in (body or []) if isinstance(x, ast.If)]
            if len(inner) == 1:
                rows = chain(inner[0], var)
                if rows is not None:
                    out[cls] = rows
    return out


def _eval(e, var, val):
    if isinstance(e, ast.Constant):
        return float(e.value)
    if isinstance(e, ast.Name) and e.id == var:
        return float(val)
    if isinstance(e, ast.UnaryOp) and isinstance(e.op, ast.USub):
        return -_eval(e.operand, var, val)
    if isinstance(e, ast.BinOp):
        a, b = _eval(e.left, var, val), _eval(e.right, var, val)
        return {ast.Add: lambda: a + b, ast.Sub: lambda: a - b, ast.Mult: lambda: a * b, ast.Div: lambda: a / b, ast.Pow: lambda: a ** b}[type(e.op)]()
    raise ValueError("not a literal expression")


def nzs_rules(chk):
    P = chk.P
    ch, sd = P.fn(DS + "c_h_factor"), P.fn(DS + "sd_nzs")
    chk.files.add(ch.module.relpath)
    tch, tsd = site_tables(ch, "tt"), site_tables(sd, "period")
    c = "eqsig/design_spectra.py"
    chk.ob("R-NZS-SIB", c + ":c_h_factor~sd_nzs{classes}", "both functions tabulate site classes C, D, E", set(tch) == set(tsd) == {"C", "D", "E"},
           derived="%s vs %s" % (sorted(tch), sorted(tsd)), loc=ch.loc(), inconclusive=(not tch or not tsd))       # no if/elif table located in one of them
    # the domain guard: a negative period is rejected, T = 0 and every positive period are served
    for fi_, var_ in ((ch, "tt"), (sd, "period")):
        gs = [n for n in ast.walk(fi_.node) if isinstance(n, ast.If) and isinstance(n.test, ast.Compare) and len(n.test.ops) == 1 and
              isinstance(n.test.left, ast.Name) and n.test.left.id == var_ and isinstance(n.test.comparators[0], ast.Constant) and
              any(isinstance(x, ast.Raise) for x in n.body)]
        for g in gs[:1]:
            okg = isinstance(g.test.ops[0], ast.Lt) and g.test.comparators[0].value == 0
            chk.ob("R-NZS-SIB", "%s:%s{domain guard}" % (c, fi_.name), "exactly the negative periods are rejected (T < 0)", okg,
                   derived="rejects %s" % " ".join(ast.unparse(g.test).split()), loc=fi_.loc(g), stmt=norm_stmt(g.test))
    # scalar in, scalar out; sequence in, array of the same length out
    r_ = analyse(chk, DS + "c_h_factor", lambda I, st, fi: dict(period=AV(kind=K_ARRAY, dtype="real", shape=(LinExpr("P"),), sign=S_NONNEG,
                                                                          origin=frozenset(["p:period"]), tags=frozenset(["p:period"])),
                                                                  site_class=const_av("C")))
    deco = bool(ch.node.decorator_list)         # a decorator changes what a call does: the body alone does not decide these two
    chk.ob("R-NZS-SIB", c + ":c_h_factor(array of periods)", "a sequence of P periods gives an array of P factors", not deco and r_.ret.kind == K_ARRAY and
           r_.ret.shape is not None and len(r_.ret.shape) == 1 and (r_.ret.shape[0] is None or r_.ret.shape[0] == LinExpr("P")),
           derived="kind %s shape %r" % (r_.ret.kind, r_.ret.shape), loc=ch.loc(),
           inconclusive=deco or r_.ret.indef or (r_.ret.kind == K_ARRAY and r_.ret.shape is None))
    te_ = [e for e in r_.I.events if e.kind == "type-error"]
    chk.ob("R-NZS-SIB", c + ":c_h_factor(array of periods){types}", "no ill-typed call on the way", not te_, derived="; ".join("%s %s" % (e.loc, e.what) for e in te_[:2])
           or "none", loc=te_[0].loc if te_ else ch.loc())
    r_ = analyse(chk, DS + "c_h_factor", lambda I, st, fi: dict(period=AV(kind=K_SCALAR, dtype="real", shape=(), sign=S_NONNEG, origin=frozenset(["lit"]),
                                                                          tags=frozenset(["p:period"]), note="pyscalar"), site_class=const_av("C")))
    chk.ob("R-NZS-SIB", c + ":c_h_factor(one float period)", "one float period gives one factor", not deco and r_.ret.kind == K_SCALAR,
           derived="kind %s" % r_.ret.kind, loc=ch.loc(), inconclusive=deco or r_.ret.indef)
    te_ = [e for e in r_.I.events if e.kind in ("type-error", "index-error")]
    chk.ob("R-NZS-SIB", c + ":c_h_factor(one float period){types}", "no ill-typed operation or index past the end on the way", not te_,
           derived="; ".join("%s %s" % (e.loc, e.what) for e in te_[:2]) or "none", loc=te_[0].loc if te_ else ch.loc(), inconclusive=deco and bool(te_))
    # whole-second periods held as integers: the factors are real numbers, the buffer they are stored in must not inherit the integer dtype
    no_truncation(chk, "R-NZS-SIB", DS + "c_h_factor", lambda I, st, fi: dict(period=AV(kind=K_ARRAY, dtype="int", shape=(LinExpr("P"),), sign=S_NONNEG,
                                                                                        origin=frozenset(["p:period"]), tags=frozenset(["p:period"])),
                                                                              site_class=const_av("C")),
                  c + ":c_h_factor(integer-typed periods)", what="integer-typed periods")
    T2 = Poly.atom("T") * Poly.atom("T")
    ren = lambda a: re.sub(r"\b(tt|period)\b", "T", a)
    for cls in sorted(set(tch) & set(tsd)):
        a, b = tch[cls], tsd[cls]
        bp_a = [(op, v) for op, v, _ in a]
        bp_b = [(op, v) for op, v, _ in b]
        chk.ob("R-NZS-SIB", c + "{class %s breakpoints}" % cls, "identical breakpoint lists", bp_a == bp_b, derived="%s vs %s" % (bp_a, bp_b), loc=sd.loc())
        for k, ((_, v, ea), (_, _, eb)) in enumerate(zip(a, b)):
            pa = Normaliser().poly(ea).subst_atoms(ren)
            pb = Normaliser().poly(eb).subst_atoms(ren)
            chk.ob("R-NZS-SIB", c + "{class %s interval %d}" % (cls, k), "sd branch = c_h branch * T^2", pb == pa * T2,
                   derived="c_h: %s ; sd: %s" % (pa.canon(), pb.canon()), loc=sd.loc(eb), stmt=" ".join(ast.unparse(eb).split()))
        # continuity of the c_h table at interior breakpoints
        for k in range(len(a) - 1):
            bp = a[k][1]
            if a[k][0] == "Eq":       # the T == 0 row against the next row at T = 0
                bp = a[k][1]
            try:
                left = _eval(a[k][2], "tt", bp)
                right = _eval(a[k + 1][2], "tt", bp)
                rel = abs(left - right) / max(abs(left), abs(right), 1e-12)
                chk.ob("R-NZS-CONT", c + ":c_h_factor{class %s at T=%s}" % (cls, bp), "adjacent branches agree within 1 %", rel <= 0.01,
                       derived="%.5g vs %.5g (relative jump %.3g)" % (left, right, rel), loc=ch.loc(a[k][2]))
            except Exception as ex:
                chk.ob("R-NZS-CONT", c + ":c_h_factor{class %s at T=%s}" % (cls, bp), "branches are literal expressions", False,
                       derived=str(ex), inconclusive=True, loc=ch.loc())
    # sd multiplies by Z * N * R once
    fin = [n for n in ast.walk(sd.node) if isinstance(n, ast.Assign) and isinstance(n.targets[0], ast.Name) and n.targets[0].id == "sd"]
    if len(fin) == 1:
        p = Normaliser().poly(fin[0].value)
        want = Poly.atom("c_h") * Poly.atom("z_factor") * Poly.atom("n_factor") * Poly.atom("r_factor")
        chk.ob("R-NZS-SIB", c + ":sd_nzs{factors}", "sd = (C_h*T^2) * Z * N * R", p == want, derived=p.canon(), loc=sd.loc(fin[0]))
    # t_eff corner constants: per site class (t_c, d_c), written as an if/elif chain on site_class or as a lookup table indexed by it
    import copy
    te = P.fn(DS + "t_eff")
    per_cls = {}
    # the function is specialised to each site class its if/elif chain names: the branch of that class is followed, assignments are
    # substituted in order, and t_c / d_c are read at the end -- wherever they are assigned (in the branch, before or after the chain)
    classes = sorted({n.test.comparators[0].value for n in ast.walk(te.node) if isinstance(n, ast.If) and isinstance(n.test, ast.Compare) and
                      isinstance(n.test.left, ast.Name) and n.test.left.id == "site_class" and len(n.test.ops) == 1 and
                      isinstance(n.test.ops[0], ast.Eq) and isinstance(n.test.comparators[0], ast.Constant)}, key=repr)

    def specialise(stmts, cls, env, anchor, inchain=False, dep=None):
        dep = dep if dep is not None else set()          # names whose value depends on the class (assigned inside the chain)
        for st in stmts:
            if isinstance(st, ast.If) and isinstance(st.test, ast.Compare) and isinstance(st.test.left, ast.Name) and st.test.left.id == "site_class" \
                    and len(st.test.ops) == 1 and isinstance(st.test.ops[0], (ast.Eq, ast.NotEq)) and isinstance(st.test.comparators[0], ast.Constant):
                holds = (st.test.comparators[0].value == cls) == isinstance(st.test.ops[0], ast.Eq)     # the test as it evaluates for this class
                if holds:
                    anchor[0] = st
                    specialise(st.body, cls, env, anchor, True, dep)
                else:
                    specialise(st.orelse, cls, env, anchor, inchain, dep)
            elif isinstance(st, ast.Raise):
                env["__raises__"] = True
                return
            elif isinstance(st, ast.Assign) and len(st.targets) == 1 and isinstance(st.targets[0], ast.Name):
                class Sub(ast.NodeTransformer):
                    def visit_Name(self, n_):
                        if isinstance(n_.ctx, ast.Load) and n_.id in env and n_.id in dep and n_.id not in te.params:
                            return copy.deepcopy(env[n_.id])
                        return n_
                if inchain:
                    dep.add(st.targets[0].id)
                env[st.targets[0].id] = Sub().visit(copy.deepcopy(st.value))
    chain_found = bool(classes)
    envs = {}
    for cls in sorted(set(classes) | ({"C", "D", "E"} if chain_found else set())):
        env_, anchor = {}, [te.node]
        specialise(te.node.body, cls, env_, anchor)
        envs[cls] = env_
        if "t_c" in env_ and "d_c" in env_ and not (env_.get("__raises__") and "time" not in env_ and False):
            per_cls[cls] = (env_["t_c"], env_["d_c"], anchor[0])
    if chain_found:
        for cls in ("C", "D", "E"):
            chk.ob("R-NZS-SIB", c + ":t_eff{class %s handled}" % cls, "site class %s reaches its own corner constants (the tests on site_class select it)" % cls,
                   cls in per_cls, derived="constants found" if cls in per_cls else "for site_class = %r the chain assigns no (t_c, d_c)" % cls, loc=te.loc())
        # gravity: the literal 9.81
        gv = [n.value for n in ast.walk(te.node) if isinstance(n, ast.Assign) and len(n.targets) == 1 and isinstance(n.targets[0], ast.Name) and
              n.targets[0].id == "gravity"]
        if gv:
            chk.ob("R-NZS-SIB", c + ":t_eff{gravity}", "gravity = 9.81", len(gv) == 1 and isinstance(gv[0], ast.Constant) and gv[0].value == 9.81,
                   derived=ast.unparse(gv[0]), loc=te.loc())
        # the inversion itself: T = t_c * d / d_c below the corner displacement, an error above it
        rets_ = [n for n in ast.walk(te.node) if isinstance(n, ast.Return) and n.value is not None]
        if len(rets_) == 1:
            nm_ = straightline_env([n for n in ast.walk(te.node) if isinstance(n, ast.Assign)], Normaliser(), exclude={"t_c", "d_c", "gravity"} | set(te.params))
            pt = nm_.poly(rets_[0].value)
            chk.ob("R-NZS-SIB", c + ":t_eff{inversion}", "T_eff = t_c * displacement / d_c", pt == Poly.atom("t_c") * Poly.atom("displacement") * Poly.atom("d_c").inverse(),
                   derived=pt.canon(), loc=te.loc(rets_[0]))
        guards = [n for n in ast.walk(te.node) if isinstance(n, ast.If) and isinstance(n.test, ast.Compare) and len(n.test.ops) == 1 and
                  {x.id for x in ast.walk(n.test) if isinstance(x, ast.Name)} == {"displacement", "d_c"}]
        if len(guards) == 1:
            g = guards[0]
            l_, r_ = ast.unparse(g.test.left), ast.unparse(g.test.comparators[0])
            op_ = type(g.test.ops[0]).__name__
            if l_ == "d_c":
                op_ = {"Lt": "Gt", "Gt": "Lt", "LtE": "GtE", "GtE": "LtE"}.get(op_, op_)
            raising = "body" if any(isinstance(x, ast.Raise) for x in g.body) else ("orelse" if any(isinstance(x, ast.Raise) for x in g.orelse) else None)
            okg = (op_ == "Gt" and raising == "body") or (op_ == "LtE" and raising == "orelse")
            chk.ob("R-NZS-SIB", c + ":t_eff{corner guard}", "only a displacement strictly above the corner displacement is rejected (d = d_c gives T = t_c)", okg,
                   derived="displacement %s d_c raises on the %s branch" % (op_, raising), loc=te.loc(g), stmt=norm_stmt(g.test))
    if not per_cls:
        once = {}
        for n in ast.walk(te.node):
            if isinstance(n, ast.Assign) and len(n.targets) == 1 and isinstance(n.targets[0], ast.Name):
                once.setdefault(n.targets[0].id, []).append(n.value)
        tables = {k: v[0] for k, v in once.items() if len(v) == 1 and isinstance(v[0], ast.Dict) and
                  all(isinstance(x, ast.Constant) and isinstance(x.value, str) for x in v[0].keys)}
        if len(once.get("t_c", [])) == 1 and len(once.get("d_c", [])) == 1 and tables:
            for cls in sorted({x.value for t in tables.values() for x in t.keys}):
                class Look(ast.NodeTransformer):
                    def visit_Subscript(self, n_):
                        self.generic_visit(n_)
                        if isinstance(n_.value, ast.Name) and n_.value.id in tables and isinstance(n_.slice, ast.Name) and n_.slice.id == "site_class":
                            t = tables[n_.value.id]
                            for k_, v_ in zip(t.keys, t.values):
                                if k_.value == cls:
                                    return copy.deepcopy(v_)
                        return n_
                per_cls[cls] = (once["t_c"][0], Look().visit(copy.deepcopy(once["d_c"][0])), te.node)
    if not per_cls:
        chk.ob("R-NZS-SIB", c + ":t_eff", "per-class corner constants as an if/elif chain or a lookup table on site_class", False,
               derived="neither form recognised", inconclusive=True, loc=te.loc())
    for cls, (tcv, dcv, node) in sorted(per_cls.items()):
        if cls in tch:
            last = tch[cls][-1][2]       # e.g. 3.96 / tt ** 2
            lastp = Normaliser().poly(last)
            coef = list(lastp.t.values())[0]
            dcp = Normaliser().poly(dcv)
            dcoef = list(dcp.t.values())[0]
            tc = tcv.value if isinstance(tcv, ast.Constant) else None
            lastbp = [v for op, v, _ in tch[cls] if v is not None][-1]
            chk.ob("R-NZS-SIB", c + ":t_eff{class %s}" % cls, "corner constant = last-interval coefficient; corner period = last breakpoint",
                   dcoef * 4 == coef and tc == lastbp and dcp.degree_of("pi") == -2 and dcp.degree_of("gravity") == 1 and
                   dcp == Poly.const(dcoef) * Poly.atom("z_factor") * Poly.atom("r_factor") * Poly.atom("n_factor") * Poly.atom("gravity") *
                   Poly.atom("pi").power(-2),
                   derived="d_c coefficient %s (*4 = %s) vs %s; t_c %s vs %s" % (dcoef, dcoef * 4, coef, tc, lastbp), loc=te.loc(node))

"""C06 -- Fourier amplitude spectrum is dt x DFT of the zero-padded record on the stated grid (structural clauses)."""
import ast
from fractions import Fraction

from ..tyob import *  # noqa
from ..tyob import analyse, expect, item, unmodelled_in, check_forwarder, read_property
from ..poly import Normaliser, Poly, straightline_env
from ..program import norm_stmt
from ..sweep import sweep

SIG = "eqsig.single.Signal"
ACC = "eqsig.single.AccSignal"
OBJ = SIG + ".gen_fa_spectrum"
CALC = "eqsig.fns.frequency.calc_fa_spectrum"
GEN = "eqsig.fns.frequency.generate_fa_spectrum"
NEXT_P2 = "pow[2,ceil[log2[n]]]"


def run(chk):
    P = chk.P
    chk.rule("R-FAS-TYPE", "spectrum: complex, linear in the record, degree +1 in dt; grid: real, independent of the record, degree -1 "
                           "in dt, starts at 0; both have length int(N/2) for the same N that is the FFT length; grid = arange(points)/(N*dt) with that N for every length (odd ones included)")
    chk.rule("R-FAS-SIB", "the three implementations agree per configuration on FFT length, bin count and types: default = next power of "
                          "two (value-numbered: 2**int(ceil(log2(npts)) + p2_plus)), explicit n, unpadded N = npts")
    chk.rule("R-INV-DT", "fas2values / fas2signal: linear in the spectrum, degree -1 in dt, upper half = flip(conj(fas[1:])), bins 0 and "
                         "n/2 left at zero, identical siblings; stype selects the class")
    chk.rule("R-CPLX-ORDER", "no ordering operation (argmax/argmin/max/min/sort/<,>) is applied to complex data anywhere in the package; "
                             "the dominant period is the reciprocal of the grid frequency at argmax |spectrum|")
    results = {}
    p2 = lambda: int_scalar("p2", "p2")
    N = lambda: int_scalar("N", "N")

    def sigarg(kw):
        def build(I, st, fi):
            d = {k: v() for k, v in kw.items()}
            d["sig"] = make_signal(I, st, P.cls(SIG), name="sig")[1]
            return d
        return build
    configs = [
        ("object", "default", OBJ, {}, True), ("object", "p2_plus", OBJ, {"p2_plus": p2}, True), ("object", "n", OBJ, {"n": N}, True),
        ("calc", "unpadded", CALC, {}, False), ("calc", "p2_plus", CALC, {"p2_plus": p2}, False), ("calc", "n", CALC, {"n": N}, False),
        ("calc", "default", CALC, {"p2_plus": lambda: const_av(0)}, False),
        ("generate", "default", GEN, {}, False), ("generate", "unpadded", GEN, {"n_pad": lambda: const_av(False)}, False),
    ]
    for impl, cfg, q, kw, is_obj in configs:
        def _watch(I, q=q):
            I.watch_arith = {q}
        if is_obj:
            r = analyse(chk, q, lambda I, st, fi, kw=kw: {k: v() for k, v in kw.items()}, self_cls=SIG, setup=_watch)
            o = r.st.heap[r.self_obj.id]
            spec, grid = o.attrs.get("_fa_spectrum"), o.attrs.get("_fa_freqs")
        else:
            r = analyse(chk, q, sigarg(kw), setup=_watch)
            spec, grid = item(r.ret, 0), item(r.ret, 1)
        c = "%s:%s(%s)" % (r.fi.module.relpath, r.fi.name, cfg)
        unmodelled_in(r, chk, "R-FAS-TYPE", c)
        ffts = [e for e in r.events("lib-call") if e.name.endswith(".fft")]
        if len(ffts) != 1:
            chk.ob("R-FAS-TYPE", c, "one FFT call on the path", False, derived="%d" % len(ffts), loc=r.fi.loc(), inconclusive=True)
            continue
        nk = ffts[0].kwargs.get("n") or (ffts[0].args[1] if len(ffts[0].args) > 1 else None)
        nfft = nk.sym if (nk is not None and nk.kind != K_NONE) else (ffts[0].args[0].shape[0] if ffts[0].args[0].shape else None)
        expect(chk, "R-FAS-TYPE", c + ".fft-input", ffts[0].args[0], tags_has=["attr:_values"], lin=[R], loc=ffts[0].loc)
        org = ffts[0].args[0].origin
        chk.ob("R-FAS-TYPE", c + ".fft-input[identity]", "the FFT is applied to the signal's values themselves (no arithmetic before it)",
               bool(org) and all(t.endswith("._values") or t.endswith(".values") for t in org), derived="origin %s" % sorted(org),
               loc=ffts[0].loc)
        expect(chk, "R-FAS-TYPE", c + ".spectrum", spec, lin=[R], deg={DT: 1}, dtype="complex", kind=K_ARRAY, tags_has=["fft:fft"], loc=r.fi.loc())
        expect(chk, "R-FAS-TYPE", c + ".grid", grid, const_in=[R], deg={DT: -1}, dtype="real", f0=True, kind=K_ARRAY, loc=r.fi.loc())
        ls, lg = (spec.length() if spec is not None else None), (grid.length() if grid is not None else None)
        want = LinExpr("int[div[%r,2]]" % nfft) if nfft is not None else None
        chk.ob("R-FAS-TYPE", c + ".bins", "spectrum and grid both have int(N/2) entries for the FFT length N", ls is not None and
               ls == lg and want is not None and ls == want, derived="N=%r, len(spectrum)=%r, len(grid)=%r" % (nfft, ls, lg), loc=r.fi.loc())
        # the bins are reported at k / (N * dt), N the FFT length: the spacing of the grid  arange(points) / (X * dt)  has X = N for EVERY length --
        # compared as symbolic integers; different expressions are constant-folded over sample lengths (2 * int(N / 2) is N only for even N)
        from ..values import split_product, compare_index_exprs
        gd = [e for e in r.events("arith", q) if e.op == "Div" and e.left.kind == K_ARRAY and "arange0" in e.left.tags and
              e.right.kind == K_SCALAR and e.right.sym is not None]
        if gd and nfft is not None:
            # one division by (X * dt), or a chain  arange / X / dt  (each step divides the arange-derived array)
            X, seen_dt, multi = None, False, False
            for e_ in gd:
                sp_ = split_product(e_.right.sym, "dt")
                if sp_ is not None:
                    X, seen_dt, multi = sp_, True, multi or X is not None
                elif LinExpr(e_.right.sym) == LinExpr("dt"):
                    seen_dt = True
                else:
                    X, multi = LinExpr(e_.right.sym), multi or X is not None
            if not seen_dt or multi:
                X = None
            if X is None:
                chk.ob("R-FAS-TYPE", c + ".spacing", "grid = arange(points) / (N * dt) with N the FFT length", False,
                       derived="divisor %r is not a product with dt" % (gd[-1].right.sym,), loc=gd[-1].loc, inconclusive=True)
            else:
                verdict, why = compare_index_exprs(X, nfft, samples=list(range(2, 70)) + [127, 128, 129, 255, 256, 257, 1000, 1023, 1024, 1025, 4683, 4684])
                chk.ob("R-FAS-TYPE", c + ".spacing", "the bins are reported at k / (N * dt), N the FFT length (for every N, odd ones included)", verdict == "equal",
                       derived="spacing 1 / (%r * dt), FFT length %r%s" % (X, nfft, "" if verdict == "equal" else " (%s)" % why), loc=gd[-1].loc,
                       stmt=gd[-1].stmt, inconclusive=verdict == "unknown")
        if not gd and nfft is not None:
            # the grid written as np.linspace(0, S, count, endpoint=False): spacing S / count.  With count = int(N / 2) and an end point S
            # that does not depend on the transform length (a Nyquist constant 0.5 / dt), the spacing is 1 / (2 * int(N / 2) * dt): N = 2
            # and N = 3 have the same count 1 and would need S = 1 / (2 dt) and S = 1 / (3 dt) at once -- decided where N can be odd
            for e_ in [e for e in r.events("lib-call", q) if e.name == "numpy.linspace" and len(e.args) >= 3]:
                ep = e_.kwargs.get("endpoint")
                st_, sp_, cnt = e_.args[0], e_.args[1], e_.args[2]
                if not (ep is not None and ep.has_const() and ep.const is False and st_.has_const() and st_.const == 0 and cnt.sym is not None):
                    continue
                verdict, why = compare_index_exprs(LinExpr(cnt.sym).scale(2), nfft,
                                                   samples=list(range(2, 70)) + [127, 128, 129, 255, 256, 257, 1000, 1023, 1024, 1025, 4683, 4684])
                indep = not ({"len-of", "fft:fft", "attr:_values", "attr:_npts"} & set(sp_.tags)) and sp_.kind == K_SCALAR
                if verdict == "differ" and indep:
                    chk.ob("R-FAS-TYPE", c + ".spacing", "the bins are reported at k / (N * dt), N the FFT length (for every N, odd ones included)", False,
                           derived="linspace(0, S, %r, endpoint=False) with S independent of the FFT length %r: spacing 1 / (2 * count * dt), and 2 * count "
                                   "is not N (%s)" % (cnt.sym, nfft, why), loc=e_.loc, stmt=e_.stmt)
        results[(impl, cfg)] = (repr(nfft), repr(ls), spec.describe((R, DT)) if spec is not None else None,
                                grid.describe((R, DT)) if grid is not None else None)
        # (the syntactic `.grid-form` rule is superseded by the `.spacing` obligation above, which reads the divisor off the arithmetic events and so
        # sees through locals and helper names; it is kept only where the spacing could not be located)
        if not gd or nfft is None:
            grid_form(chk, r.fi, c)
    # expected N per configuration (the statement's padding rule)
    for (impl, cfg), v in sorted(results.items()):
        want = {"default": NEXT_P2, "p2_plus": "pow[2,ceil[log2[n]]+p2]", "n": "N", "unpadded": "n"}[cfg]
        chk.ob("R-FAS-SIB", "%s(%s)[N]" % (impl, cfg), "FFT length %s" % want, v[0] == want, derived="N = %s" % v[0])
    for cfg in ("default", "p2_plus", "n", "unpadded"):
        grp = sorted((impl, v) for (impl, c2), v in results.items() if c2 == cfg)
        for (ia, va), (ib, vb) in zip(grp, grp[1:]):
            def strip(d):
                return None if d is None else {k: v for k, v in d.items() if k not in ("tags", "sign", "mono")}
            same = va[0] == vb[0] and va[1] == vb[1] and strip(va[2]) == strip(vb[2]) and strip(va[3]) == strip(vb[3])
            chk.ob("R-FAS-SIB", "%s~%s(%s)" % (ia, ib, cfg), "siblings agree on N, bin count and types", same,
                   derived="N %s / %s; bins %s / %s" % (va[0], vb[0], va[1], vb[1]))
    # object-level forwarders / derivations of the same cache
    check_forwarder(chk, "R-FAS-SIB", SIG + ".generate_fa_spectrum", OBJ)
    for prop, stored in (("fa_spectrum", "_fa_spectrum"), ("fa_freqs", "_fa_freqs"), ("fa_frequencies", "_fa_freqs"), ("fa_spectrum_abs", "_fa_spectrum")):
        v, I, m = read_property(chk, SIG, prop)
        c = "eqsig/single.py:Signal.%s" % prop
        if stored == "_fa_spectrum" and prop != "fa_spectrum_abs":
            expect(chk, "R-FAS-SIB", c, v, lin=[R], deg={DT: 1}, dtype="complex", length=LinExpr("int[div[%s,2]]" % NEXT_P2), loc=m.loc())
        elif prop == "fa_spectrum_abs":
            expect(chk, "R-FAS-SIB", c, v, deg={DT: 1, R: 1}, parity={R: "even"}, sign="nonneg", dtype="real",
                   length=LinExpr("int[div[%s,2]]" % NEXT_P2), loc=m.loc())
        else:
            expect(chk, "R-FAS-SIB", c, v, const_in=[R], deg={DT: -1}, f0=True, length=LinExpr("int[div[%s,2]]" % NEXT_P2), loc=m.loc())
    inverse_rules(chk)
    complex_order(chk)
    chk.floor("R-FAS-TYPE", 80)
    chk.floor("R-FAS-SIB", 25)
    chk.floor("R-INV-DT", 14)
    chk.floor("R-CPLX-ORDER", 5)
    from ..tyob import libns_for
    chk.rule("R-LIBNS", "every NumPy/SciPy name referenced by the anchored Fourier functions (spectrum, inverse helper, Fourier moments / Boore "
                        "bandwidth, dominant period) exists in the installed library (resolved from the installed stubs/sources, nothing imported)")
    libns_for(chk, "R-LIBNS", ["eqsig.single.Signal.gen_fa_spectrum", "eqsig.fns.frequency.generate_fa_spectrum", "eqsig.fns.frequency.calc_fa_spectrum",
                               "eqsig.fns.frequency.fas2values", "eqsig.fns.frequency.fas2signal", "eqsig.fns.frequency.calc_fourier_moment",
                               "eqsig.fns.frequency.get_bandwidth_boore_2003", "eqsig.im.max_fa_period"])
    chk.floor("R-LIBNS", 8)


def grid_form(chk, fi, c):
    """the expression stored as the frequency grid is arange(X) / (2 * X * dt)"""
    cand = []
    for n in ast.walk(fi.node):
        if isinstance(n, ast.Assign) and len(n.targets) == 1:
            t = n.targets[0]
            name = t.id if isinstance(t, ast.Name) else (t.attr if isinstance(t, ast.Attribute) else None)
            if name and "freq" in name and isinstance(n.value, ast.BinOp):
                cand.append(n)
        elif isinstance(n, ast.Return) and isinstance(n.value, ast.Tuple):
            # the grid handed back without a name: an arithmetic element of the returned pair built on np.arange
            for e in n.value.elts:
                if isinstance(e, ast.BinOp) and any(isinstance(x, ast.Call) and ast.unparse(x.func).split(".")[-1] == "arange" for x in ast.walk(e)):
                    cand.append(ast.copy_location(ast.Assign(targets=[ast.Name(id="_returned_grid", ctx=ast.Store())], value=e), n))
    if not cand:
        chk.ob("R-FAS-TYPE", c + ".grid-form", "an arithmetic definition of the frequency grid", False, derived="none found",
               inconclusive=True, loc=fi.loc())
        return
    seen = set()
    # locals that merely rename something (x = dt, x = self.dt; bound once) are read through: an inlined helper's parameters are such
    counts = {}
    for n in ast.walk(fi.node):
        if isinstance(n, ast.Name) and isinstance(n.ctx, ast.Store):
            counts[n.id] = counts.get(n.id, 0) + 1
    params = {a.arg for a in fi.node.args.args}
    renames = {}
    for n in ast.walk(fi.node):
        if isinstance(n, ast.Assign) and len(n.targets) == 1 and isinstance(n.targets[0], ast.Name) and \
                isinstance(n.value, (ast.Name, ast.Attribute)) and counts.get(n.targets[0].id) == 1 and n.targets[0].id not in params:
            renames[n.targets[0].id] = n.value
    for cd in cand:             # a definition per branch (or per inlined helper call) is fine: each must have the form
        norm = Normaliser()
        for k in renames:
            norm.env[k] = None
        for _ in range(3):
            for k, v in renames.items():
                if norm.env[k] is None and not any(isinstance(x, ast.Name) and x.id in renames and norm.env[x.id] is None for x in ast.walk(v)):
                    norm.env[k] = norm.poly(v)
        for k in [k for k, v in norm.env.items() if v is None]:
            del norm.env[k]
        p = norm.poly(cd.value).subst_atoms(lambda a: "dt" if a.endswith(".dt") else a)
        if p.canon() in seen:
            continue
        seen.add(p.canon())
        ok = False
        why = p.canon()
        if p.is_monomial():
            (m, co), = p.t.items()
            d = dict(m)
            ar = [a for a in d if a.startswith(("np.arange(", "numpy.arange("))]
            if len(ar) == 1 and d[ar[0]] == 1:
                x = ar[0][ar[0].index("(") + 1:-1]
                # arange(points) over dt times ONE count; which count it must be (the FFT length, for every length) is the `.spacing` obligation's
                # business -- this rule first demanded the tree's own `2 * points`, which is the FFT length only for even N (defect F15, 9.21)
                ok = d.get("dt") == -1 and len(d) == 3 and all(v_ in (1, -1) for v_ in d.values())
        chk.ob("R-FAS-TYPE", c + ".grid-form", "grid = arange(points) / (count * dt)", ok, derived=why, loc=fi.loc(cd),
               stmt=norm_stmt(cd))


def inverse_rules(chk):
    P = chk.P
    out = {}
    for q in ("eqsig.fns.frequency.fas2values", "eqsig.fns.frequency.fas2signal"):
        def build(I, st, fi):
            return dict(fas=AV(kind=K_ARRAY, dtype="complex", shape=(LinExpr("m"),), alg={R: LIN}, origin=frozenset(["p:fas"]),
                               tags=frozenset(["p:fas"])), dt=pos_scalar("dt", DT))
        r = analyse(chk, q, build)
        c = "%s:%s" % (r.fi.module.relpath, r.fi.name)
        unmodelled_in(r, chk, "R-INV-DT", c)
        iff = [e for e in r.events("lib-call") if e.name.endswith(".ifft")]
        if len(iff) != 1:
            chk.ob("R-INV-DT", c, "one inverse FFT", False, derived="%d" % len(iff), loc=r.fi.loc(), inconclusive=True)
            continue
        spec = iff[0].args[0]
        expect(chk, "R-INV-DT", c + ".ifft-input", spec, lin=[R], deg={DT: -1}, dtype="complex", shape=(LinExpr("m").scale(2),),
               tags_has=["conj", "flip", "p:fas"], loc=iff[0].loc)
        # events in the entry or in a sibling of the same module it delegates to (fas2signal may simply call fas2values)
        here = lambda e: e.fn.startswith("eqsig.fns.frequency.")
        stores = [e for e in r.events("mutation") if here(e) and e.how == "subscript-store" and e.index is not None and e.index.kind == K_SLICE]
        cats = [e for e in r.events("lib-call") if here(e) and e.name in ("numpy.concatenate", "numpy.hstack", "numpy.r_") and e.args and
                getattr(e.args[0], "items", None) and len(e.args[0].items) == 4]
        if not stores and len(cats) == 1:
            # the two-sided buffer assembled from its four pieces instead of written into a zeros buffer: [0, fas[1:], 0, flip(conj(fas[1:]))]
            pcs = cats[0].args[0].items
            m1 = LinExpr("m") - 1

            def piece(v):
                ln = v.shape[0] if v.shape else None
                zero = v.sign == S_ZERO
                return (repr(ln) if ln is not None else None, "zero" if zero else ("mirror" if ("conj" in v.tags and "flip" in v.tags) else
                                                                                   ("plain" if "p:fas" in v.tags and "conj" not in v.tags and
                                                                                    "flip" not in v.tags else "?")))
            got = [piece(v) for v in pcs]
            want_p = [("1", "zero"), (repr(m1), "plain"), ("1", "zero"), (repr(m1), "mirror")]
            chk.ob("R-INV-DT", c + ".halves", "a[1:n/2] = fas[1:]; a[n/2+1:] = flip(conj(fas[1:])): bins 0 and n/2 stay zero",
                   got == want_p, derived="pieces %s" % got, loc=cats[0].loc)
            chk.ob("R-INV-DT", c + ".source", "both halves are built from fas[1:]", got[1][0] == repr(m1) and got[3][0] == repr(m1),
                   derived="piece lengths %s" % [g[0] for g in got], loc=cats[0].loc)
            chk.ob("R-INV-DT", c + ".buffer", "bins 0 and n/2 are zero pieces of length 1", got[0] == ("1", "zero") and got[2] == ("1", "zero"),
                   derived="%s / %s" % (got[0], got[2]), loc=cats[0].loc)
            sl = [("1", "m", False), ("m+1", None, True)] if got == want_p else got
        else:
            sl = []
            for e in stores:
                lo, up, _ = e.index.items
                sl.append((repr(lo.sym) if lo is not None else None, repr(up.sym) if up is not None else None,
                           "conj" in e.value.tags and "flip" in e.value.tags))
            want = [("1", "m", False), ("m+1", None, True)]
            located = bool(stores)
            chk.ob("R-INV-DT", c + ".halves", "a[1:n/2] = fas[1:]; a[n/2+1:] = flip(conj(fas[1:])): bins 0 and n/2 stay zero",
                   sorted(sl, key=repr) == sorted(want, key=repr), derived="stores %s" % sl, loc=stores[0].loc if stores else r.fi.loc(),
                   inconclusive=not located)
            srcs = [e.value for e in stores]
            ok_src = all(v.shape is not None and v.shape[0] == LinExpr("m") - 1 for v in srcs) and len(srcs) == 2
            chk.ob("R-INV-DT", c + ".source", "both halves are built from fas[1:]", ok_src, derived="source lengths %s" % [v.shape for v in srcs],
                   loc=r.fi.loc(), inconclusive=not located)
            zero = [e for e in r.events("lib-call") if here(e) and e.name == "numpy.zeros"]
            chk.ob("R-INV-DT", c + ".buffer", "the two-sided buffer is created by np.zeros(2*len(fas), complex)", len(zero) == 1,
                   derived="%d zeros calls" % len(zero), loc=r.fi.loc(), inconclusive=not located)
        out[q] = (sorted(sl, key=repr), spec.describe((R, DT)))
        if q.endswith("fas2values"):
            expect(chk, "R-INV-DT", c + ".result", r.ret, lin=[R], deg={DT: -1}, loc=r.fi.loc())
            # every one of the N = 2*len(fas) reconstructed samples is returned (N need not be a power of two: explicit n)
            expect(chk, "R-INV-DT", c + ".result{all samples}", r.ret, shape=(LinExpr("m").scale(2),), loc=r.fi.loc())
    if len(out) == 2:
        a, b = out.values()
        sa = {k: v for k, v in a[1].items() if k != "tags"}
        sb = {k: v for k, v in b[1].items() if k != "tags"}
        chk.ob("R-INV-DT", "fas2values~fas2signal", "duplicated inverse helpers have equal summaries", a[0] == b[0] and sa == sb,
               derived="%s vs %s" % (a[0], b[0]))
    for stype, cls in (("signal", "Signal"), ("acc", "AccSignal")):
        def build(I, st, fi, stype=stype):
            return dict(fas=AV(kind=K_ARRAY, dtype="complex", shape=(LinExpr("m"),), alg={R: LIN}, origin=frozenset(["p:fas"])),
                        dt=pos_scalar("dt", DT), stype=const_av(stype))
        r = analyse(chk, "eqsig.fns.frequency.fas2signal", build)
        o = r.st.heap.get(r.ret.obj) if r.ret.kind == K_OBJ else None
        chk.ob("R-INV-DT", "eqsig/fns/frequency.py:fas2signal(stype=%s)" % stype, "returns a %s" % cls,
               o is not None and o.cls.name == cls, derived="returns %s" % (o.cls.name if o is not None else r.ret.kind), loc=r.fi.loc())
        if o is not None:
            expect(chk, "R-INV-DT", "eqsig/fns/frequency.py:fas2signal(stype=%s).values" % stype, o.attrs.get("_values"), lin=[R],
                   deg={DT: -1}, loc=r.fi.loc())
            expect(chk, "R-INV-DT", "eqsig/fns/frequency.py:fas2signal(stype=%s).values{all samples}" % stype, o.attrs.get("_values"),
                   length=LinExpr("m").scale(2), loc=r.fi.loc())
            expect(chk, "R-INV-DT", "eqsig/fns/frequency.py:fas2signal(stype=%s).dt" % stype, o.attrs.get("_dt"), deg={DT: 1}, loc=r.fi.loc())


def complex_order(chk):
    P = chk.P
    n = 0
    hits = {}
    for fi, label, I, st, so in sweep(P, chk, flags="cold"):
        n += 1
        for e in I.events:
            if e.kind == "complex-order":
                hits.setdefault((e.fn, e.stmt), (e, label))
    # this property owns the Fourier-spectrum functions and the dominant-period measure; sites elsewhere are reported as notes
    # (they belong to the properties anchored there) so that a defect in, say, the smoothing code is not raised against C06
    OWN = ("eqsig.im.max_fa_period", "eqsig.fns.frequency.calc_fa_spectrum", "eqsig.fns.frequency.generate_fa_spectrum",
           "eqsig.fns.frequency.fas2values", "eqsig.fns.frequency.fas2signal", "eqsig.fns.frequency.calc_fourier_moment",
           "eqsig.fns.frequency.get_bandwidth_boore_2003", "eqsig.single.Signal.gen_fa_spectrum", "eqsig.single.Signal.fa_spectrum",
           "eqsig.single.Signal.fa_spectrum_abs", "eqsig.single.Signal.fa_freqs", "eqsig.single.Signal.fa_frequencies",
           "eqsig.single.Signal.generate_fa_spectrum")
    own_hits = 0
    for (fn, stmt), (e, label) in sorted(hits.items()):
        if fn in OWN:
            own_hits += 1
            chk.ob("R-CPLX-ORDER", "%s:%s" % (e.loc.split(":")[0], fn.split(".", 1)[1]), "no ordering operation on complex data", False,
                   derived=e.what, loc=e.loc, stmt=stmt,
                   detail="NumPy orders complex numbers lexicographically (real part first): the result depends on the phase")
        else:
            chk.note("off-property: ordering operation possibly on complex data in %s (%s): %s" % (fn, e.loc, e.what))
    chk.ob("R-CPLX-ORDER", "eqsig/*[Fourier functions]", "no ordering operation on complex data in the %d Fourier-spectrum functions (%d entries swept)"
           % (len(OWN), n), own_hits == 0, derived="%d site(s) in them, %d elsewhere (notes)" % (own_hits, len(hits) - own_hits))
    # a positive example keeps the rule from passing vacuously
    from ..interp import Interp, State
    import types
    src = "import numpy as np\ndef f(x):\n    return np.argmax(np.fft.fft(x))\n"
    Ipos = _mini(P, src)
    chk.ob("R-CPLX-ORDER", "selftest:positive-example", "the rule fires on `np.argmax(np.fft.fft(x))`", Ipos, derived="fired: %s" % Ipos,
           nontrivial=False)
    # dominant period
    r = analyse(chk, "eqsig.im.max_fa_period", lambda I, st, fi: dict(asig=make_signal(I, st, P.cls(ACC), name="asig")[1]))
    c = "eqsig/im.py:max_fa_period"
    expect(chk, "R-CPLX-ORDER", c, r.ret, deg={DT: 1, R: 0}, parity={R: "even"}, tags_has=["red:argmax", "abs", "fft:fft"], kind=K_SCALAR,
           loc=r.fi.loc())
    am = [e for e in r.events("lib-call", "eqsig.im.max_fa_period") if e.name in ("numpy.argmax",)]
    chk.ob("R-CPLX-ORDER", c + "[argmax operand]", "argmax over a real, even, non-negative amplitude", len(am) == 1 and
           am[0].args[0].dtype == "real" and is_nonneg(am[0].args[0].sign), derived="operand dtype %s" % (am[0].args[0].dtype if am else None),
           loc=am[0].loc if am else r.fi.loc(),
           inconclusive=(not am) or (len(am) == 1 and (am[0].args[0].dtype == "top" or am[0].args[0].indef)))          # the operand's type was not derived


    # and it is the period OF that bin: exactly the reciprocal of the frequency selected by the argmax (coefficient 1)
    rets = [n for n in ast.walk(r.fi.node) if isinstance(n, ast.Return) and n.value is not None]
    if len(rets) == 1:
        env_ = straightline_env(r.fi.node.body, Normaliser(), exclude=set(r.fi.params))
        pl = env_.poly(rets[0].value)
        okp = False
        if pl.is_monomial():
            (m_, co_), = pl.t.items()
            d_ = dict(m_)
            okp = co_ == 1 and len(d_) == 1 and list(d_.values()) == [-1] and "fa_frequencies[" in list(d_)[0]
        chk.ob("R-CPLX-ORDER", c + "{reciprocal}", "the period is 1 / (frequency of the largest-amplitude bin)", okp, derived=pl.canon(),
               loc=r.fi.loc(rets[0]), stmt=norm_stmt(rets[0]), inconclusive=not pl.is_monomial())


def _mini(P, src):
    """interpret a tiny positive example with the same engine"""
    import ast as _ast
    from ..program import ModuleInfo, FunctionInfo
    from ..interp import Interp, State
    mod = ModuleInfo("eqsig._selftest_pos", "<pos>", "<pos>", src)
    from ..program import collect_imports
    collect_imports(mod, mod.tree.body, mod.imports, mod.star_imports)
    fn = [s for s in mod.tree.body if isinstance(s, _ast.FunctionDef)][0]
    fi = FunctionInfo("eqsig._selftest_pos.f", fn, mod)
    I = Interp(P)
    I.atoms = {R, DT}
    I.run(fi, {"x": rec_array("x")}, State())
    return any(e.kind == "complex-order" for e in I.events)

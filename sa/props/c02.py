"""C02 -- the response operator is linear, causal, time-invariant with zero state, period-wise independent."""
import ast

from ..tyob import *  # noqa
from ..tyob import analyse, expect, item, unmodelled_in
from ..program import norm_stmt

NJR = "eqsig.sdof.nigam_and_jennings_response"
T = "T"

ELEMENTWISE = {"numpy.sqrt", "numpy.exp", "numpy.sin", "numpy.cos", "numpy.array", "numpy.asarray", "numpy.abs",
               "numpy.where", "numpy.ones_like", "numpy.zeros_like", "numpy.zeros", "numpy.ones", "numpy.power",
               "numpy.multiply", "numpy.add", "numpy.subtract", "numpy.divide", "numpy.negative", "numpy.square",
               "numpy.tan", "numpy.log", "numpy.copy", "numpy.empty", "numpy.empty_like", "numpy.conj", "numpy.real",
               "numpy.sinh", "numpy.cosh", "numpy.expm1", "numpy.sign", "numpy.full", "numpy.full_like",
               "numpy.maximum", "numpy.minimum", "numpy.fmax", "numpy.fmin", "numpy.absolute", "numpy.fabs", "numpy.clip", "numpy.hypot",
               "numpy.float_power", "numpy.reciprocal", "numpy.true_divide", "numpy.isfinite", "numpy.isnan", "numpy.nan_to_num",
               "numpy.logical_and", "numpy.logical_or", "numpy.logical_not", "numpy.less", "numpy.greater", "numpy.equal",
               "numpy.arctan", "numpy.arctan2", "numpy.arcsin", "numpy.arccos", "numpy.log10", "numpy.log2", "numpy.exp2", "numpy.cbrt",
               "numpy.atleast_1d", "numpy.ascontiguousarray", "numpy.asanyarray"}
REDUCTIONS = {"numpy.max", "numpy.min", "numpy.sum", "numpy.mean", "numpy.argmax", "numpy.argmin", "numpy.cumsum",
              "numpy.prod", "numpy.std", "numpy.var", "numpy.median", "numpy.sort", "numpy.argsort", "numpy.diff",
              "numpy.maximum.accumulate", "numpy.any", "numpy.all"}


SHAPE_QUERIES = {"numpy.shape", "numpy.ndim", "numpy.size", "numpy.isscalar", "numpy.result_type", "numpy.dtype"}
ROW_ASSEMBLY = {"numpy.vstack", "numpy.concatenate", "numpy.stack", "numpy.append"}
MIXING = {"numpy.flip", "numpy.flipud", "numpy.roll", "numpy.searchsorted", "numpy.unique", "numpy.interp", "numpy.convolve", "numpy.dot",
          "numpy.matmul", "numpy.outer", "numpy.take", "numpy.put", "numpy.delete", "numpy.insert", "numpy.trapezoid", "numpy.gradient",
          "numpy.ediff1d", "numpy.cumprod", "numpy.percentile", "numpy.linalg.norm", "numpy.fft.fft", "numpy.fft.ifft"}


def periods_av(positive=True):
    return AV(kind=K_ARRAY, dtype="real", shape=(LinExpr("P"),), sign=S_POS if positive else S_NONNEG,
              alg={T: HOM(1, "even")}, origin=frozenset(["p:periods"]), tags=frozenset(["p:periods"]))


def xi_av():
    return AV(kind=K_SCALAR, dtype="real", shape=(), sign=S_NONNEG, origin=frozenset(["lit"]), tags=frozenset(["p:xi"]),
              note="pyscalar")


def std_args(first="acc", positive=False):
    def build(I, st, fi):
        return {fi.params[0]: rec_array(fi.params[0]), fi.params[1]: pos_scalar("dt", DT),
                fi.params[2]: periods_av(positive), fi.params[3]: xi_av()}
    return build


def run(chk):
    chk.rule("R-LIN", "all three response series are linear in the record (coefficients independent of it, zero initial state, "
                      "every store a sum of const*linear terms; fixed point over the loop); spectra are degree-1, even")
    chk.rule("R-CAUSAL", "in the recurrence the store at column i+k reads state columns < i+k and record columns <= i+k")
    chk.rule("R-TINV", "the recurrence coefficients do not depend on the loop variable and are not re-bound in the loop; state "
                       "arrays start as zeros and column 0 is never stored")
    chk.rule("R-ELEMWISE", "along the period axis every operation is element-wise: only element-wise library calls, basic "
                           "slices and time-axis (axis=1) reductions touch period-indexed values; store shapes agree")
    chk.rule("R-CALLS", "the response of a period does not depend on the calls made before: the response functions have no in-place effect on "
                        "their arguments (record, period list)")
    P = chk.P
    # ------------------------------------------------------------------ R-LIN
    for q in (NJR, "eqsig.sdof.response_series"):
        r = analyse(chk, q, std_args(), atoms=(R, DT, T))
        c = "%s:%s" % (r.fi.module.relpath, r.fi.name)
        unmodelled_in(r, chk, "R-LIN", c)
        expect(chk, "R-LIN", c, r.ret, items=3, loc=r.fi.loc())
        for i, nm in enumerate(("u", "v", "a")):
            x = item(r.ret, i)
            expect(chk, "R-LIN", "%s.%s" % (c, nm), x, lin=[R], kind=K_ARRAY, loc=r.fi.loc())
            if x is not None and x.shape is not None and len(x.shape) == 2:
                chk.ob("R-LIN", "%s.%s[time-axis]" % (c, nm), "time axis has the record's length", x.shape[1] == LinExpr("n"),
                       derived="shape %r" % (x.shape,), loc=r.fi.loc())
            else:
                chk.ob("R-LIN", "%s.%s[time-axis]" % (c, nm), "2-D (periods x time)", False, derived="shape %r" % (x.shape if x else None,),
                       inconclusive=(x is None or x.shape is None),
                       loc=r.fi.loc())
    cab = analyse(chk, "eqsig.sdof.compute_a_and_b", lambda I, st, fi: dict(xi=xi_av(), w=periods_av(True), dt=pos_scalar("dt", DT)),
                  atoms=(R, DT, T))
    for i, nm in enumerate(("A", "B")):
        expect(chk, "R-LIN", "eqsig/sdof.py:compute_a_and_b.%s" % nm, item(cab.ret, i), const_in=[R], loc=cab.fi.loc())
    for q in ("eqsig.sdof.pseudo_response_spectra", "eqsig.sdof.true_response_spectra"):
        r = analyse(chk, q, std_args(), atoms=(R, DT, T))
        c = "%s:%s" % (r.fi.module.relpath, r.fi.name)
        unmodelled_in(r, chk, "R-LIN", c)
        for i, nm in enumerate(("S_d", "S_v", "S_a")):
            expect(chk, "R-LIN", "%s.%s" % (c, nm), item(r.ret, i), deg={R: 1}, parity={R: "even"}, sign="nonneg",
                   shape=("P",), loc=r.fi.loc())
    # ------------------------------------------------------------------ R-CAUSAL / R-TINV on the recurrence loop
    fi = P.fn(NJR)
    recurrence_rules(chk, fi)
    # ------------------------------------------------------------------ R-ELEMWISE
    for q in ("eqsig.sdof.pseudo_response_spectra", "eqsig.sdof.true_response_spectra", NJR):
        r = analyse(chk, q, std_args(), atoms=(R, DT, T))
        elementwise_rules(chk, r, q)
    # ------------------------------------------------------------------ R-CALLS: a call is a function of its arguments only
    for q in (NJR, "eqsig.sdof.response_series", "eqsig.sdof.pseudo_response_spectra", "eqsig.sdof.true_response_spectra"):
        r = analyse(chk, q, std_args(), atoms=(R, DT, T))
        c = "%s:%s" % (r.fi.module.relpath, r.fi.name)
        bad = [e for e in r.I.events if e.kind == "mutation" and any(t.startswith("p:") for t in (e.origins or ()))]
        chk.ob("R-CALLS", c + "{arguments}", "the record and the period list are left unchanged (a second call with the same arrays sees the same "
               "periods: results do not depend on how calls are batched)", not bad,
               derived=("in-place %s on a value aliasing %s" % (bad[0].how, sorted(t for t in bad[0].origins if t.startswith("p:")))) if bad else
               "no in-place effect on an argument", loc=bad[0].loc if bad else r.fi.loc(), stmt=bad[0].stmt if bad else None)
    # integer-typed containers (digitiser counts as the record; whole-second periods): no real value may land in a buffer that inherits the
    # integer dtype -- the response of one period would depend on the dtype of the list it is passed in
    from ..tyob import no_truncation
    no_truncation(chk, "R-LIN", NJR, lambda I, st, fi: {fi.params[0]: rec_array(fi.params[0], dtype="int"), fi.params[1]: pos_scalar("dt", DT),
                                                        fi.params[2]: periods_av(False), fi.params[3]: xi_av()},
                  "eqsig/sdof.py:nigam_and_jennings_response(integer-typed record)", atoms=(R, DT, T), what="an integer-typed record")
    for q in ("eqsig.sdof.pseudo_response_spectra", "eqsig.sdof.true_response_spectra"):
        no_truncation(chk, "R-ELEMWISE", q, lambda I, st, fi: {fi.params[0]: rec_array(fi.params[0]), fi.params[1]: pos_scalar("dt", DT),
                                                               fi.params[2]: periods_av(False).replace(dtype="int"), fi.params[3]: xi_av()},
                      "eqsig/sdof.py:%s(integer-typed periods)" % q.split(".")[-1], atoms=(R, DT, T), what="integer-typed periods")
    # refinement: the record handed to the integrator at a finer step is the linear interpolation AT the instants k * dt / factor -- the
    # abscissa of the interpolation is arange(new_npts) / factor (the original samples recur every `factor` positions), not a grid stretched
    # over the record
    ra = analyse(chk, "eqsig.fns.time_step.interp_array_to_approx_dt", lambda I, st, fi: dict(values=rec_array("values"), dt=pos_scalar("dt", DT),
                                                                                           target_dt=pos_scalar("target_dt", None)))
    ipx = [e for e in ra.I.events if e.kind == "lib-call" and e.name == "numpy.interp"]
    for e in ipx[:1]:
        x_ = e.args[0]
        chk.ob("R-CALLS", "eqsig/fns/time_step.py:interp_array_to_approx_dt{refined instants}", "the refined record is sampled at arange(new_npts) / factor",
               "arange0" in x_.tags and "linspace" not in x_.tags, derived="abscissa built from %s" % sorted(t for t in x_.tags if t in ("arange0", "linspace")),
               loc=e.loc, stmt=e.stmt, inconclusive=("arange0" not in x_.tags and "linspace" not in x_.tags))
    chk.floor("R-CALLS", 4)
    chk.floor("R-LIN", 40)
    chk.floor("R-CAUSAL", 4)
    chk.floor("R-TINV", 4)
    chk.floor("R-ELEMWISE", 20)


# ---------------------------------------------------------------------------------------------------------------------
def _offset(expr, var):
    """expr == var + k  ->  k ;  None if expr does not mention var (or an affine alias of it); 'nonaffine' otherwise.
    `var` is a dict {name: offset} of the loop variable and its affine aliases."""
    names = {n.id for n in ast.walk(expr) if isinstance(n, ast.Name)}
    if not (names & set(var)):
        return None
    if isinstance(expr, ast.Name):
        return var[expr.id]
    if isinstance(expr, ast.BinOp) and isinstance(expr.op, (ast.Add, ast.Sub)):
        l, r = expr.left, expr.right
        if isinstance(l, ast.Name) and l.id in var and isinstance(r, ast.Constant) and isinstance(r.value, int):
            return var[l.id] + (r.value if isinstance(expr.op, ast.Add) else -r.value)
        if isinstance(r, ast.Name) and r.id in var and isinstance(l, ast.Constant) and isinstance(l.value, int) and \
                isinstance(expr.op, ast.Add):
            return var[r.id] + l.value
    return "nonaffine"


def _aliases(loop):
    al = {loop.target.id: 0}
    for st in loop.body:
        if isinstance(st, ast.Assign) and len(st.targets) == 1 and isinstance(st.targets[0], ast.Name):
            o = _offset(st.value, al)
            if isinstance(o, int):
                al[st.targets[0].id] = o
    return al


def _time_index(sub, var):
    """offset of the loop variable in any component of a subscript"""
    comps = sub.slice.elts if isinstance(sub.slice, ast.Tuple) else [sub.slice]
    offs = []
    for c in comps:
        if isinstance(c, ast.Slice):
            for p in (c.lower, c.upper, c.step):
                if p is not None and _offset(p, var) is not None:
                    offs.append("slice")
            continue
        o = _offset(c, var)
        if o is not None:
            offs.append(o)
    return offs


def _base_name(e):
    while isinstance(e, (ast.Subscript, ast.Attribute)):
        e = e.value
    return e.id if isinstance(e, ast.Name) else None


def recurrence_rules(chk, fi):
    c = "%s:%s" % (fi.module.relpath, fi.name)
    rec_names = {fi.params[0]}
    loops = []
    zeros_init = set()
    len_names = set()
    for st in fi.node.body:
        if isinstance(st, ast.Assign) and len(st.targets) == 1 and isinstance(st.targets[0], ast.Name):
            used = {n.id for n in ast.walk(st.value) if isinstance(n, ast.Name)}
            if used & rec_names and isinstance(st.value, ast.Call) and ast.unparse(st.value.func) == "len":
                len_names.add(st.targets[0].id)        # n = len(record), hoisted out of the loop header
            if used & rec_names and not (isinstance(st.value, ast.Call) and ast.unparse(st.value.func).endswith(("zeros", "zeros_like", "len"))):
                rec_names.add(st.targets[0].id)
            if isinstance(st.value, ast.Call) and ast.unparse(st.value.func).split(".")[-1] in ("zeros", "zeros_like"):
                zeros_init.add(st.targets[0].id)
        if isinstance(st, ast.For) and isinstance(st.target, ast.Name) and isinstance(st.iter, ast.Call) and \
                ast.unparse(st.iter.func) == "range":
            used = {n.id for n in ast.walk(st.iter) if isinstance(n, ast.Name)}
            if used & (rec_names | len_names):
                loops.append(st)
    if len(loops) != 1:
        chk.ob("R-CAUSAL", c, "one time loop over the record in the response routine", False,
               derived="%d loops found (a vectorised recurrence is not modelled by this rule)" % len(loops), inconclusive=True,
               loc=fi.loc())
        return
    loop = loops[0]
    var = _aliases(loop)
    vname = loop.target.id
    rng = loop.iter.args
    start0 = len(rng) == 1 or (isinstance(rng[0], ast.Constant) and rng[0].value == 0)
    stores = []
    assigned_in_loop = set()
    for st in ast.walk(loop):
        if isinstance(st, (ast.Assign, ast.AugAssign)):
            ts = st.targets if isinstance(st, ast.Assign) else [st.target]
            for t in ts:
                for n in ast.walk(t):
                    if isinstance(n, ast.Name) and isinstance(n.ctx, ast.Store):
                        assigned_in_loop.add(n.id)
                if isinstance(t, ast.Subscript):
                    stores.append((st, t))
    state = {_base_name(t) for _, t in stores}
    # per-step temporaries (u_i = u[s:, i]) assigned once, directly in the loop body, are substituted into the stored expressions
    fn_counts = {}
    for n in ast.walk(fi.node):
        if isinstance(n, ast.Name) and isinstance(n.ctx, ast.Store):
            fn_counts[n.id] = fn_counts.get(n.id, 0) + 1
    step_env = {}
    for st in loop.body:
        if isinstance(st, ast.Assign) and len(st.targets) == 1 and isinstance(st.targets[0], ast.Name) and fn_counts.get(st.targets[0].id) == 1:
            step_env[st.targets[0].id] = st.value

    class _Sub(ast.NodeTransformer):
        def visit_Name(self, n):
            if isinstance(n.ctx, ast.Load) and n.id in step_env:
                import copy as _copy
                return self.visit(_copy.deepcopy(step_env[n.id]))
            return n
    # names assigned in the loop from loop-invariant expressions are themselves invariant (hoisted temporaries)
    variant = set(var) | state
    changed = True
    defs = {}
    for st in ast.walk(loop):
        if isinstance(st, ast.Assign):
            for t in st.targets:
                for n in ([t] if isinstance(t, ast.Name) else (t.elts if isinstance(t, ast.Tuple) else [])):
                    if isinstance(n, ast.Name):
                        defs.setdefault(n.id, []).append(st.value)
        elif isinstance(st, ast.AugAssign) and isinstance(st.target, ast.Name):
            defs.setdefault(st.target.id, []).append(ast.BinOp(left=ast.Name(id=st.target.id, ctx=ast.Load()), op=st.op, right=st.value))
    while changed:
        changed = False
        for nm, vals in defs.items():
            if nm in variant:
                continue
            for v in vals:
                used_v = {n.id for n in ast.walk(v) if isinstance(n, ast.Name)}
                if nm in used_v or (used_v & variant) or len(vals) > 1:
                    variant.add(nm)
                    changed = True
                    break
    if not stores:
        chk.ob("R-CAUSAL", c, "the loop stores into state arrays", False, derived="no subscript store", loc=fi.loc(loop),
               inconclusive=True)
        return
    for st, t in stores:
        offs = _time_index(t, var)
        key = norm_stmt(st)
        if len(offs) != 1 or not isinstance(offs[0], int):
            chk.ob("R-CAUSAL", c + "{store}", "store column is loop variable + constant", False, derived="offsets %s" % offs,
                   loc=fi.loc(st), stmt=key)
            continue
        ks = offs[0]
        chk.ob("R-TINV", c + "{store-col}", "column 0 (the initial state) is never stored (store offset >= 1 with the loop from 0)",
               ks >= 1 and start0, derived="store at %s%+d, loop starts at 0: %s" % (var, ks, start0), loc=fi.loc(st), stmt=key)
        import copy as _copy
        rhs = _Sub().visit(_copy.deepcopy(st.value))
        bad_state, bad_rec, bad_other, bare = [], [], [], []
        subs_seen = set()
        for n in ast.walk(rhs):
            if isinstance(n, ast.Subscript):
                b = _base_name(n)
                offs_n = _time_index(n, var)
                if not offs_n:
                    continue
                for ch in ast.walk(n.slice):
                    subs_seen.add(id(ch))
                for o in offs_n:
                    if b in state:
                        if not isinstance(o, int) or o >= ks:
                            bad_state.append("%s at %s%s" % (b, vname, ("%+d" % o) if isinstance(o, int) else o))
                    elif b in rec_names:
                        if not isinstance(o, int) or o > ks:
                            bad_rec.append("%s at %s%s" % (b, vname, ("%+d" % o) if isinstance(o, int) else o))
                    else:
                        bad_other.append("%s indexed by %s" % (b, vname))
        for n in ast.walk(rhs):
            if isinstance(n, ast.Name) and n.id in var and id(n) not in subs_seen:
                bare.append(n.id)
        chk.ob("R-CAUSAL", c + "{state-reads}", "state reads strictly before the stored column", not bad_state,
               derived="; ".join(bad_state) or "all state reads at offsets < %+d" % ks, loc=fi.loc(st), stmt=key)
        chk.ob("R-CAUSAL", c + "{record-reads}", "record reads at or before the stored column", not bad_rec,
               derived="; ".join(bad_rec) or "all record reads at offsets <= %+d" % ks, loc=fi.loc(st), stmt=key)
        chk.ob("R-TINV", c + "{coefficients}", "no coefficient is indexed by or uses the loop variable", not bad_other and not bare,
               derived="; ".join(bad_other + (["bare use of %s" % vname] if bare else [])) or "coefficients loop-invariant",
               loc=fi.loc(st), stmt=key)
        used = {n.id for n in ast.walk(rhs) if isinstance(n, ast.Name)} - state - rec_names - set(var)
        rebound = sorted(used & assigned_in_loop & variant - set(step_env))
        # a loop-carried name that is stored whole into a state array (S[k + 1] = c) is the state itself held in a variable, not a
        # coefficient: the recurrence then runs through variables this syntactic rule does not follow
        carried = {s_.value.id for s_, _ in stores if isinstance(s_.value, ast.Name)} & zeros_init
        chk.ob("R-TINV", c + "{rebinding}", "coefficients are not re-bound inside the loop", not rebound,
               derived="re-bound: %s%s" % (rebound, " (the state carried in loop variables: recurrence not followed)" if set(rebound) <= carried else "")
               if rebound else "none of %s assigned in the loop" % sorted(used), loc=fi.loc(st), stmt=key,
               inconclusive=bool(rebound) and set(rebound) <= carried)
    notz = sorted(s for s in state if s not in zeros_init)
    chk.ob("R-TINV", c + "{zero-state}", "state arrays are created by np.zeros (zero initial displacement and velocity)", not notz,
           derived="not zero-initialised: %s" % notz if notz else "zeros: %s" % sorted(state), loc=fi.loc(loop),
           # state held in the parameters of an inlined helper (names carry the inliner's suffix): created by its caller, not read here
           inconclusive=bool(notz) and all("__" in x for x in notz))


def elementwise_rules(chk, r, q):
    c = "%s:%s" % (r.fi.module.relpath, r.fi.name)
    n = 0
    seen = set()
    for e in r.I.events:
        if e.kind in ("lib-call", "subscript", "store-shape", "mutation", "shape-mismatch"):
            k = (e.kind, e.fn, e.stmt, e.get("name"), ast.dump(e.node) if e.node is not None else None)
            if k in seen:
                continue
            seen.add(k)
        if e.kind == "lib-call":
            vals = list(e.args) + list(e.kwargs.values())
            pv = [v for v in vals if "p:periods" in v.tags and v.kind in (K_ARRAY, K_LIST, K_TUPLE)]
            if not pv:
                continue
            n += 1
            name = e.name
            site = "%s{%s}" % (c, e.stmt)
            if name in ELEMENTWISE:
                chk.ob("R-ELEMWISE", site, "element-wise call on period-indexed data", True, derived=name, loc=e.loc, stmt=e.stmt)
            elif name in REDUCTIONS:
                ax = e.kwargs.get("axis") or (e.args[1] if len(e.args) > 1 else None)
                k = ax.const if (ax is not None and ax.has_const()) else None
                arr = pv[0]
                ok = k is not None and arr.shape is not None and len(arr.shape) == 2 and k in (1, -1)
                chk.ob("R-ELEMWISE", site, "reduction over the time axis only (axis=1 of periods x time)", ok,
                       derived="%s axis=%r on shape %r" % (name, k, arr.shape), loc=e.loc, stmt=e.stmt)
            elif name in SHAPE_QUERIES:
                chk.ob("R-ELEMWISE", site, "a shape query does not touch the data", True, derived=name, loc=e.loc, stmt=e.stmt, nontrivial=False)
            elif name in ROW_ASSEMBLY:
                # rows (one per period, or the rigid T=0 row) stacked along the period axis: each period's row is handed on untouched
                ax = e.kwargs.get("axis")
                k = 0 if name.endswith("vstack") else (ax.const if (ax is not None and ax.has_const()) else (0 if ax is None else None))
                chk.ob("R-ELEMWISE", site, "rows are assembled along the period axis (axis 0)", k == 0, derived="%s along axis %r" % (name, k),
                       loc=e.loc, stmt=e.stmt)
            else:
                # known to mix entries of different periods -> refuted; a call this table does not know -> inconclusive
                chk.ob("R-ELEMWISE", site, "element-wise call on period-indexed data", False,
                       derived="%s %s" % (name, "mixes entries along its axis" if name in MIXING else "is not in the element-wise table"),
                       loc=e.loc, stmt=e.stmt, inconclusive=name not in MIXING)
        elif e.kind == "subscript":
            b = e.base
            if "p:periods" not in b.tags or b.kind not in (K_ARRAY,) or b.shape is None or len(b.shape) < 1:
                continue
            # index on axis 0 of a period-indexed array must be basic (slice / int), never a computed order
            first = e.comps[0] if e.comps else None
            if first is None:
                continue
            n += 1
            ok = first.kind in (K_SLICE, K_SCALAR, K_BOOL, K_NONE) and not ("p:periods" in first.tags and first.kind != K_SLICE and
                                                                           "red:argmax" in first.tags)
            if first.kind in (K_ARRAY, K_LIST):
                ok = False
            chk.ob("R-ELEMWISE", "%s{%s}" % (c, e.stmt), "basic indexing on the period axis", ok,
                   derived="index kind %s" % first.kind, loc=e.loc, stmt=e.stmt, nontrivial=False)
        elif e.kind == "store-shape":
            if "p:periods" not in (e.base.tags | e.value.tags):
                continue
            n += 1
            ts, vs = e.target_shape, e.value_shape
            ok = True
            if ts is not None and vs is not None and len(vs) <= len(ts):
                for a, b in zip(reversed(ts), reversed(vs)):
                    if a is not None and b is not None and a != b and b != LinExpr(1):
                        ok = False
            chk.ob("R-ELEMWISE", "%s{%s}" % (c, e.stmt), "both sides of a period-indexed store have the same row slice", ok,
                   derived="target %r <- value %r" % (ts, vs), loc=e.loc, stmt=e.stmt)
        elif e.kind == "shape-mismatch" and "p:periods" in e.tags:
            n += 1
            chk.ob("R-ELEMWISE", "%s{%s}" % (c, e.stmt), "operands of a period-indexed operation have the same row slice", False,
                   derived="dimension %r against %r" % (e.dims[0], e.dims[1]), loc=e.loc, stmt=e.stmt)
        elif e.kind == "mutation" and e.how.startswith("ndarray.sort") and "p:periods" in e.target.tags:
            n += 1
            chk.ob("R-ELEMWISE", "%s{%s}" % (c, e.stmt), "no reordering of period-indexed data", False, derived=e.how, loc=e.loc)
    # reductions through ndarray methods / builtins are routed to the same library rows (covered above)
    if n == 0:
        chk.ob("R-ELEMWISE", c, "period-indexed operations were enumerated", False, derived="none found", inconclusive=True)

import ast
"""C09 -- cumulative intensity measures: length, monotonicity, scaling laws, quadrature kind (typing obligations)."""
from ..tyob import *  # noqa
from ..tyob import analyse, expect, unmodelled_in, const_values, check_forwarder, only_managed_reads

ACC = "eqsig.single.AccSignal"
#            function                               deg(R) deg(DT)  quadrature tags (has / not)            source tags
TABLE = [
    ("eqsig.im.calc_arias_intensity",               2, 1, ["quad:trapezoid"], ["quad:rectangle"], []),
    ("eqsig.im.calc_cav",                           1, 1, ["quad:trapezoid", "abs"], ["quad:rectangle"], []),
    ("eqsig.im.calc_isv",                           2, 3, ["quad:trapezoid"], ["quad:rectangle"], []),
    ("eqsig.im.calc_integral_of_abs_acceleration",  1, 1, ["quad:rectangle", "abs"], ["quad:trapezoid"], []),
    ("eqsig.im.calc_integral_of_abs_velocity",      1, 2, ["quad:rectangle", "abs"], [], []),
    ("eqsig.im.calc_cumulative_abs_displacement",   1, 2, ["quad:rectangle", "abs"], [], []),
    ("eqsig.im.calc_unit_kinetic_energy",           2, 2, ["diff", "abs", "cum"], [], []),
]


def sig_arg(name):
    def build(I, st, fi):
        o, av = make_signal(I, st, I.P.cls(ACC), name=name, flags="cold")
        return {fi.params[0]: av}
    return build


def run(chk):
    chk.rule("R-IM-TYPE", "each cumulative measure has the record's length, is nondecreasing and non-negative, has the "
                          "stated degree in the record (alpha^2 or |alpha|) and in dt, is even in the record, and is "
                          "built with the stated quadrature (trapezoid / rectangle / summed abs differences)")
    chk.rule("R-ARIAS-CONST", "Arias intensity multiplies the trapezoid of a^2 by pi/(2*9.81)")
    chk.rule("R-CAVDP", "standardised CAV: record length, non-negative, nondecreasing (accumulates h*int with h in {0,1}, "
                        "int a trapezoid of |a| over an ascending abscissa), gate 0.025 on |a|/9.81, interpolated onto the record's time")
    for q, dr, dd, has, hasnot, _ in TABLE:
        r = analyse(chk, q, sig_arg(chk.P.fn(q).params[0]))
        c = "%s:%s" % (r.fi.module.relpath, r.fi.name)
        unmodelled_in(r, chk, "R-IM-TYPE", c)
        only_managed_reads(chk, "R-IM-TYPE", r, c)
        expect(chk, "R-IM-TYPE", c, r.ret, length="n", mono=0, sign="nonneg", deg={R: dr, DT: dd}, parity={R: "even"},
               tags_has=has + ["attr:_values", "attr:_dt"], tags_not=hasnot, kind=K_ARRAY, loc=r.fi.loc())
    check_forwarder(chk, "R-IM-TYPE", "eqsig.im.calc_cumulative_abs_displacement", "eqsig.im.calc_integral_of_abs_velocity")
    # starts at zero for the trapezoid-defined ones (initial=0)
    for q in ("eqsig.im.calc_arias_intensity", "eqsig.im.calc_cav", "eqsig.im.calc_isv"):
        r = analyse(chk, q, sig_arg(chk.P.fn(q).params[0]))
        expect(chk, "R-IM-TYPE", "%s:%s" % (r.fi.module.relpath, r.fi.name), r.ret, f0=True, loc=r.fi.loc())
    # the raw array-level Arias function
    r = analyse(chk, "eqsig.im._raw_calc_arias_intensity", lambda I, st, fi: dict(acc=rec_array("acc"), dt=pos_scalar("dt", DT)))
    expect(chk, "R-IM-TYPE", "eqsig/im.py:_raw_calc_arias_intensity", r.ret, length="n", mono=0, sign="nonneg",
           deg={R: 2, DT: 1}, parity={R: "even"}, tags_has=["quad:trapezoid"], f0=True, loc=r.fi.loc())
    cs = const_values(r.fi, chk.P)
    ok = any(abs(c - 9.81) < 1e-9 for c in cs) and (2 in cs or 2.0 in cs)
    import ast as _ast
    uses_pi = any(isinstance(n, _ast.Attribute) and n.attr == "pi" for n in _ast.walk(r.fi.node))
    chk.ob("R-ARIAS-CONST", "eqsig/im.py:_raw_calc_arias_intensity", "constant pi/(2*9.81)", ok and uses_pi,
           derived="literals %s, uses pi: %s" % (sorted(set(cs)), uses_pi), loc=r.fi.loc())
    # standardised CAV
    r = analyse(chk, "eqsig.im.calc_cav_dp", sig_arg("asig"))
    c = "eqsig/im.py:calc_cav_dp"
    unmodelled_in(r, chk, "R-CAVDP", c)
    only_managed_reads(chk, "R-CAVDP", r, c)
    expect(chk, "R-CAVDP", c, r.ret, length="n", mono=0, sign="nonneg", kind=K_ARRAY,
           tags_has=["quad:trapezoid", "abs", "interp:linear", "attr:_values", "attr:_dt"], loc=r.fi.loc())
    cs = const_values(r.fi, chk.P)
    from ..normalise import pinned as _pinned
    seen_, todo_ = set(), [r.fi]
    while todo_:                       # helpers introduced later that the function names (called, mapped, iterated), transitively
        f_ = todo_.pop()
        for n_ in ast.walk(f_.node):
            if isinstance(n_, ast.Name) and isinstance(n_.ctx, ast.Load):
                g_ = f_.module.functions.get(n_.id)
                if g_ is not None and g_.qualname not in _pinned() and g_.qualname not in seen_:
                    seen_.add(g_.qualname)
                    todo_.append(g_)
                    cs = cs + const_values(g_, chk.P)
    partly = any(e.kind == "unmodelled" for e in r.I.events)       # something on the path is not followed: an absent gate proves nothing
    chk.ob("R-CAVDP", c + "[gate]", "gate literal 0.025 (g) and 9.81 in the function", 0.025 in cs and 9.81 in cs,
           derived="literals %s" % sorted(set(cs)), loc=r.fi.loc())
    # the gate must compare a max-abs of the window (even, degree 1) -- from the compare events
    gate = [e for e in r.events("compare", r.fi.qualname) if "red:max" in (e.left.tags | e.right.tags)]
    okg = bool(gate) and all("abs" in (e.left.tags | e.right.tags) for e in gate)
    chk.ob("R-CAVDP", c + "[gate-operand]", "the gate tests the window's peak |a|", okg,
           derived="%d gate comparison(s)" % len(gate), loc=gate[0].loc if gate else r.fi.loc(), inconclusive=(not gate and partly))
    chk.ob("R-CAVDP", c + "[gate-window]", "the gated peak is taken over the whole window, not over a masked/selected subset of it",
           bool(gate) and not any("where-index" in (e.left.tags | e.right.tags) for e in gate),
           derived="gate operand passes through an index/mask selection" if any("where-index" in (e.left.tags | e.right.tags) for e in gate) else "whole window",
           loc=gate[0].loc if gate else r.fi.loc(), inconclusive=(not gate and partly))
    # the gate is "reaches 0.025 g": a window whose peak is exactly at the gate counts.  Every comparison of the gate quantity is read as
    # `peak - gate OP 0`; the branch that contributes nothing is `< 0`, the branch that contributes is `>= 0`
    gate_nodes = list({id(e.node): e for e in gate}.values())
    for e in gate_nodes:
        n = e.node
        if isinstance(n, ast.Compare) and len(n.ops) == 1 and isinstance(n.comparators[0], ast.Constant) and n.comparators[0].value == 0:
            op_ = type(n.ops[0]).__name__
            chk.ob("R-CAVDP", c + "[gate-edge: %s]" % " ".join(ast.unparse(n).split()), "the gate is inclusive: peak - gate < 0 contributes nothing, >= 0 contributes",
                   op_ in ("Lt", "GtE"), derived="peak - gate %s 0" % op_, loc=e.loc, stmt=e.stmt)
    chk.floor("R-IM-TYPE", 70)
    chk.floor("R-CAVDP", 8)

import ast
from ..program import norm_stmt
"""C09 -- cumulative intensity measures: length, monotonicity, scaling laws, quadrature kind (typing obligations)."""
from ..tyob import *  # noqa
from ..tyob import analyse, expect, unmodelled_in, const_values, check_forwarder, only_managed_reads

ACC = "eqsig.single.AccSignal"
#            function                               deg(R) deg(DT)  quadrature tags (has / not)            source tags
TABLE = [
    ("eqsig.im.calc_arias_intensity",               2, 1, ["quad:trapezoid"], ["quad:rectangle"], []),
    ("eqsig.im.calc_cav",                           1, 1, ["quad:trapezoid", "abs"], ["quad:rectangle"], []),
    ("eqsig.im.calc_isv",                           2, 3, ["quad:trapezoid"], ["quad:rectangle"], []),
    ("eqsig.im.calc_integral_of_abs_acceleration",  1, 1, ["quad:rectangle", "abs"], ["quad:trapezoid"], []),
    ("eqsig.im.calc_integral_of_abs_velocity",      1, 2, ["quad:rectangle", "abs"], [], []),
    ("eqsig.im.calc_cumulative_abs_displacement",   1, 2, ["quad:rectangle", "abs"], [], []),
    ("eqsig.im.calc_unit_kinetic_energy",           2, 2, ["diff", "abs", "cum"], [], []),
]


def sig_arg(name):
    def build(I, st, fi):
        o, av = make_signal(I, st, I.P.cls(ACC), name=name, flags="cold")
        return {fi.params[0]: av}
    return build


def run(chk):
    chk.rule("R-IM-TYPE", "each cumulative measure has the record's length, is nondecreasing and non-negative, has the "
                          "stated degree in the record (alpha^2 or |alpha|) and in dt, is even in the record, and is "
                          "built with the stated quadrature (trapezoid / rectangle / summed abs differences)")
    chk.rule("R-ARIAS-CONST", "Arias intensity multiplies the trapezoid of a^2 by pi/(2*9.81)")
    chk.rule("R-CAVDP", "standardised CAV: record length, non-negative, nondecreasing (accumulates h*int with h in {0,1}, "
                        "int a trapezoid of |a| over an ascending abscissa), gate 0.025 on |a|/9.81, interpolated onto the record's time")
    from ..tyob import no_truncation
    for q, _dr, _dd, _has, _hasnot, _x in TABLE:
        if q.endswith(("calc_cav", "calc_arias_intensity", "calc_integral_of_abs_acceleration")):
            # a record with integer-typed samples: no real partial sum may land in a buffer that inherits the integer dtype
            no_truncation(chk, "R-IM-TYPE", q, lambda I, st, fi: {fi.params[0]: make_signal(I, st, chk.P.cls("eqsig.single.AccSignal"), name=fi.params[0],
                                                                                             values=rec_array("values", dtype="int"))[1]},
                          "%s(integer-typed record)" % q.replace("eqsig.im.", "eqsig/im.py:"), what="an integer-typed record")
    for q, dr, dd, has, hasnot, _ in TABLE:
        r = analyse(chk, q, sig_arg(chk.P.fn(q).params[0]))
        c = "%s:%s" % (r.fi.module.relpath, r.fi.name)
        unmodelled_in(r, chk, "R-IM-TYPE", c)
        only_managed_reads(chk, "R-IM-TYPE", r, c)
        expect(chk, "R-IM-TYPE", c, r.ret, length="n", mono=0, sign="nonneg", deg={R: dr, DT: dd}, parity={R: "even"},
               tags_has=has + ["attr:_values", "attr:_dt"], tags_not=hasnot, kind=K_ARRAY, loc=r.fi.loc())
    check_forwarder(chk, "R-IM-TYPE", "eqsig.im.calc_cumulative_abs_displacement", "eqsig.im.calc_integral_of_abs_velocity")
    # starts at zero for the trapezoid-defined ones (initial=0)
    for q in ("eqsig.im.calc_arias_intensity", "eqsig.im.calc_cav", "eqsig.im.calc_isv"):
        r = analyse(chk, q, sig_arg(chk.P.fn(q).params[0]))
        expect(chk, "R-IM-TYPE", "%s:%s" % (r.fi.module.relpath, r.fi.name), r.ret, f0=True, loc=r.fi.loc())
    # the raw array-level Arias function
    r = analyse(chk, "eqsig.im._raw_calc_arias_intensity", lambda I, st, fi: dict(acc=rec_array("acc"), dt=pos_scalar("dt", DT)))
    expect(chk, "R-IM-TYPE", "eqsig/im.py:_raw_calc_arias_intensity", r.ret, length="n", mono=0, sign="nonneg",
           deg={R: 2, DT: 1}, parity={R: "even"}, tags_has=["quad:trapezoid"], f0=True, loc=r.fi.loc())
    cs = const_values(r.fi, chk.P)
    ok = any(abs(c - 9.81) < 1e-9 for c in cs) and (2 in cs or 2.0 in cs)
    import ast as _ast
    uses_pi = any(isinstance(n, _ast.Attribute) and n.attr == "pi" for n in _ast.walk(r.fi.node))
    chk.ob("R-ARIAS-CONST", "eqsig/im.py:_raw_calc_arias_intensity", "constant pi/(2*9.81)", ok and uses_pi,
           derived="literals %s, uses pi: %s" % (sorted(set(cs)), uses_pi), loc=r.fi.loc(),
           # neither pi nor a gravity-like literal in the function: the constant lives elsewhere (a table, a module constant): not located
           inconclusive=(not uses_pi and not any(isinstance(c_, float) and 9 < c_ < 10.5 for c_ in cs)))
    # standardised CAV
    r = analyse(chk, "eqsig.im.calc_cav_dp", sig_arg("asig"))
    c = "eqsig/im.py:calc_cav_dp"
    unmodelled_in(r, chk, "R-CAVDP", c)
    only_managed_reads(chk, "R-CAVDP", r, c)
    expect(chk, "R-CAVDP", c, r.ret, length="n", mono=0, sign="nonneg", kind=K_ARRAY,
           tags_has=["quad:trapezoid", "abs", "interp:linear", "attr:_values", "attr:_dt"], loc=r.fi.loc())
    cs = const_values(r.fi, chk.P)
    from ..normalise import pinned as _pinned
    seen_, todo_ = set(), [r.fi]
    while todo_:                       # helpers introduced later that the function names (called, mapped, iterated), transitively
        f_ = todo_.pop()
        for n_ in ast.walk(f_.node):
            if isinstance(n_, (ast.Name, ast.Attribute)) and isinstance(n_.ctx, ast.Load):
                g_ = f_.module.functions.get(n_.id) if isinstance(n_, ast.Name) else None
                if g_ is None:
                    try:
                        r_ = chk.P.resolve_expr(f_.module, n_)        # a helper imported from another module of the package
                    except Exception:
                        r_ = None
                    g_ = r_[1] if (r_ and r_[0] == "func") else None
                if g_ is not None and g_.qualname not in _pinned() and g_.qualname not in seen_:
                    seen_.add(g_.qualname)
                    todo_.append(g_)
                    cs = cs + const_values(g_, chk.P)
    partly = any(e.kind == "unmodelled" for e in r.I.events)       # something on the path is not followed: an absent gate proves nothing
    # absent literals: refuted only when another candidate gate (a small fraction of g) stands in its place; otherwise the gate is not located
    cand_ = [x for x in set(cs) if isinstance(x, float) and 0 < x < 1 and x not in (0.025, 0.5)]
    chk.ob("R-CAVDP", c + "[gate]", "gate literal 0.025 (g) and 9.81 in the function", 0.025 in cs and 9.81 in cs,
           derived="literals %s" % sorted(set(cs)), loc=r.fi.loc(), inconclusive=(0.025 not in cs and not cand_) or (9.81 not in cs and 0.025 in cs and partly))
    # a window whose peak is EXACTLY 0.025 g reaches the gate: the gate tests are evaluated at that value (constant folding of the located test
    # expressions with the peak set to the literal) and the weight chosen there must be 1
    def _at_gate(test):
        names = {n_.id for n_ in ast.walk(test) if isinstance(n_, ast.Name)}
        if len(names) != 1 or not any(isinstance(n_, ast.Constant) and n_.value == 0.025 for n_ in ast.walk(test)) or \
                any(isinstance(n_, (ast.Call, ast.Attribute, ast.Subscript)) for n_ in ast.walk(test)):
            return None
        try:
            return bool(eval(compile(ast.Expression(body=test), "<gate>", "eval"), {"__builtins__": {}}, {next(iter(names)): 0.025}))
        except Exception:
            return None

    def _const01(stmts):
        for st_ in stmts:
            if isinstance(st_, ast.Assign) and len(st_.targets) == 1 and isinstance(st_.targets[0], ast.Name) and isinstance(st_.value, ast.Constant) and \
                    st_.value.value in (0, 1) and not isinstance(st_.value.value, bool):
                return st_.value.value
        return None
    gate_h = []
    for n_ in ast.walk(r.fi.node):
        if isinstance(n_, ast.IfExp):
            b_ = _at_gate(n_.test)
            if b_ is not None:
                v_ = n_.body if b_ else n_.orelse
                if isinstance(v_, ast.Constant) and v_.value in (0, 1):
                    gate_h.append((v_.value, n_))
        elif isinstance(n_, ast.If):
            b_ = _at_gate(n_.test)
            if b_ is None:
                continue
            node_, val_ = n_, None
            while True:
                b_ = _at_gate(node_.test)
                if b_ is None:
                    break
                if b_:
                    val_ = _const01(node_.body)
                    break
                if len(node_.orelse) == 1 and isinstance(node_.orelse[0], ast.If):
                    node_ = node_.orelse[0]
                    continue
                val_ = _const01(node_.orelse)
                break
            if val_ is not None:
                gate_h.append((val_, n_))
    for val_, n_ in gate_h[:1]:
        chk.ob("R-CAVDP", c + "[gate at 0.025 g]", "a window whose peak is exactly 0.025 g qualifies (weight 1)", val_ == 1,
               derived="weight %d at a peak of exactly 0.025 g" % val_, loc=r.fi.loc(n_), stmt=norm_stmt(n_.test))
    # the one-second series records the running total *after* the current window has been added (located design: a loop whose body updates an
    # accumulator X = X + ... / X += ... and appends X / stores X at the loop index; not located: nothing is claimed here)
    for lp_ in [n_ for n_ in ast.walk(r.fi.node) if isinstance(n_, ast.For)]:
        upd_, rec_ = {}, {}
        for k_, st_ in enumerate(lp_.body):
            if isinstance(st_, ast.AugAssign) and isinstance(st_.op, ast.Add) and isinstance(st_.target, ast.Name):
                upd_.setdefault(st_.target.id, k_)
            elif isinstance(st_, ast.Assign) and len(st_.targets) == 1 and isinstance(st_.targets[0], ast.Name) and isinstance(st_.value, ast.BinOp) and \
                    isinstance(st_.value.op, ast.Add) and any(isinstance(x_, ast.Name) and x_.id == st_.targets[0].id for x_ in (st_.value.left, st_.value.right)):
                upd_.setdefault(st_.targets[0].id, k_)
            elif isinstance(st_, ast.Expr) and isinstance(st_.value, ast.Call) and isinstance(st_.value.func, ast.Attribute) and \
                    st_.value.func.attr == "append" and len(st_.value.args) == 1 and isinstance(st_.value.args[0], ast.Name):
                rec_.setdefault(st_.value.args[0].id, (k_, st_))
            elif isinstance(st_, ast.Assign) and len(st_.targets) == 1 and isinstance(st_.targets[0], ast.Subscript) and isinstance(st_.value, ast.Name):
                rec_.setdefault(st_.value.id, (k_, st_))
        for x_ in sorted(set(upd_) & set(rec_)):
            chk.ob("R-CAVDP", c + "{recorded after update}", "the running total is recorded after the current window's contribution is added",
                   rec_[x_][0] > upd_[x_], derived="`%s` recorded at statement %d of the loop body, updated at statement %d" % (x_, rec_[x_][0], upd_[x_]),
                   loc=r.fi.loc(rec_[x_][1]), stmt=norm_stmt(rec_[x_][1]))
    # the gate must compare a max-abs of the window (even, degree 1) -- from the compare events
    gate = [e for e in r.events("compare", r.fi.qualname) if "red:max" in (e.left.tags | e.right.tags)]
    okg = bool(gate) and all("abs" in (e.left.tags | e.right.tags) for e in gate)
    chk.ob("R-CAVDP", c + "[gate-operand]", "the gate tests the window's peak |a|", okg,
           derived="%d gate comparison(s)" % len(gate), loc=gate[0].loc if gate else r.fi.loc(), inconclusive=(not gate and partly))
    chk.ob("R-CAVDP", c + "[gate-window]", "the gated peak is taken over the whole window, not over a masked/selected subset of it",
           bool(gate) and not any("where-index" in (e.left.tags | e.right.tags) for e in gate),
           derived="gate operand passes through an index/mask selection" if any("where-index" in (e.left.tags | e.right.tags) for e in gate) else "whole window",
           loc=gate[0].loc if gate else r.fi.loc(), inconclusive=(not gate and partly))
    # the gate is "reaches 0.025 g": a window whose peak is exactly at the gate counts.  Every comparison of the gate quantity is read as
    # `peak - gate OP 0`; the branch that contributes nothing is `< 0`, the branch that contributes is `>= 0`
    gate_nodes = list({id(e.node): e for e in gate}.values())
    for e in gate_nodes:
        n = e.node
        if isinstance(n, ast.Compare) and len(n.ops) == 1 and isinstance(n.comparators[0], ast.Constant) and n.comparators[0].value == 0:
            op_ = type(n.ops[0]).__name__
            chk.ob("R-CAVDP", c + "[gate-edge: %s]" % " ".join(ast.unparse(n).split()), "the gate is inclusive: peak - gate < 0 contributes nothing, >= 0 contributes",
                   op_ in ("Lt", "GtE"), derived="peak - gate %s 0" % op_, loc=e.loc, stmt=e.stmt)
    cavdp_windows(chk, r.fi, c)
    chk.floor("R-IM-TYPE", 70)
    chk.floor("R-CAVDP", 8)


def cavdp_windows(chk, fi, c):
    """The one-second windows of the standardised CAV, read off the syntax where the pinned bookkeeping is recognisable (a running `start`
    sample index advanced by the samples per second): the first window starts at sample 0, the number of windows is int(time[-1]) (the
    LAST time), and a window takes its samples start .. start + samples-per-second inclusive.  Nothing is said where another
    bookkeeping is used."""
    from ..poly import Normaliser, Poly, straightline_env
    outer = [n for n in fi.node.body if isinstance(n, ast.For)]
    for lp in outer[:1]:
        ends = [st for st in lp.body if isinstance(st, ast.Assign) and len(st.targets) == 1 and isinstance(st.targets[0], ast.Name) and
                isinstance(st.value, ast.BinOp) and isinstance(st.value.op, ast.Add) and isinstance(st.value.left, ast.Name)]
        if not ends:
            continue
        start_name, end_name = ends[0].value.left.id, ends[0].targets[0].id
        inits = [st for st in fi.node.body if isinstance(st, ast.Assign) and len(st.targets) == 1 and isinstance(st.targets[0], ast.Name) and
                 st.targets[0].id == start_name and st.lineno < lp.lineno]
        if len(inits) == 1:
            chk.ob("R-CAVDP", c + "{first window}", "the first window starts at sample 0", isinstance(inits[0].value, ast.Constant) and
                   inits[0].value.value == 0 and not isinstance(inits[0].value.value, bool), derived=" ".join(ast.unparse(inits[0]).split()),
                   loc=fi.loc(inits[0]), stmt=" ".join(ast.unparse(inits[0]).split()))
        env = straightline_env(lp.body, Normaliser(), exclude={start_name})
        span = None
        where = None
        for n in ast.walk(lp):
            if isinstance(n, ast.For) and n is not lp and isinstance(n.iter, ast.Call) and ast.unparse(n.iter.func) == "range" and len(n.iter.args) == 2:
                span, where = env.poly(n.iter.args[1]) - env.poly(n.iter.args[0]), n
            elif isinstance(n, ast.Subscript) and isinstance(n.slice, ast.Slice) and n.slice.lower is not None and n.slice.upper is not None and \
                    isinstance(n.slice.lower, ast.Name) and n.slice.lower.id == start_name and span is None:
                span, where = env.poly(n.slice.upper) - env.poly(n.slice.lower), n
        if span is not None:
            pps = env.poly(ends[0].value.right)
            chk.ob("R-CAVDP", c + "{window samples}", "a window takes samples start .. start + samples-per-second, both ends included", span == pps + Poly.const(1),
                   derived="%s samples" % span.canon(), loc=fi.loc(where), stmt=" ".join(ast.unparse(where.iter if isinstance(where, ast.For) else where).split()))
    for n in ast.walk(fi.node):
        if isinstance(n, ast.Assign) and isinstance(n.value, ast.Call) and ast.unparse(n.value.func) == "int" and n.value.args and \
                isinstance(n.value.args[0], ast.Subscript) and ast.unparse(n.value.args[0].value).endswith(".time") and \
                isinstance(n.value.args[0].slice, (ast.Constant, ast.UnaryOp)):
            k = ast.unparse(n.value.args[0].slice)
            chk.ob("R-CAVDP", c + "{number of windows}", "the number of one-second windows is int(time[-1]), the record's last time", k == "-1",
                   derived="int(time[%s])" % k, loc=fi.loc(n), stmt=" ".join(ast.unparse(n).split()))

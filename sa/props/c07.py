"""C07 -- Konno-Ohmachi smoothing is a normalised non-negative log-frequency window (structural clauses)."""
import ast
from fractions import Fraction

from ..tyob import *  # noqa
from ..tyob import sibling_defaults, analyse, expect, item, unmodelled_in, check_forwarder, read_property
from ..poly import Normaliser, Poly, straightline_env
from ..program import norm_stmt

SIG = "eqsig.single.Signal"
ACC = "eqsig.single.AccSignal"
DIRECT = "eqsig.fns.frequency.calc_smooth_fa_spectrum"
MATRIX = "eqsig.fns.frequency.calc_smoothing_matrix_konno_1998"


def freq_args(with_spectrum=True, target=True):
    def build(I, st, fi):
        d = dict(fa_frequencies=AV(kind=K_ARRAY, dtype="real", shape=(LinExpr("Fq"),), sign=S_NONNEG, mono=frozenset([0]),
                                   origin=frozenset(["p:fa_frequencies"]), tags=frozenset(["p:fa_frequencies"])),
                 band=AV(kind=K_SCALAR, dtype="real", shape=(), sign=S_POS, origin=frozenset(["lit"]), tags=frozenset(["p:band"]),
                         note="pyscalar"))
        if with_spectrum:
            d["fa_spectrum"] = AV(kind=K_ARRAY, dtype="complex", shape=(LinExpr("Fq"),), alg={R: LIN}, origin=frozenset(["p:fa_spectrum"]),
                                  tags=frozenset(["p:fa_spectrum"]))
        if target:
            d["smooth_fa_frequencies"] = AV(kind=K_ARRAY, dtype="real", shape=(LinExpr("F"),), sign=S_POS,
                                            origin=frozenset(["p:smooth_fa_frequencies"]), tags=frozenset(["p:smooth_fa_frequencies"]))
        return d
    return build


class _Folded(object):
    """A function whose chains of augmented assignments to a local (directly after its assignment, in the same block) are folded into
    one expression.  Only the algebraic normal forms of this module read it."""
    def __init__(self, fi):
        import copy
        self._fi = fi
        self.node = copy.deepcopy(fi.node)

        def fold(block):
            out = []
            for st in block:
                for fld in ("body", "orelse", "finalbody"):
                    sub = getattr(st, fld, None)
                    if isinstance(sub, list) and sub and isinstance(sub[0], ast.stmt) and not isinstance(st, (ast.FunctionDef, ast.ClassDef)):
                        setattr(st, fld, fold(sub))
                prev = out[-1] if out else None
                if isinstance(st, ast.AugAssign) and isinstance(st.target, ast.Name) and isinstance(prev, ast.Assign) and len(prev.targets) == 1 and \
                        isinstance(prev.targets[0], ast.Name) and prev.targets[0].id == st.target.id and \
                        not any(isinstance(x, ast.Name) and x.id == st.target.id for x in ast.walk(st.value)):
                    prev.value = ast.BinOp(left=prev.value, op=st.op, right=st.value)
                    ast.fix_missing_locations(prev)
                    continue
                out.append(st)
            return out
        self.node.body = fold(self.node.body)

    def __getattr__(self, k):
        return getattr(self._fi, k)


def window_summary(chk, fi, c):
    """(argument form, window form, 0/0 replacement, normalisation axis) extracted from one implementation"""
    arg = win = None
    arg_name = None
    fi = _Folded(fi)          # x = E; x /= A; x **= 4  read as  x = ((E) / A) ** 4  (algebraic form only: the interpreter sees the real statements)
    # the weights variable is the third argument of the np.where replacement
    wvar = None
    for n in ast.walk(fi.node):
        if isinstance(n, ast.Call) and ast.unparse(n.func) in ("np.where", "numpy.where") and len(n.args) == 3 and \
                isinstance(n.args[2], ast.Name):
            wvar = n.args[2].id
    penv = straightline_env(fi.node.body, Normaliser(), exclude=set(fi.params))     # locals that merely rename a parameter are inlined
    for n in ast.walk(fi.node):
        if isinstance(n, ast.Assign) and len(n.targets) == 1 and isinstance(n.targets[0], ast.Name):
            p0 = Normaliser().poly(n.value)
            if p0.is_monomial() and any(a.startswith(("np.log10(", "numpy.log10(")) for a in p0.atoms()) and arg is None:
                sub = Normaliser()
                sub.env = {k: v for k, v in penv.env.items() if k != n.targets[0].id}       # temporaries inside the logarithm are inlined
                arg, arg_name, arg_node = sub.poly(n.value), n.targets[0].id, n
    norm = straightline_env(fi.node.body, Normaliser(), exclude={arg_name} | set(fi.params))
    for n in ast.walk(fi.node):
        if isinstance(n, ast.Assign) and len(n.targets) == 1 and isinstance(n.targets[0], ast.Name):
            p = norm.poly(n.value)
            if p.is_monomial() and any(a.startswith(("np.sin(", "numpy.sin(")) for a in p.atoms()) and win is None and \
                    (wvar is None or n.targets[0].id == wvar):
                win, win_node = p, n
    out = {}
    # ---- argument: band * log10(f / fc)  (either orientation: the window is even in its argument)
    ok_arg = False
    if arg is not None:
        (m, co), = arg.t.items()
        d = dict(m)
        logs = [a for a in d if "log10(" in a]
        if len(logs) == 1 and d[logs[0]] == 1 and d.get("band") == 1 and len(d) == 2 and co == 1:
            inner = logs[0][logs[0].index("(") + 1:-1]
            ok_arg = inner in ("1*fa_frequencies*smooth_fa_frequencies^-1", "1*fa_frequencies^-1*smooth_fa_frequencies")
            # a ratio of two OTHER names (a helper's own parameter names for the two frequency arrays): the form is right, which array is which is
            # the typing obligations' business (R-KO-NORM axes, shapes) -- not located here
            import re as _re
            ratio_of_two = bool(_re.fullmatch(r"1\*[A-Za-z_]\w*(\^-1)?\*[A-Za-z_]\w*(\^-1)?", inner)) and inner.count("^-1") == 1
            unknown_names = ratio_of_two and not ("fa_frequencies" in inner and "smooth_fa_frequencies" in inner)
            out["arg"] = "f/fc (either orientation)" if (ok_arg or unknown_names) else inner
    chk.ob("R-KO-ARG", c + "{argument}", "window argument = band * log10(f / fc), f the Fourier and fc the target frequency",
           ok_arg, derived=arg.canon() if arg is not None else "no log10 expression found", loc=fi.loc(arg_node) if arg is not None else fi.loc(),
           inconclusive=arg is None or bool(locals().get("unknown_names")))
    # ---- window: (sin(x)/x) ** 4 in total
    ok_win = False
    if win is not None and arg_name is not None:
        (m, co), = win.t.items()
        d = dict(m)
        sins = [a for a in d if "sin(" in a]
        if len(sins) == 1:
            e = d[sins[0]]
            inner = sins[0][sins[0].index("(") + 1:-1]
            ok_win = co == 1 and e == 4 and d.get(arg_name) == -4 and len(d) == 2 and inner == arg_name
            out["win"] = (str(e), str(d.get(arg_name)))
    chk.ob("R-KO-NONNEG", c + "{window}", "weights = (sin(x)/x) ** 4: an even integer power (the statement's 4) of a real quantity",
           ok_win, derived=win.canon() if win is not None else "no sin expression found", loc=fi.loc(win_node) if win is not None else fi.loc(),
           inconclusive=win is None)
    return out


def run(chk):
    P = chk.P
    chk.rule("R-KO-NONNEG", "the weight array is non-negative before normalisation: total exponent of sin(x)/x is 4; the 0/0 entry is "
                            "replaced by the literal 1 exactly where the argument == 0")
    chk.rule("R-KO-NORM", "weights are divided by their sum over axis A and the weighted sum reduces over the same axis A (the Fourier "
                          "frequency axis): one value per target frequency; output is degree 1, even in the spectrum, non-negative")
    chk.rule("R-KO-ARG", "argument band*log10(f/fc); amplitude = abs of the complex spectrum")
    chk.rule("R-KO-ZERO", "the zero-frequency bin is dropped from frequencies and spectrum together; the custom-matrix variant drops "
                          "bin 0 of the spectrum")
    chk.rule("R-KO-SIB", "matrix form and direct form carry the same window summary; deprecated/forwarding entry points bind by role")
    chk.rule("R-BW", "bandwidth limits: first and last index of one strict mask `smooth > max*ratio` over the same frequency array")
    summaries = {}
    for q, withspec in ((DIRECT, True), (MATRIX, False)):
        fi = P.fn(q)
        c = "%s:%s" % (fi.module.relpath, fi.name)
        summaries[q] = window_summary(chk, fi, c)
        # the zero-frequency bin is recognised by `frequencies[0] == 0`, nothing else (log10(0) must never be formed)
        fpar = fi.params[0]
        from ..tyob import leading_zero_tests
        leading_zero_tests(chk, "R-KO-ZERO", fi, fpar, c, what="the zero-frequency bin", minimum=0)
        zt = [n for n in ast.walk(fi.node) if isinstance(n, ast.If) and isinstance(n.test, ast.Compare) and len(n.test.ops) == 1 and
              any(isinstance(x, ast.Subscript) and isinstance(x.value, ast.Name) and x.value.id == fpar and isinstance(x.slice, ast.Constant) and
                  x.slice.value == 0 for x in [n.test.left] + n.test.comparators)]
        for n in zt[:1]:
            other = n.test.comparators[0] if isinstance(n.test.left, ast.Subscript) else n.test.left
            okz = isinstance(n.test.ops[0], ast.Eq) and isinstance(other, ast.Constant) and other.value == 0 and not isinstance(other.value, bool)
            drops = any(isinstance(x, ast.Subscript) and isinstance(x.slice, ast.Slice) and isinstance(x.slice.lower, ast.Constant) and x.slice.lower.value == 1
                        for st_ in n.body for x in ast.walk(st_))
            chk.ob("R-KO-ZERO", c + "{zero-bin test}", "the bin is dropped exactly when frequencies[0] == 0", okz and drops,
                   derived="%s; drops [1:] on that branch: %s" % (" ".join(ast.unparse(n.test).split()), drops), loc=fi.loc(n), stmt=norm_stmt(n.test))
        for zero_bin in (True, False):
            def setup(I, zero_bin=zero_bin):
                I.branch_oracle = lambda fr, node: (zero_bin if (fr.fi.qualname == q and isinstance(node.test, ast.Compare) and
                                                                 "[0] == 0" in ast.unparse(node.test)) else None)
            r = analyse(chk, q, freq_args(withspec), setup=setup)
            cc = c + "(f[0]==0: %s)" % zero_bin
            # the direct form may take its weights from the matrix builder (delegation between the two siblings): the window is then built there
            _deleg = [e.callee for e in r.events("call") if e.callee.endswith(".calc_smoothing_matrix_konno_1998") and e.callee != q]
            # ... or from a helper of the same module shared by the two siblings
            _helpers = []
            for e_ in r.events("call"):
                if e_.callee.startswith("eqsig.fns.frequency.") and e_.callee != q and e_.callee not in _deleg and e_.callee not in _helpers and \
                        (e_.fn == q or e_.fn in _deleg or e_.fn in _helpers):
                    _helpers.append(e_.callee)

            def ev(kind_, r=r, _deleg=_deleg, _helpers=_helpers):
                out_ = list(r.events(kind_, q))
                for d_ in _deleg[:1] + _helpers:
                    out_ += [e for e in r.events(kind_, d_) if not any(e is x for x in out_)]
                return out_
            unmodelled_in(r, chk, "R-KO-NORM", cc)
            # 0/0 replacement
            wh = [e for e in ev("lib-call") if e.name == "numpy.where" and len(e.args) == 3]
            okw = len(wh) == 1 and wh[0].args[1].has_const() and wh[0].args[1].const == 1 and (wh[0].args[0].note or "") == "cmp:Eq"
            cmps = [e for e in ev("compare") if e.op == "Eq" and e.right.has_const() and e.right.const == 0 and
                    "p:band" in e.left.tags]
            # the same replacement written as a store through the mask: weights[argument == 0] = 1
            masked = [e for e in ev("mutation") if e.how == "subscript-store" and e.index is not None and e.index.kind == K_ARRAY and
                      e.index.dtype == "bool" and (e.index.note or "") == "cmp:Eq" and e.value is not None and e.value.has_const() and
                      e.value.const == 1 and not isinstance(e.value.const, bool)]
            if not masked:
                # ... or through the positions of that mask: weights[np.nonzero(argument == 0)] = 1
                masked = [e for e in ev("mutation") if e.how == "subscript-store" and e.index is not None and "where-index" in e.index.tags and
                          "p:band" in e.index.tags and e.value is not None and e.value.has_const() and e.value.const == 1 and
                          not isinstance(e.value.const, bool) and len(cmps) == 1]
            if not wh and len(masked) == 1:
                okw = True
            # located wrong instances when no replacement by 1 is found: (a) a store of another constant through the `== 0` mask / its positions;
            # (b) np.nan_to_num of the weights (0/0 becomes 0, not the window's limit 1) unless nan=1; (c) sin(x)/x formed by a division by the
            # argument with NO zero handling of any kind in the function (no `== 0` test, no isnan / isclose / sinc / errstate / divide(where=))
            wrong_ = None
            if not wh and not masked:
                bad_store = [e for e in ev("mutation") if e.how == "subscript-store" and e.index is not None and
                             ((e.index.kind == K_ARRAY and e.index.dtype == "bool" and (e.index.note or "") == "cmp:Eq") or
                              ("where-index" in e.index.tags and "p:band" in e.index.tags)) and e.value is not None and e.value.has_const() and
                             not (e.value.const == 1 and not isinstance(e.value.const, bool))]
                n2n = [e for e in ev("lib-call") if e.name == "numpy.nan_to_num" and
                       not (e.kwargs.get("nan") is not None and e.kwargs["nan"].has_const() and e.kwargs["nan"].const == 1)]
                other_handling = [e for e in ev("lib-call") if e.name.split(".")[-1] in ("isnan", "isfinite", "isclose", "sinc", "errstate", "divide",
                                                                                         "true_divide", "nan_to_num", "nonzero", "flatnonzero",
                                                                                         "argwhere", "equal", "not_equal", "putmask", "place",
                                                                                         "copyto", "select", "piecewise", "choose")]
                anycmp = [e for e in ev("compare") if "p:band" in e.left.tags or "p:band" in e.right.tags]
                divs = []
                for qn_ in [q] + _deleg[:1] + _helpers:
                    fn_ = chk.P.fn(qn_)
                    for n_ in ast.walk(fn_.node):
                        if isinstance(n_, ast.BinOp) and isinstance(n_.op, ast.Div) and isinstance(n_.left, ast.Call) and \
                                ast.unparse(n_.left.func).split(".")[-1] == "sin" and len(n_.left.args) == 1 and \
                                ast.dump(n_.left.args[0]) == ast.dump(n_.right):
                            divs.append(type("D", (), {"loc": fn_.loc(n_)})())
                if bad_store:
                    wrong_ = (bad_store[0], "the `== 0` positions are set to %r, not to the window's limit 1" % (bad_store[0].value.const,))
                elif n2n:
                    wrong_ = (n2n[0], "np.nan_to_num turns the 0/0 at f == fc into 0, not into the window's limit 1")
                elif divs and not other_handling and not anycmp:
                    wrong_ = (divs[0], "sin(x)/x is formed by dividing by the argument and nothing in the function handles x == 0 (no test on the "
                                       "argument, no isnan / isclose / sinc / errstate / masked divide)")
            chk.ob("R-KO-NONNEG", cc + "{0/0}", "np.where(argument == 0, 1, weights)", okw and len(cmps) == 1,
                   derived=(wrong_[1] if wrong_ else "%d where, %d store(s) of 1 through an `== 0` mask, %d `== 0` tests on the argument" % (
                       len(wh), len(masked), len(cmps))),
                   loc=wh[0].loc if wh else (masked[0].loc if masked else (wrong_[0].loc if wrong_ else r.fi.loc())),
                   inconclusive=(not wh and not masked and wrong_ is None))
            if wh:
                expect(chk, "R-KO-NONNEG", cc + "{weights}", wh[0].args[2], sign="nonneg", const_in=[R], loc=wh[0].loc)
            elif len(masked) == 1:
                expect(chk, "R-KO-NONNEG", cc + "{weights}", masked[0].target, sign="nonneg", const_in=[R], loc=masked[0].loc)
            sums = [e for e in ev("lib-call") if e.name == "numpy.sum"]
            axes = [(e.kwargs.get("axis") or (e.args[1] if len(e.args) > 1 else const_av(None))) for e in sums]
            axv = [a.const if a.has_const() else "?" for a in axes]
            want_n = 2 if withspec else 1
            chk.ob("R-KO-NORM", cc + "{axes}", "normalisation and weighted sum reduce over the same axis 0 (Fourier frequencies)",
                   len(sums) == want_n and all(a == 0 for a in axv), derived="sum axes %s" % axv, loc=sums[0].loc if sums else r.fi.loc())
            if sums:
                expect(chk, "R-KO-NORM", cc + "{normaliser}", sums[0].args[0], sign="nonneg", tags_has=["p:band"], loc=sums[0].loc)
            divs = [e for e in ev("mutation") if e.how == "augassign"]
            if withspec:
                expect(chk, "R-KO-NORM", cc + ".result", r.ret, shape=("F",), deg={R: 1}, parity={R: "even"}, sign="nonneg",
                       tags_has=["abs", "p:fa_spectrum", "p:band"], loc=r.fi.loc())
            else:
                expect(chk, "R-KO-NORM", cc + ".matrix", r.ret, sign="nonneg", const_in=[R], tags_has=["p:band"], loc=r.fi.loc())
                sh = r.ret.shape
                chk.ob("R-KO-NORM", cc + ".matrix[shape]", "matrix has one column per target frequency", sh is not None and len(sh) == 2
                       and sh[1] == LinExpr("F"), derived="shape %r" % (sh,), loc=r.fi.loc(), inconclusive=sh is None)
            mm = [e for e in r.I.events if e.kind == "shape-mismatch"]
            chk.ob("R-KO-ZERO", cc + "{paired}", "frequencies and spectrum keep equal lengths (bin 0 dropped from both or neither)",
                   not mm, derived="; ".join("%s: %r vs %r" % (e.loc, e.dims[0], e.dims[1]) for e in mm) or "all operand shapes agree",
                   loc=mm[0].loc if mm else r.fi.loc())
            if zero_bin:
                first = [e for e in ev("subscript") if e.base.origin and "p:fa_frequencies" in e.base.origin and e.index.kind == K_SLICE]
                chk.ob("R-KO-ZERO", cc + "{drop}", "frequencies are sliced [1:] on the zero-bin branch", any(
                    e.index.items[0] is not None and e.index.items[0].has_const() and e.index.items[0].const == 1 for e in first),
                    derived="%d slices of the frequency argument" % len(first), loc=r.fi.loc())
    a, b = summaries[DIRECT], summaries[MATRIX]
    chk.ob("R-KO-SIB", "calc_smooth_fa_spectrum~calc_smoothing_matrix_konno_1998", "matrix form and direct form have equal window summaries",
           a == b and bool(a), derived="%s vs %s" % (a, b), inconclusive=(not a or not b))      # a summary that could not be extracted is not a difference
    check_forwarder(chk, "R-KO-SIB", "eqsig.fns.frequency.generate_smooth_fa_spectrum", DIRECT)
    check_forwarder(chk, "R-KO-SIB", SIG + ".generate_smooth_fa_spectrum", SIG + ".gen_smooth_fa_spectrum")
    # object level: roles of the arguments
    r = analyse(chk, SIG + ".gen_smooth_fa_spectrum", None, self_cls=SIG)
    calls = [e for e in r.events("call") if e.callee == DIRECT]
    c = "eqsig/single.py:Signal.gen_smooth_fa_spectrum"
    if len(calls) == 1:
        bd = calls[0].bound
        expect(chk, "R-KO-SIB", c + ".arg[fa_frequencies]", bd["fa_frequencies"], const_in=[R], deg={DT: -1}, tags_has=["arange0"], loc=calls[0].loc)
        expect(chk, "R-KO-SIB", c + ".arg[fa_spectrum]", bd["fa_spectrum"], lin=[R], dtype="complex", tags_has=["fft:fft"], loc=calls[0].loc)
        expect(chk, "R-KO-SIB", c + ".arg[smooth_fa_frequencies]", bd["smooth_fa_frequencies"], tags_has=["attr:_smooth_fa_freqs"],
               tags_not=["fft:fft", "arange0"], loc=calls[0].loc)
        expect(chk, "R-KO-SIB", c + ".arg[band]", bd["band"], tags_not=["attr:_smooth_fa_freqs", "fft:fft"], kind=K_SCALAR, loc=calls[0].loc)
    else:
        chk.ob("R-KO-SIB", c, "one call of the smoothing function", False, derived="%d" % len(calls), loc=r.fi.loc())
    # targets handed to the producer: they are the ones smoothed at AND the ones the object reports afterwards (the stored spectrum and
    # `smooth_fa_frequencies` describe the same targets: the bandwidth measures index one with positions found in the other)
    r2 = analyse(chk, SIG + ".gen_smooth_fa_spectrum", lambda I, st, fi: dict(smooth_fa_freqs=AV(
        kind=K_ARRAY, dtype="real", shape=(LinExpr("G"),), sign=S_POS, origin=frozenset(["p:smooth_fa_freqs"]), tags=frozenset(["p:smooth_fa_freqs"]))),
        self_cls=SIG)
    calls2 = [e for e in r2.events("call") if e.callee == DIRECT]
    if len(calls2) == 1 and "smooth_fa_freqs" in r2.fi.params:
        used = calls2[0].bound["smooth_fa_frequencies"]
        chk.ob("R-KO-SIB", c + "(smooth_fa_freqs=given).arg[smooth_fa_frequencies]", "the targets handed in are the ones smoothed at",
               "p:smooth_fa_freqs" in used.tags, derived="tags %s" % sorted(t for t in used.tags if t.startswith(("p:", "attr:"))), loc=calls2[0].loc)
        fin = r2.final_attr("_smooth_fa_freqs") if hasattr(r2, "final_attr") else None
        if fin is not None:
            chk.ob("R-KO-SIB", c + "(smooth_fa_freqs=given){kept}", "the targets handed in are kept as the object's smoothing frequencies (what "
                   "`smooth_fa_frequencies` reports is what the stored spectrum was smoothed at)", "p:smooth_fa_freqs" in fin.tags,
                   derived="_smooth_fa_freqs after the call derives from: %s" % sorted(t for t in fin.tags if t.startswith(("p:", "attr:", "default"))),
                   loc=r2.fi.loc(), inconclusive=("p:smooth_fa_freqs" not in fin.tags and "p:smooth_fa_freqs" not in used.tags))
    v, I, m = read_property(chk, SIG, "smooth_fa_spectrum")
    expect(chk, "R-KO-NORM", "eqsig/single.py:Signal.smooth_fa_spectrum", v, shape=("F",), deg={R: 1}, parity={R: "even"},
           sign="nonneg", loc=m.loc())
    # custom matrix variant
    def bm(I, st, fi):
        return dict(asig=make_signal(I, st, P.cls(SIG), name="asig")[1],
                    smooth_matrix=AV(kind=K_ARRAY, dtype="real", shape=(LinExpr("Fq") - 1, LinExpr("F")), sign=S_NONNEG,
                                     origin=frozenset(["p:smooth_matrix"]), tags=frozenset(["p:smooth_matrix"])))
    r = analyse(chk, "eqsig.fns.frequency.calc_smooth_fa_spectrum_w_custom_matrix", bm)
    c = "eqsig/fns/frequency.py:calc_smooth_fa_spectrum_w_custom_matrix"
    dots = [e for e in r.events("lib-call") if e.name in ("numpy.dot", "numpy.matmul")]
    if len(dots) == 1:
        amp = dots[0].args[0]
        full = LinExpr("int[div[pow[2,ceil[log2[n]]],2]]")
        sl = [e for e in r.events("subscript", r.fi.qualname) if "fft:fft" in e.base.tags and e.index.kind == K_SLICE]
        oksl = len(sl) == 1 and sl[0].index.items[0] is not None and sl[0].index.items[0].has_const() and \
            sl[0].index.items[0].const == 1 and sl[0].index.items[1] is None
        chk.ob("R-KO-ZERO", c + "{slice}", "the spectrum is sliced [1:] (the zero-frequency bin is the one dropped)", oksl,
               derived="%d slice(s) of the spectrum" % len(sl), loc=dots[0].loc, inconclusive=not sl)
        chk.ob("R-KO-ZERO", c + "{bin 0}", "the spectrum operand drops bin 0 (length points - 1)", amp.length() == full - 1,
               derived="length %r (spectrum has %r bins)" % (amp.length(), full), loc=dots[0].loc, inconclusive=amp.length() is None)
        expect(chk, "R-KO-ARG", c + "{amplitude}", amp, deg={R: 1}, parity={R: "even"}, sign="nonneg", tags_has=["abs", "fft:fft"], loc=dots[0].loc)
    else:
        chk.ob("R-KO-ZERO", c, "one matrix product", False, derived="%d" % len(dots), loc=r.fi.loc(), inconclusive=not dots)
    bandwidth_rules(chk)
    chk.floor("R-KO-NONNEG", 10)
    chk.floor("R-KO-NORM", 20)
    chk.floor("R-KO-ARG", 4)
    chk.floor("R-KO-ZERO", 7)
    chk.floor("R-KO-SIB", 10)
    sibling_defaults(chk, "R-KO-SIB", [DIRECT, MATRIX, SIG + ".generate_smooth_fa_spectrum", SIG + ".gen_smooth_fa_spectrum"],
                     label="calc_smooth_fa_spectrum~calc_smoothing_matrix_konno_1998~generate_smooth_fa_spectrum~gen_smooth_fa_spectrum")
    sibling_defaults(chk, "R-BW", ["eqsig.im.calc_bandwidth_freqs", "eqsig.im.calc_bandwidth_f_min", "eqsig.im.calc_bandwidth_f_max"],
                     label="calc_bandwidth_freqs~f_min~f_max")
    chk.floor("R-BW", 20)


def bandwidth_rules(chk):
    P = chk.P
    masks = {}

    def sigb(I, st, fi):
        d = dict(asig=make_signal(I, st, P.cls(ACC), name="asig")[1])
        if "ratio" in fi.params:
            d["ratio"] = AV(kind=K_SCALAR, dtype="real", shape=(), sign=S_POS, origin=frozenset(["lit"]), tags=frozenset(["p:ratio"]),
                            note="pyscalar")
        return d
    for q, outs in (("eqsig.im.calc_bandwidth_freqs", ("first", "last")), ("eqsig.im.calc_bandwidth_f_min", ("first",)),
                    ("eqsig.im.calc_bandwidth_f_max", ("last",)), ("eqsig.fns.frequency.get_sig_freq_range", None)):
        r = analyse(chk, q, sigb)
        c = "%s:%s" % (r.fi.module.relpath, r.fi.name)
        unmodelled_in(r, chk, "R-BW", c)
        inner = q if not q.endswith("get_sig_freq_range") else "eqsig.fns.frequency.get_sig_array_indexes_range"
        cm = [e for e in r.events("compare", inner) if ("p:ratio" in e.left.tags) != ("p:ratio" in e.right.tags)]
        cm = list({id(e.node): e for e in cm}.values())          # one comparison evaluated in several loop passes is one comparison
        # the other side is the spectrum (an amplitude): tests of positions found under the mask carry the ratio only as control provenance
        cm = [e for e in cm if alg_degree((e.left if "p:ratio" in e.right.tags else e.right).a(R)) == Exp(1)] or cm
        if len(cm) != 1:
            chk.ob("R-BW", c + "{mask}", "one comparison against max*ratio", False, derived="%d" % len(cm), loc=r.fi.loc(), inconclusive=not cm)
            continue
        e = cm[0]
        lim, val = (e.right, e.left) if "p:ratio" in e.right.tags else (e.left, e.right)
        op = e.op if lim is e.right else {"Gt": "Lt", "Lt": "Gt", "GtE": "LtE", "LtE": "GtE"}.get(e.op, e.op)
        chk.ob("R-BW", c + "{mask}", "smooth > limit (strict)", op == "Gt", derived="smooth %s limit" % op, loc=e.loc, stmt=e.stmt)
        expect(chk, "R-BW", c + "{limit}", lim, tags_has=["red:max", "attr:_smooth_fa_freqs"], deg={R: 1}, loc=e.loc)
        expect(chk, "R-BW", c + "{masked}", val, tags_has=["attr:_smooth_fa_freqs", "abs"], tags_not=["red:max"], deg={R: 1}, loc=e.loc)
        masks[q] = (op, "red:max" in lim.tags)
        if outs is None:
            # np.take(freqs, (first, last))
            tk = [x for x in r.events("lib-call", q) if x.name == "numpy.take"]
            ok = len(tk) == 1 and tk[0].args[1].items is not None and len(tk[0].args[1].items) == 2 and \
                tk[0].args[1].items[0].ext is not None and tk[0].args[1].items[0].ext[0] == "lo" and \
                tk[0].args[1].items[1].ext is not None and tk[0].args[1].items[1].ext[0] == "hi" and \
                tk[0].args[1].items[0].ext[1:] == tk[0].args[1].items[1].ext[1:]
            chk.ob("R-BW", c + "{ends}", "(first, last) index of the same mask selects from the frequency array", ok,
                   derived="ok" if ok else "index pair is not (first, last) of one index array", loc=tk[0].loc if tk else r.fi.loc())
            if tk:
                expect(chk, "R-BW", c + "{frequencies}", tk[0].args[0], tags_has=["attr:_smooth_fa_freqs"], tags_not=["fft:fft"], loc=tk[0].loc)
            continue
        # the index array of the mask is read at its two ends only: a literal position other than [0] / [-1] is a located wrong instance
        lit_ = [x for x in r.events("subscript") if "where-index" in x.base.tags and x.base.kind == K_ARRAY and x.index.kind == K_SCALAR and
                x.index.has_const() and isinstance(x.index.const, int) and not isinstance(x.index.const, bool) and x.index.const not in (0, -1)]
        if lit_:
            chk.ob("R-BW", c + "{end positions}", "the index array of the mask is read at [0] (first) and [-1] (last) only", False,
                   derived="read at literal position [%d]" % lit_[0].index.const, loc=lit_[0].loc, stmt=lit_[0].stmt)
        rf_ = getattr(r.I, "revfirst", None) or {}
        miss_ = [e for e in r.I.events if e.kind == "idiom-miss"] + \
            [x for x in r.events("subscript") if x.index.kind == K_SCALAR and x.index.sym is not None and len(x.index.sym.t) == 1 and x.index.sym.c == 0 and
             x.index.sym.t[0][1] == 1 and x.index.sym.t[0][0] in rf_]
        if miss_:
            chk.ob("R-BW", c + "{mask ends}", "first True = argmax(mask), last True = len(mask) - 1 - argmax(mask reversed)", False,
                   derived=miss_[0].get("what") or "a position counted from the end of the mask is used as a position from its start", loc=miss_[0].loc,
                   stmt=miss_[0].get("stmt"))
        vals = list(r.ret.items) if r.ret.items is not None else [r.ret]
        if len(vals) != len(outs):
            chk.ob("R-BW", c + "{results}", "%d result(s)" % len(outs), False, derived="%d" % len(vals), loc=r.fi.loc())
            continue
        if not any(x.index.kind == K_SCALAR and (x.index.ext is not None or "where-index" in x.base.tags or "where-index" in x.index.tags)
                   for x in r.events("subscript")):
            # no element is read at the first / last entry of an ascending index array anywhere: the limits are found some other way
            # (an explicit scan ...), which this rule does not follow
            chk.ob("R-BW", c + "{ends}", "the limits are the first / last entry of one ascending index array of the mask", False,
                   derived="no read at an end of an index array in this design", inconclusive=True, loc=r.fi.loc())
            continue
        for v, which in zip(vals, outs):
            has, hasnot = ("at:lo", "at:hi") if which == "first" else ("at:hi", "at:lo")
            expect(chk, "R-BW", c + ".%s" % which, v, tags_has=[has, "attr:_smooth_fa_freqs"], tags_not=[hasnot], kind=K_SCALAR,
                   const_in=[], loc=r.fi.loc())
            # the value is read from the frequency array, not from the spectrum
            subs = [x for x in r.events("subscript", q) if x.index.kind == K_SCALAR and x.index.ext is not None and
                    x.index.ext[0] == ("lo" if which == "first" else "hi")]
            ok = bool(subs) and all("fft:fft" not in x.base.tags and "attr:_smooth_fa_freqs" in x.base.tags for x in subs)
            chk.ob("R-BW", c + ".%s[source]" % which, "read from the smoothing-frequency array", ok,
                   derived="%d read(s) at the %s index" % (len(subs), which), loc=subs[0].loc if subs else r.fi.loc(),
                   # a read from the spectrum itself is the located wrong source; no read located, or a base whose provenance was not derived, is not
                   inconclusive=(not subs) or not any("fft:fft" in x.base.tags for x in subs))
    # the threshold itself: a fraction of the maximum in the bandwidth helpers (max * ratio, ratio < 1), the maximum divided by the ratio in
    # the significant-range helper (max / ratio, ratio > 1)
    for q_, expo_ in (("eqsig.im.calc_bandwidth_freqs", 1), ("eqsig.im.calc_bandwidth_f_min", 1), ("eqsig.im.calc_bandwidth_f_max", 1),
                      ("eqsig.fns.frequency.get_sig_array_indexes_range", -1)):
        f_ = P.fn(q_)
        for n in ast.walk(f_.node):
            if isinstance(n, ast.Assign) and len(n.targets) == 1 and isinstance(n.value, ast.BinOp):
                p_ = Normaliser().poly(n.value)
                if p_.is_monomial() and "ratio" in p_.atoms() and len(p_.atoms()) == 2:
                    (m_, co_), = p_.t.items()
                    d_ = dict(m_)
                    oth = [a for a in d_ if a != "ratio"][0]
                    chk.ob("R-BW", "%s:%s{threshold}" % (f_.module.relpath, f_.name), "threshold = maximum %s ratio" % ("*" if expo_ == 1 else "/"),
                           co_ == 1 and d_["ratio"] == expo_ and d_[oth] == 1, derived=p_.canon(), loc=f_.loc(n), stmt=norm_stmt(n))
    ms = set(masks.values())
    chk.ob("R-BW", "calc_bandwidth_freqs~f_min~f_max~get_sig_array_indexes_range", "the sibling masks are the same strict comparison",
           len(ms) == 1 and len(masks) == 4, derived="%s" % sorted(masks.values()))

import argparse
import importlib
import json
import os
import sys
import traceback

from .program import Program, AnalysisError
from .report import Check, finish, VERIF


def main(argv=None):
    ap = argparse.ArgumentParser()
    ap.add_argument("pid")
    ap.add_argument("--tier", default=os.environ.get("VERIF_TIER", "quick"), choices=["quick", "thorough"])
    ap.add_argument("--replay", default=None)
    ap.add_argument("--repo", default=None)
    a = ap.parse_args(argv)
    seed = int(os.environ.get("VERIF_SEED", "0") or 0)
    pid = a.pid.upper()
    try:
        P = Program(a.repo)
        mod = importlib.import_module("sa.props." + pid.lower())
        chk = Check(pid, a.tier, P)
        mod.run(chk)
        if a.replay:
            with open(a.replay) as f:
                rep = json.load(f)
            keys = {(v["rule"], v["construct"]) for v in rep.get("violations", [])}
            chk.obs = [o for o in chk.obs if (o.rule, o.construct) in keys] or chk.obs
        if a.tier == "thorough" and hasattr(mod, "thorough"):
            mod.thorough(chk)
        code = finish(chk, seed)
    except AnalysisError as e:
        print("ANALYSIS-ERROR property=%s: %s" % (pid, e))
        code = 2
    except Exception:
        traceback.print_exc()
        print("ANALYSIS-ERROR property=%s: internal error in the checker (see traceback)" % pid)
        code = 2
    sys.stdout.flush()
    return code


if __name__ == "__main__":
    sys.exit(main())

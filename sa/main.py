import argparse
import importlib
import json
import os
import sys
import traceback

from .program import Program, AnalysisError
from .report import Check, finish, VERIF


def thorough_selftest(chk, pid, repo):
    """Thorough tier: replay the rule self-test for this property on scratch copies of the CURRENT tree (mutants must be
    refuted, behaviour-preserving twins must pass).  Outcomes are evidence about the checker; they never change the verdict
    on the tree itself."""
    import concurrent.futures as cf
    sys.path.insert(0, VERIF)
    from selftest import run as st
    if repo:
        st.REPO = repo
    vs = st.load_variants({pid})
    res = {"variants": len(vs), "as_expected": 0, "not_as_expected": [], "unlocated": []}
    with cf.ThreadPoolExecutor(max_workers=16) as ex:
        for v, status, err, out in ex.map(st.run_one, vs):
            if status in ("CAUGHT", "SILENT", "INCONCL-OK"):
                res["as_expected"] += 1
            elif status == "UNLOCATED":
                res["unlocated"].append(v["id"])
            else:
                res["not_as_expected"].append("%s:%s" % (v["id"], status))
    chk.selftest = res
    chk.note("selftest on scratch copies of the current tree: %d variants (%d breaking, %d twins): %d as expected, %d construct not located, %d not as expected %s"
             % (len(vs), sum(1 for v in vs if v["kind"] == "break"), sum(1 for v in vs if v["kind"] == "twin"), res["as_expected"],
                len(res["unlocated"]), len(res["not_as_expected"]), res["not_as_expected"][:6]))


def api_rule(chk, pid):
    """R-API (every property): the entry points the property is observed at keep the positional order of the parameters they had on the
    pinned tree (a positional caller is rebound silently by a swap or by a new parameter in front)."""
    import re
    quals = []
    with open(os.path.join(VERIF, "properties.jsonl"), encoding="utf-8") as fh:
        for line in fh:
            d = json.loads(line)
            if d["id"] != pid:
                continue
            for s_ in d["anchors"].get("observe_at") or []:
                for m in re.finditer(r"eqsig(?:\.\w+)+", s_):
                    q = m.group(0)
                    cands = [q, q.replace("eqsig.AccSignal", "eqsig.single.AccSignal").replace("eqsig.Signal", "eqsig.single.Signal")]
                    for c in cands:
                        if c in chk.P.functions and c not in quals:
                            quals.append(c)
    if quals:
        chk.rule("R-API", "the observed entry points keep the positional order of their parameters (positional callers are rebound silently otherwise)")
        from .tyob import positional_order
        positional_order(chk, "R-API", quals)


def libns_rule(chk, pid):
    """R-LIBNS (every property): every NumPy / SciPy name referenced by a function the property's analyses entered exists in the installed
    library (F3: np.Array; F17: np.trapz).  C17, C10 and C06 state it for their anchored functions themselves; this covers what the
    analyses reach beyond them."""
    from .tyob import libns_for
    quals = sorted(q for q in chk.functions if q in chk.P.functions and q.startswith("eqsig."))
    if quals:
        if "R-LIBNS" not in getattr(chk, "rules", {}):
            chk.rule("R-LIBNS", "every NumPy/SciPy name referenced by the functions the analyses of this property enter exists in the installed "
                                "library (resolved from the installed stubs/sources, nothing imported)")
        libns_for(chk, "R-LIBNS", quals, only_roots=("numpy", "scipy"))


def main(argv=None):
    ap = argparse.ArgumentParser()
    ap.add_argument("pid")
    ap.add_argument("--tier", default=os.environ.get("VERIF_TIER", "quick"), choices=["quick", "thorough"])
    ap.add_argument("--replay", default=None)
    ap.add_argument("--repo", default=None)
    a = ap.parse_args(argv)
    seed = int(os.environ.get("VERIF_SEED", "0") or 0)
    pid = a.pid.upper()
    try:
        P = Program(a.repo)
        mod = importlib.import_module("sa.props." + pid.lower())
        chk = Check(pid, a.tier, P)
        mod.run(chk)
        api_rule(chk, pid)
        libns_rule(chk, pid)
        if a.replay:
            with open(a.replay) as f:
                rep = json.load(f)
            keys = {(v["rule"], v["construct"]) for v in rep.get("violations", [])}
            chk.obs = [o for o in chk.obs if (o.rule, o.construct) in keys] or chk.obs
        if a.tier == "thorough":
            if hasattr(mod, "thorough"):
                mod.thorough(chk)
            thorough_selftest(chk, pid, a.repo)
        code = finish(chk, seed)
    except AnalysisError as e:
        print("ANALYSIS-ERROR property=%s: %s" % (pid, e))
        code = 2
    except Exception:
        traceback.print_exc()
        print("ANALYSIS-ERROR property=%s: internal error in the checker (see traceback)" % pid)
        code = 2
    sys.stdout.flush()
    return code


if __name__ == "__main__":
    sys.exit(main())

"""Library namespace resolver: does `numpy.X` / `scipy.pkg.Y` exist in the INSTALLED library?  Decided from the
installed sources (stub `__all__` lists), never by importing the library."""
import ast
import os
import sys

_cache = {}


def _site_packages():
    cands = []
    for p in ("/venv/lib",):
        if os.path.isdir(p):
            for d in sorted(os.listdir(p)):
                sp = os.path.join(p, d, "site-packages")
                if os.path.isdir(sp):
                    cands.append(sp)
    for p in sys.path:
        if p.endswith("site-packages") and os.path.isdir(p):
            cands.append(p)
    return cands


def _find_pkg(name):
    for sp in _site_packages():
        d = os.path.join(sp, *name.split("."))
        if os.path.isdir(d):
            return d
        if os.path.isfile(d + ".py"):
            return d + ".py"
    return None


def _literal_all(path):
    """names from literal __all__ lists (and += extensions) of one source/stub file; None if absent"""
    try:
        with open(path, encoding="utf-8") as f:
            tree = ast.parse(f.read())
    except Exception:
        return None, set()
    names = None
    defined = set()
    for st in tree.body:
        if isinstance(st, (ast.FunctionDef, ast.ClassDef, ast.AsyncFunctionDef)):
            defined.add(st.name)
        elif isinstance(st, ast.Assign):
            for t in st.targets:
                if isinstance(t, ast.Name):
                    defined.add(t.id)
                    if t.id == "__all__":
                        try:
                            names = set(ast.literal_eval(st.value))
                        except Exception:
                            pass
        elif isinstance(st, ast.AnnAssign) and isinstance(st.target, ast.Name):
            defined.add(st.target.id)
        elif isinstance(st, ast.AugAssign) and isinstance(st.target, ast.Name) and st.target.id == "__all__":
            try:
                names = (names or set()) | set(ast.literal_eval(st.value))
            except Exception:
                pass
        elif isinstance(st, (ast.Import, ast.ImportFrom)):
            for al in st.names:
                if al.name != "*":
                    defined.add((al.asname or al.name).split(".")[0])
    return names, defined


def module_names(mod):
    """(names or None, authoritative?) exported by an installed module/package"""
    if mod in _cache:
        return _cache[mod]
    res = (None, False)
    p = _find_pkg(mod)
    if p is not None:
        if os.path.isdir(p):
            stub = os.path.join(p, "__init__.pyi")
            init = os.path.join(p, "__init__.py")
            if os.path.isfile(stub):
                names, defined = _literal_all(stub)
                if names is not None:
                    subs = {f[:-3] for f in os.listdir(p) if f.endswith((".py", ".pyi")) and not f.startswith("__")} | \
                           {d for d in os.listdir(p) if os.path.isdir(os.path.join(p, d)) and not d.startswith("__")}
                    subs = {s[:-1] if s.endswith(".") else s for s in subs}
                    res = (names | defined | {s.replace(".pyi", "").replace(".py", "") for s in subs}, True)
            if res[0] is None and os.path.isfile(init):
                names, defined = _literal_all(init)
                if names is not None:
                    res = (names | defined, True)
                else:
                    # dynamic export list: union of the literal __all__ of the package's own modules (not authoritative)
                    union = set(defined)
                    for f in sorted(os.listdir(p)):
                        if f.endswith(".py") and f != "__init__.py":
                            n2, _ = _literal_all(os.path.join(p, f))
                            if n2:
                                union |= n2
                            union.add(f[:-3])
                    res = (union, False)
        else:
            names, defined = _literal_all(p)
            res = ((names or set()) | defined, names is not None) if (names or defined) else (None, False)
    _cache[mod] = res
    return res


_ufunc_tab = None


def _ufunc_member(name, member):
    """numpy.<name>.<member> for a ufunc: the stub declares `<name>: _UFunc_NinX_NoutY[...]`, and that class (numpy/_typing/_ufunc.pyi)
    lists the members a ufunc object has.  True / False, or None when <name> is not declared as a ufunc."""
    global _ufunc_tab
    if _ufunc_tab is None:
        _ufunc_tab = ({}, {})
        p = _find_pkg("numpy")
        try:
            top = ast.parse(open(os.path.join(p, "__init__.pyi")).read())
            for st in top.body:
                if isinstance(st, ast.AnnAssign) and isinstance(st.target, ast.Name) and isinstance(st.annotation, ast.Subscript) and \
                        isinstance(st.annotation.value, ast.Name) and st.annotation.value.id.startswith("_UFunc_"):
                    _ufunc_tab[0][st.target.id] = st.annotation.value.id
            cls = ast.parse(open(os.path.join(p, "_typing", "_ufunc.pyi")).read())
            base = set()
            for st in ast.parse(open(os.path.join(p, "__init__.pyi")).read()).body:
                if isinstance(st, ast.ClassDef) and st.name == "ufunc":
                    base = {m.name for m in st.body if isinstance(m, ast.FunctionDef)} | \
                           {m.target.id for m in st.body if isinstance(m, ast.AnnAssign) and isinstance(m.target, ast.Name)}
            for st in cls.body:
                if isinstance(st, ast.ClassDef) and st.name.startswith("_UFunc_"):
                    _ufunc_tab[1][st.name] = base | {m.name for m in st.body if isinstance(m, ast.FunctionDef)} | \
                        {m.target.id for m in st.body if isinstance(m, ast.AnnAssign) and isinstance(m.target, ast.Name)}
        except Exception:
            pass
    c = _ufunc_tab[0].get(name)
    if c is None or c not in _ufunc_tab[1]:
        return None
    return member in _ufunc_tab[1][c]


def exists(libname):
    """True / False (definitely absent) / None (cannot tell) for a dotted library name like numpy.fft.fft"""
    parts = libname.split(".")
    if parts[0] not in ("numpy", "scipy"):
        return None
    # longest module prefix that exists on disk
    for k in range(len(parts) - 1, 0, -1):
        mod = ".".join(parts[:k])
        if _find_pkg(mod) is None:
            continue
        attr = parts[k]
        names, auth = module_names(mod)
        if names is None:
            return None
        if attr in names:
            rest = parts[k + 1:]
            if len(rest) == 1 and mod == "numpy":
                u = _ufunc_member(attr, rest[0])
                if u is not None:
                    return u
            return True if not rest else None  # attributes of classes are not resolved further
        return False if auth else None
    return None

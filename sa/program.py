"""Loader and resolver: parses /repo's working tree on every run (no cache).

Nothing here imports or executes eqsig code; everything is derived from `ast`.
"""
import ast
import hashlib
import os
import warnings

REPO = os.environ.get("VERIF_REPO", "/repo")
PKG = "eqsig"


class AnalysisError(Exception):
    """The analysis itself cannot proceed (anchor vanished, unparsable file...).

    Reported as ANALYSIS-ERROR / exit 2, never as a violation and never as a pass."""


class FunctionInfo(object):
    def __init__(self, qualname, node, module, cls=None):
        self.qualname = qualname
        self.node = node
        self.module = module  # ModuleInfo
        self.cls = cls  # ClassInfo or None
        self.name = node.name
        self.decorators = [ast.unparse(d) for d in node.decorator_list]
        self.is_property = "property" in self.decorators
        self.setter_of = None
        for d in self.decorators:
            if d.endswith(".setter"):
                self.setter_of = d[:-len(".setter")]
        a = node.args
        self.params = [x.arg for x in a.posonlyargs + a.args]
        self.kwonly = [x.arg for x in a.kwonlyargs]
        self.vararg = a.vararg.arg if a.vararg else None
        self.kwarg = a.kwarg.arg if a.kwarg else None
        nd = len(a.defaults)
        self.defaults = {}
        for p, d in zip(self.params[len(self.params) - nd:], a.defaults):
            self.defaults[p] = d
        for p, d in zip(a.kwonlyargs, a.kw_defaults):
            if d is not None:
                self.defaults[p.arg] = d

    @property
    def file(self):
        return self.module.relpath

    def loc(self, node=None):
        node = node or self.node
        return "%s:%s" % (self.module.relpath, getattr(node, "lineno", "?"))

    def __repr__(self):
        return "<fn %s>" % self.qualname


class ClassInfo(object):
    def __init__(self, qualname, node, module):
        self.qualname = qualname
        self.node = node
        self.module = module
        self.name = node.name
        self.methods = {}  # name -> FunctionInfo (plain methods and property getters)
        self.setters = {}  # property name -> FunctionInfo
        self.class_attrs = {}  # name -> ast expr
        self.base_exprs = node.bases
        self.bases = []  # resolved ClassInfo

    def mro(self):
        out = [self]
        for b in self.bases:
            for c in b.mro():
                if c not in out:
                    out.append(c)
        return out

    def find_method(self, name):
        for c in self.mro():
            if name in c.methods:
                return c.methods[name]
        return None

    def find_setter(self, name):
        for c in self.mro():
            if name in c.setters:
                return c.setters[name]
        return None

    def find_property(self, name):
        m = self.find_method(name)
        if m is not None and m.is_property:
            return m
        return None

    def find_class_attr(self, name):
        for c in self.mro():
            if name in c.class_attrs:
                return c.class_attrs[name]
        return None

    def is_subclass_of(self, other):
        return other in self.mro()

    def __repr__(self):
        return "<class %s>" % self.qualname


class ModuleInfo(object):
    def __init__(self, name, path, relpath, source):
        self.name = name
        self.path = path
        self.relpath = relpath
        self.source = source
        self.digest = hashlib.sha256(source.encode()).hexdigest()[:16]
        try:
            with warnings.catch_warnings():
                warnings.simplefilter("ignore")
                self.tree = ast.parse(source, filename=path)
        except SyntaxError as e:
            raise AnalysisError("cannot parse %s: %s" % (relpath, e))
        self.is_package = os.path.basename(path) == "__init__.py"
        self.functions = {}
        self.classes = {}
        self.imports = {}  # local name -> ('module', modname) | ('from', modname, attr)
        self.star_imports = []  # module names
        self.duplicates = []  # names defined more than once at module level

    def __repr__(self):
        return "<module %s>" % self.name


def _abs_module(cur_mod, level, name):
    """Resolve a relative import to an absolute module name."""
    if level == 0:
        return name
    parts = cur_mod.name.split(".")
    if not cur_mod.is_package:
        parts = parts[:-1]
    if level > 1:
        parts = parts[:-(level - 1)]
    if name:
        parts = parts + name.split(".")
    return ".".join(parts)


def collect_imports(mod, stmts, table, stars):
    for st in stmts:
        if isinstance(st, ast.Import):
            for al in st.names:
                if al.asname:
                    table[al.asname] = ("module", al.name)
                else:
                    top = al.name.split(".")[0]
                    table[top] = ("module", top)
        elif isinstance(st, ast.ImportFrom):
            m = _abs_module(mod, st.level, st.module or "")
            for al in st.names:
                if al.name == "*":
                    stars.append(m)
                else:
                    table[al.asname or al.name] = ("from", m, al.name)


class Program(object):
    def __init__(self, repo=None, extra_clients=True):
        self.repo = repo or REPO
        self.modules = {}
        self.functions = {}  # qualname -> FunctionInfo
        self.classes = {}
        self.client_trees = {}  # relpath -> ast tree (tests/examples; never subjects)
        self._load_package()
        if extra_clients:
            self._load_clients()
        self._link_classes()

    # ------------------------------------------------------------------ loading
    def _load_package(self):
        pkgdir = os.path.join(self.repo, PKG)
        if not os.path.isdir(pkgdir):
            raise AnalysisError("package directory %s not found" % pkgdir)
        for dirpath, dirnames, filenames in os.walk(pkgdir):
            dirnames[:] = sorted(d for d in dirnames if d != "__pycache__")
            for fn in sorted(filenames):
                if not fn.endswith(".py"):
                    continue
                path = os.path.join(dirpath, fn)
                rel = os.path.relpath(path, self.repo)
                parts = rel[:-3].split(os.sep)
                if parts[-1] == "__init__":
                    parts = parts[:-1]
                name = ".".join(parts)
                with open(path, encoding="utf-8") as f:
                    src = f.read()
                mod = ModuleInfo(name, path, rel, src)
                self.modules[name] = mod
        # normalisation needs every module parsed first (helpers introduced in ANOTHER module are seen through too)
        from .normalise import normalise_program
        for mod in self.modules.values():
            collect_imports(mod, mod.tree.body, mod.imports, mod.star_imports)
        normalise_program(self.modules)
        for mod in self.modules.values():
            mod.imports.clear()
            del mod.star_imports[:]
            self._index_module(mod)

    def _load_clients(self):
        for sub in ("tests", "examples", "validtions"):
            d = os.path.join(self.repo, sub)
            if not os.path.isdir(d):
                continue
            for dirpath, dirnames, filenames in os.walk(d):
                dirnames[:] = sorted(x for x in dirnames if x != "__pycache__")
                for fn in sorted(filenames):
                    if fn.endswith(".py"):
                        p = os.path.join(dirpath, fn)
                        try:
                            with open(p, encoding="utf-8") as f, warnings.catch_warnings():
                                warnings.simplefilter("ignore")
                                self.client_trees[os.path.relpath(p, self.repo)] = ast.parse(f.read())
                        except (SyntaxError, UnicodeDecodeError):
                            pass

    def _index_module(self, mod):
        collect_imports(mod, mod.tree.body, mod.imports, mod.star_imports)
        seen = set()
        for st in mod.tree.body:
            if isinstance(st, ast.FunctionDef):
                if st.name in seen:
                    mod.duplicates.append(st.name)
                seen.add(st.name)
                fi = FunctionInfo(mod.name + "." + st.name, st, mod)
                mod.functions[st.name] = fi  # last definition wins, as in Python
                self.functions[fi.qualname] = fi
            elif isinstance(st, ast.ClassDef):
                ci = ClassInfo(mod.name + "." + st.name, st, mod)
                mod.classes[st.name] = ci
                self.classes[ci.qualname] = ci
                for b in st.body:
                    if isinstance(b, ast.FunctionDef):
                        fi = FunctionInfo(ci.qualname + "." + b.name, b, mod, ci)
                        if fi.setter_of is not None:
                            ci.setters[b.name] = fi
                            self.functions[fi.qualname + ".setter"] = fi
                        else:
                            ci.methods[b.name] = fi
                            self.functions[fi.qualname] = fi
                    elif isinstance(b, ast.Assign):
                        for t in b.targets:
                            if isinstance(t, ast.Name):
                                ci.class_attrs[t.id] = b.value

    def _link_classes(self):
        for ci in self.classes.values():
            for be in ci.base_exprs:
                r = self.resolve_expr(ci.module, be)
                if r and r[0] == "class":
                    ci.bases.append(r[1])

    # ------------------------------------------------------------------ resolution
    def module_attr(self, modname, attr, _seen=None):
        """What does `<modname>.<attr>` denote?  Returns a resolution tuple or None."""
        _seen = _seen or set()
        if (modname, attr) in _seen:
            return None
        _seen.add((modname, attr))
        mod = self.modules.get(modname)
        if mod is None:
            if modname.split(".")[0] == PKG:
                return None
            return ("lib", modname + "." + attr)
        if attr in mod.functions:
            return ("func", mod.functions[attr])
        if attr in mod.classes:
            return ("class", mod.classes[attr])
        if attr in mod.imports:
            return self._resolve_import(mod.imports[attr], _seen)
        sub = modname + "." + attr
        if sub in self.modules:
            return ("module", sub)
        for sm in mod.star_imports:
            r = self.module_attr(sm, attr, _seen)
            if r is not None and r[0] != "lib":
                return r
            if r is not None and sm.split(".")[0] != PKG:
                return r
        return None

    def _resolve_import(self, imp, _seen=None):
        if imp[0] == "module":
            return ("module", imp[1])
        _, m, a = imp
        if m in self.modules:
            r = self.module_attr(m, a, _seen)
            if r is not None:
                return r
            if (m + "." + a) in self.modules:
                return ("module", m + "." + a)
            return None
        if m.split(".")[0] == PKG:
            return None
        return ("lib", m + "." + a)

    def resolve_name(self, mod, name, local_imports=None):
        if local_imports and name in local_imports:
            return self._resolve_import(local_imports[name])
        if name in mod.functions:
            return ("func", mod.functions[name])
        if name in mod.classes:
            return ("class", mod.classes[name])
        if name in mod.imports:
            return self._resolve_import(mod.imports[name])
        for sm in mod.star_imports:
            r = self.module_attr(sm, name)
            if r is not None:
                return r
        return None

    def resolve_expr(self, mod, expr, local_imports=None):
        """Resolve a Name / dotted Attribute chain statically to func/class/module/lib."""
        if isinstance(expr, ast.Name):
            return self.resolve_name(mod, expr.id, local_imports)
        if isinstance(expr, ast.Attribute):
            base = self.resolve_expr(mod, expr.value, local_imports)
            if base is None:
                return None
            if base[0] == "module":
                m = base[1]
                if m in self.modules or m.split(".")[0] == PKG:
                    return self.module_attr(m, expr.attr)
                return ("lib", m + "." + expr.attr)
            if base[0] == "lib":
                return ("lib", base[1] + "." + expr.attr)
            if base[0] == "class":
                meth = base[1].find_method(expr.attr)
                if meth:
                    return ("func", meth)
        return None

    # ------------------------------------------------------------------ helpers
    def fn(self, qualname):
        f = self.functions.get(qualname)
        if f is None and "." in qualname:
            # a method the class now inherits (moved to a base class or a mixin): what attribute lookup on the class finds
            cq, m = qualname.rsplit(".", 1)
            ci = self.classes.get(cq)
            if ci is not None:
                f = ci.find_method(m)
        if f is None:
            raise AnalysisError("anchor function %s not found in the tree" % qualname)
        return f

    def cls(self, qualname):
        c = self.classes.get(qualname)
        if c is None:
            raise AnalysisError("anchor class %s not found in the tree" % qualname)
        return c

    def digests(self, relpaths=None):
        out = {}
        for m in self.modules.values():
            if relpaths is None or m.relpath in relpaths:
                out[m.relpath] = m.digest
        return out

    def all_functions(self):
        seen = set()
        for q, f in sorted(self.functions.items()):
            if id(f) in seen:
                continue
            seen.add(id(f))
            yield f


def local_imports_of(fi):
    table, stars = {}, []
    for n in ast.walk(fi.node):
        if isinstance(n, (ast.Import, ast.ImportFrom)):
            collect_imports(fi.module, [n], table, stars)
    return table


import re as _re
_MANGLED = _re.compile(r"(?<=[A-Za-z0-9])__[A-Za-z_][A-Za-z0-9_]*?__\d+\b")


def norm_stmt(node):
    """Normalised statement text: key for findings (never line numbers)."""
    try:
        s = ast.unparse(node)
    except Exception:
        s = ast.dump(node)
    s = " ".join(s.split())
    s = _MANGLED.sub("", s)          # names the inliner renamed apart (x__helper__3) are keyed by their source name
    return s if len(s) <= 160 else s[:157] + "..."

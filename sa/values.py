"""Abstract domains.  Values are *types* (degree, parity, length, origin ...), never
concrete values or symbolic expressions of the program's data."""
from fractions import Fraction
import itertools

# ----------------------------------------------------------------------------- Exp
# Degree exponents: Laurent polynomials in ONE symbolic power `b` with rational
# coefficients ({power_of_b: coefficient}), so that (1/b) * b == 1 is derivable.


class Exp(object):
    __slots__ = ("t",)

    def __init__(self, d=None):
        if isinstance(d, Exp):
            self.t = d.t
            return
        if d is None:
            d = {}
        if isinstance(d, (int, Fraction)):
            d = {0: Fraction(d)}
        elif isinstance(d, float):
            d = {0: to_fraction(d)}
        self.t = tuple(sorted((p, Fraction(c)) for p, c in d.items() if c != 0))

    def d(self):
        return dict(self.t)

    def __add__(self, o):
        o = Exp(o)
        r = self.d()
        for p, c in o.t:
            r[p] = r.get(p, 0) + c
        return Exp(r)

    def __neg__(self):
        return Exp({p: -c for p, c in self.t})

    def __sub__(self, o):
        return self + (-Exp(o))

    def __mul__(self, o):
        o = Exp(o)
        r = {}
        for p1, c1 in self.t:
            for p2, c2 in o.t:
                r[p1 + p2] = r.get(p1 + p2, 0) + c1 * c2
        return Exp(r)

    def inverse(self):
        """1/x, only for monomials."""
        if len(self.t) != 1:
            return None
        p, c = self.t[0]
        return Exp({-p: 1 / c})

    def __eq__(self, o):
        try:
            return self.t == Exp(o).t
        except Exception:
            return False

    def __hash__(self):
        return hash(self.t)

    def is_number(self):
        return all(p == 0 for p, _ in self.t)

    def number(self):
        return dict(self.t).get(0, Fraction(0))

    def is_zero(self):
        return not self.t

    def __repr__(self):
        if not self.t:
            return "0"
        out = []
        for p, c in self.t:
            cs = str(c)
            if p == 0:
                out.append(cs)
            elif p == 1:
                out.append("%s*b" % cs)
            else:
                out.append("%s*b^%d" % (cs, p))
        return "+".join(out)


def to_fraction(x):
    if isinstance(x, bool):
        return Fraction(int(x))
    if isinstance(x, int):
        return Fraction(x)
    if isinstance(x, float):
        if x != x or x in (float("inf"), float("-inf")):
            return None
        return Fraction(repr(x))
    if isinstance(x, Fraction):
        return x
    return None


# ----------------------------------------------------------------------------- Alg
# How a value transforms when ONE atom (the record, dt, ...) is scaled by a>0 / negated.
#   zero      identically zero (compatible with every class)
#   const     independent of the atom
#   lin       a linear map of the atom (additive; degree 1, odd)
#   hom(k,p)  positively homogeneous of degree k, parity p in even/odd/none
#   top       nothing derivable; `definite` says it came from modelled operations

ZERO = ("zero",)
CONST = ("const",)
LIN = ("lin",)


def HOM(k, par):
    return ("hom", Exp(k), par)


def TOP(definite=True):
    return ("top", bool(definite))


TOPD = TOP(True)
TOPI = TOP(False)


def is_top(a):
    return a[0] == "top"


def hom_form(a):
    """(k, parity) or None for zero/top."""
    if a[0] == "const":
        return (Exp(0), "even")
    if a[0] == "lin":
        return (Exp(1), "odd")
    if a[0] == "hom":
        return (a[1], a[2])
    return None


def par_join(p, q):
    return p if p == q else "none"


def par_mul(p, q):
    if p == "none" or q == "none":
        return "none"
    return "even" if p == q else "odd"


def _top2(a, b):
    return TOP((not is_top(a) or a[1]) and (not is_top(b) or b[1]))


def alg_add(a, b):
    if a[0] == "zero":
        return b
    if b[0] == "zero":
        return a
    if is_top(a) or is_top(b):
        return _top2(a, b)
    if a == b and a[0] in ("const", "lin"):
        return a
    (ka, pa), (kb, pb) = hom_form(a), hom_form(b)
    if ka != kb:
        return TOPD
    return HOM(ka, par_join(pa, pb))


def alg_mul(a, b):
    if a[0] == "zero" or b[0] == "zero":
        return ZERO
    if is_top(a) or is_top(b):
        return _top2(a, b)
    if a[0] == "const":
        return b
    if b[0] == "const":
        return a
    (ka, pa), (kb, pb) = hom_form(a), hom_form(b)
    return HOM(ka + kb, par_mul(pa, pb))


def alg_inv(a):
    if a[0] == "zero":
        return TOPD
    if is_top(a) or a[0] == "const":
        return a
    k, p = hom_form(a)
    return HOM(-k, p)


def alg_div(a, b):
    return alg_mul(a, alg_inv(b))


def alg_abs(a):
    if a[0] in ("zero", "const", "top"):
        return a
    k, p = hom_form(a)
    return HOM(k, "even" if p in ("even", "odd") else "none")


def alg_pow(a, e, integer=None):
    """a ** e where e is an Exp (degree multiplier). integer: python int if e is a literal int."""
    if a[0] in ("const", "top"):
        return a
    if a[0] == "zero":
        return ZERO
    k, p = hom_form(a)
    if integer is not None:
        if integer == 0:
            return CONST
        if integer == 1:
            return a
        np_ = p if integer % 2 else ("even" if p in ("even", "odd") else "none")
        return HOM(k * Exp(integer), np_)
    return HOM(k * e, "even" if p == "even" else "none")


def alg_lub(a, b):
    """Control-flow join (branch condition independent of the atom; see weaken for pc)."""
    if a == b:
        return a
    if a[0] == "zero":
        return b
    if b[0] == "zero":
        return a
    if is_top(a) or is_top(b):
        return _top2(a, b)
    (ka, pa), (kb, pb) = hom_form(a), hom_form(b)
    if ka != kb:
        return TOPD
    return HOM(ka, par_join(pa, pb))


def alg_weaken(a, c):
    """Value `a` selected/assigned under a condition (or through an index) of class c."""
    if c[0] in ("zero", "const") or a[0] == "zero":
        return a
    if is_top(c):
        return TOP(c[1] and (not is_top(a) or a[1]))
    if is_top(a):
        return a
    kc, pc = hom_form(c)
    if not (kc == Exp(0)):
        return TOPD
    k, p = hom_form(a)
    if pc == "even":
        return HOM(k, p)
    return HOM(k, "none")


def alg_cmp(a, b, equality=False):
    """Class of the boolean a <op> b."""
    if is_top(a) or is_top(b):
        return _top2(a, b)
    if a[0] in ("const", "zero") and b[0] in ("const", "zero"):
        return CONST
    ha, hb = hom_form(a), hom_form(b)
    if ha is None:  # a literal zero adopts the other side's class
        ha = hb
    if hb is None:
        hb = ha
    if ha[0] != hb[0]:
        return TOPD
    pa, pb_ = ha[1], hb[1]
    if equality:
        ok = pa == pb_ and pa in ("even", "odd")
    else:
        ok = pa == "even" and pb_ == "even"
    return HOM(0, "even" if ok else "none")


def alg_maxred(a):
    """max/min style reduction or order statistic."""
    if a[0] in ("zero", "const", "top"):
        return a
    k, p = hom_form(a)
    return HOM(k, "even" if p == "even" else "none")


def alg_argorder(a):
    """index-valued result of an ordering operation (argmax, argsort, searchsorted...)."""
    if a[0] in ("zero", "const"):
        return CONST
    if is_top(a):
        return a
    k, p = hom_form(a)
    return HOM(0, "even" if p == "even" else "none")


def alg_nonlinear(a):
    """sin, exp, log, floor ... of a."""
    if a[0] == "zero":
        return CONST
    if a[0] in ("const", "top"):
        return a
    k, p = hom_form(a)
    if k == Exp(0):
        return HOM(0, p if p == "even" else "none")
    return TOPD


def alg_sign(a):
    if a[0] in ("zero", "const", "top"):
        return a
    k, p = hom_form(a)
    return HOM(0, p)


def alg_shape(a):
    """class of the *shape* (e.g. len) of a value of class a."""
    if a[0] in ("zero", "const", "lin"):
        return CONST
    if is_top(a):
        return a
    k, p = hom_form(a)
    return HOM(0, "even" if p in ("even", "odd") else "none")


def alg_str(a):
    if a[0] == "hom":
        return "hom(deg=%r,%s)" % (a[1], a[2])
    if a[0] == "top":
        return "T" if a[1] else "T?"
    return a[0]


def alg_degree(a):
    """Exp degree or None (zero -> 'any')."""
    if a[0] == "zero":
        return "any"
    h = hom_form(a)
    return h[0] if h else None


def alg_parity(a):
    if a[0] == "zero":
        return "any"
    h = hom_form(a)
    return h[1] if h else None


# ----------------------------------------------------------------------------- sign
S_ZERO, S_POS, S_NONNEG, S_NEG, S_NONPOS, S_ANY = "zero", "pos", "nonneg", "neg", "nonpos", "any"


def sign_of_number(x):
    try:
        if x == 0:
            return S_ZERO
        return S_POS if x > 0 else S_NEG
    except TypeError:
        return S_ANY


def sign_neg(s):
    return {S_POS: S_NEG, S_NEG: S_POS, S_NONNEG: S_NONPOS, S_NONPOS: S_NONNEG}.get(s, s)


def sign_add(a, b):
    if a == S_ZERO:
        return b
    if b == S_ZERO:
        return a
    if a in (S_POS, S_NONNEG) and b in (S_POS, S_NONNEG):
        return S_POS if S_POS in (a, b) else S_NONNEG
    if a in (S_NEG, S_NONPOS) and b in (S_NEG, S_NONPOS):
        return S_NEG if S_NEG in (a, b) else S_NONPOS
    return S_ANY


def sign_mul(a, b):
    if a == S_ZERO or b == S_ZERO:
        return S_ZERO
    if a == S_ANY or b == S_ANY:
        return S_ANY
    neg = (a in (S_NEG, S_NONPOS)) != (b in (S_NEG, S_NONPOS))
    strict = a in (S_POS, S_NEG) and b in (S_POS, S_NEG)
    if neg:
        return S_NEG if strict else S_NONPOS
    return S_POS if strict else S_NONNEG


def sign_inv(a):
    if a in (S_POS, S_NEG):
        return a
    if a == S_NONNEG:
        return S_NONNEG  # where defined
    if a == S_NONPOS:
        return S_NONPOS
    return S_ANY


def sign_join(a, b):
    if a == b:
        return a
    s = {a, b}
    if s <= {S_ZERO, S_POS, S_NONNEG}:
        return S_NONNEG
    if s <= {S_ZERO, S_NEG, S_NONPOS}:
        return S_NONPOS
    return S_ANY


def sign_abs(a):
    if a in (S_POS, S_NEG):
        return S_POS
    if a == S_ZERO:
        return S_ZERO
    return S_NONNEG


def is_nonneg(s):
    return s in (S_ZERO, S_POS, S_NONNEG)


# ----------------------------------------------------------------------------- LinExpr
_fresh = itertools.count(1)


def fresh_atom(prefix="$"):
    return "%s%d" % (prefix, next(_fresh))


class LinExpr(object):
    """Integer-valued linear expression over named atoms (lengths, opaque ints)."""
    __slots__ = ("t", "c")

    def __init__(self, terms=None, c=0):
        if isinstance(terms, LinExpr):
            self.t, self.c = terms.t, terms.c
            return
        if isinstance(terms, str):
            terms = {terms: 1}
        if isinstance(terms, (int, Fraction)):
            c, terms = terms, {}
        self.t = tuple(sorted((a, Fraction(k)) for a, k in (terms or {}).items() if k != 0))
        self.c = Fraction(c)

    def __add__(self, o):
        o = LinExpr(o)
        d = dict(self.t)
        for a, k in o.t:
            d[a] = d.get(a, 0) + k
        return LinExpr(d, self.c + o.c)

    def __neg__(self):
        return LinExpr({a: -k for a, k in self.t}, -self.c)

    def __sub__(self, o):
        return self + (-LinExpr(o))

    def scale(self, f):
        f = Fraction(f)
        return LinExpr({a: k * f for a, k in self.t}, self.c * f)

    def is_const(self):
        return not self.t

    def exact_div(self, k):
        """self / k when every coefficient stays integral, else None"""
        k = Fraction(k)
        if k == 0:
            return None
        r = self.scale(1 / k)
        if all(c.denominator == 1 for _, c in r.t) and r.c.denominator == 1:
            return r
        return None

    def __eq__(self, o):
        if not isinstance(o, (LinExpr, int, Fraction, str)):
            return False
        o = LinExpr(o)
        return self.t == o.t and self.c == o.c

    def __hash__(self):
        return hash((self.t, self.c))

    def atoms(self):
        return [a for a, _ in self.t]

    def subst(self, atom, value):
        """this expression with `atom` replaced by the integer `value`"""
        d = dict(self.t)
        if atom not in d:
            return self
        k = d.pop(atom)
        return LinExpr(d, self.c + k * Fraction(value))

    def __repr__(self):
        parts = []
        for a, k in self.t:
            parts.append(a if k == 1 else "%s*%s" % (k, a))
        if self.c != 0 or not parts:
            parts.append(str(self.c))
        return "+".join(parts).replace("+-", "-")


# ----------------------------------------------------------------------------- AV
K_ARRAY, K_LIST, K_TUPLE, K_SCALAR, K_STR, K_NONE, K_BOOL = "array", "list", "tuple", "scalar", "str", "none", "bool"
K_OBJ, K_FUNC, K_DICT, K_TOP, K_MODULE, K_SLICE, K_CLASS = "obj", "func", "dict", "top", "module", "slice", "class"

_NOCONST = object()


class AV(object):
    __slots__ = ("kind", "dtype", "origin", "shape", "sym", "alg", "sign", "mono", "const", "expo",
                 "items", "elem", "obj", "tags", "indef", "dmust", "dmay", "dvals", "ref", "note", "f0", "ext", "rel", "parts")

    def __init__(self, kind=K_TOP, dtype="top", origin=frozenset(), shape=None, sym=None, alg=None,
                 sign=S_ANY, mono=frozenset(), const=_NOCONST, expo=None, items=None, elem=None, obj=None,
                 tags=frozenset(), indef=False, dmust=None, dmay=None, dvals=None, ref=None, note=None,
                 f0=False, ext=None, rel=None, parts=None):
        self.kind = kind
        self.parts = parts  # 1-D array assembled from pieces: (("const", c) | ("sym", repr) | ("arr", tags) ...), in order; None = not tracked
        self.dtype = dtype
        self.origin = origin
        self.shape = shape
        self.sym = sym
        self.alg = alg or {}
        self.sign = sign
        self.mono = mono
        self.const = const
        self.expo = expo
        self.items = items
        self.elem = elem
        self.obj = obj
        self.tags = tags
        self.indef = indef
        self.dmust = dmust
        self.dmay = dmay
        self.dvals = dvals
        self.ref = ref  # resolution tuple for func/class/module values
        self.note = note
        self.f0 = f0  # element [0] along the last axis is exactly zero
        self.rel = rel  # (ref sym, +1|-1, 'eq'|'ge'|'le'|None, 'int'|'recip-int'|None): rounding relation to ref**pow
        self.ext = ext  # ('lo'|'hi', key): smallest/largest element of the ascending array `key` (times a positive factor)

    def replace(self, **kw):
        n = AV.__new__(AV)
        for s in AV.__slots__:
            setattr(n, s, kw[s] if s in kw else getattr(self, s))
        return n

    # -- accessors
    def has_const(self):
        return self.const is not _NOCONST

    def a(self, atom):
        if self.sign == S_ZERO and self.kind in (K_ARRAY, K_SCALAR, K_BOOL, K_LIST, K_TUPLE):
            return ZERO
        return self.alg.get(atom, CONST)

    def atoms(self):
        return set(self.alg.keys())

    def length(self):
        if self.shape is not None and len(self.shape) >= 1:
            return self.shape[0]
        if self.items is not None:
            return LinExpr(len(self.items))
        return None

    def rank(self):
        return None if self.shape is None else len(self.shape)

    def key(self):
        return (self.kind, self.dtype, self.origin, self.shape, self.sym,
                tuple(sorted(self.alg.items(), key=lambda kv: kv[0])), self.sign, self.mono,
                None if self.const is _NOCONST else repr(self.const), self.expo,
                None if self.items is None else tuple((None if i is None else i.key()) for i in self.items),
                None if self.elem is None else self.elem.key(), self.obj, self.tags, self.indef,
                self.dmust, self.dmay, self.f0, self.ext, self.note if isinstance(self.note, str) and self.note.startswith("acc") else None,
                None if self.dvals is None else tuple(sorted((k, v.key()) for k, v in self.dvals.items())),
                None if self.ref is None else (self.ref[0], str(self.ref[1])))

    def __repr__(self):
        bits = [self.kind]
        if self.dtype != "top":
            bits.append(self.dtype)
        if self.shape is not None:
            bits.append("shape=%r" % (self.shape,))
        if self.sym is not None:
            bits.append("sym=%r" % self.sym)
        if self.alg:
            bits.append("alg={%s}" % ",".join("%s:%s" % (k, alg_str(v)) for k, v in sorted(self.alg.items())))
        if self.sign != S_ANY:
            bits.append("sign=" + self.sign)
        if self.mono:
            bits.append("mono%s" % sorted(self.mono))
        if self.f0:
            bits.append("f0")
        if self.has_const():
            bits.append("const=%r" % (self.const,))
        if self.origin:
            bits.append("origin=%s" % sorted(self.origin))
        if self.tags:
            bits.append("tags=%s" % sorted(self.tags))
        if self.items is not None:
            bits.append("items=%d" % len(self.items))
        if self.obj is not None:
            bits.append("obj#%s" % self.obj)
        if self.indef:
            bits.append("INDEF")
        return "<" + " ".join(bits) + ">"

    def describe(self, atoms=None):
        d = {"kind": self.kind, "dtype": self.dtype}
        if self.shape is not None:
            d["shape"] = [repr(s) if s is not None else "?" for s in self.shape]
        d["alg"] = {k: alg_str(self.a(k)) for k in sorted(atoms or self.alg.keys())}
        d["sign"] = self.sign
        if self.mono:
            d["mono"] = "nondecreasing along axes %s" % sorted(self.mono)
        if self.f0:
            d["first"] = "zero"
        if self.tags:
            d["tags"] = sorted(self.tags)
        if self.indef:
            d["indefinite"] = True
        return d


FRESH = frozenset(["fresh"])
LITERAL = frozenset(["lit"])


def top_av(indef=True, note=None, atoms=()):
    alg = {a: TOP(not indef) for a in atoms}
    return AV(kind=K_TOP, indef=indef, note=note, alg=alg, origin=frozenset(["?"]))


def const_av(v):
    if v is None:
        return AV(kind=K_NONE, const=None, origin=LITERAL)
    if isinstance(v, bool):
        return AV(kind=K_BOOL, dtype="bool", const=v, origin=LITERAL, shape=(),
                  sign=S_POS if v else S_ZERO)
    if isinstance(v, int):
        return AV(kind=K_SCALAR, dtype="int", const=v, origin=LITERAL, shape=(), sym=LinExpr(v),
                  sign=sign_of_number(v), expo=Exp(v))
    if isinstance(v, float):
        fr = to_fraction(v)
        return AV(kind=K_SCALAR, dtype="real", const=v, origin=LITERAL, shape=(),
                  sign=sign_of_number(v), expo=Exp(fr) if fr is not None else None)
    if isinstance(v, complex):
        return AV(kind=K_SCALAR, dtype="complex", const=v, origin=LITERAL, shape=())
    if isinstance(v, str):
        return AV(kind=K_STR, const=v, origin=LITERAL)
    return AV(kind=K_TOP, origin=LITERAL)


def dtype_join(a, b):
    if a == b:
        return a
    order = ["bool", "int", "real", "complex"]
    if a in order and b in order:
        return order[max(order.index(a), order.index(b))]
    return "top"


def shape_join(a, b):
    if a is None or b is None or len(a) != len(b):
        return None
    return tuple(x if (x is not None and x == y) else None for x, y in zip(a, b))


def join_av(a, b):
    """Control-flow join of two abstract values."""
    if a is b:
        return a
    if a is None:
        return b
    if b is None:
        return a
    ka = a.kind
    # X or None (a result that may be absent): X's value, marked optional; `is None` on it is unknown until a test refines it
    if (ka == K_NONE) != (b.kind == K_NONE) and (a if ka != K_NONE else b).kind in (K_TUPLE, K_ARRAY, K_SCALAR, K_LIST):
        x = a if ka != K_NONE else b
        return x.replace(tags=x.tags | frozenset(["maybe-none"]), const=_NOCONST)
    kind = ka if ka == b.kind else K_TOP
    if {ka, b.kind} == {K_SCALAR, K_BOOL}:
        kind = K_SCALAR
    if {ka, b.kind} <= {K_SCALAR, K_ARRAY}:
        kind = K_ARRAY if K_ARRAY in (ka, b.kind) else K_SCALAR
    alg = {}
    for at in set(a.alg) | set(b.alg):
        alg[at] = alg_lub(a.a(at), b.a(at))
    same_const = a.has_const() and b.has_const() and type(a.const) == type(b.const) and a.const == b.const
    items = None
    if a.items is not None and b.items is not None and len(a.items) == len(b.items):
        items = tuple(join_av(x, y) for x, y in zip(a.items, b.items))
    elem = None
    if a.elem is not None or b.elem is not None:
        elem = join_av(a.elem, b.elem)
    dvals = None
    if a.dvals is not None and b.dvals is not None:
        dvals = {}
        for k in set(a.dvals) | set(b.dvals):
            dvals[k] = join_av(a.dvals.get(k), b.dvals.get(k))
    sym = a.sym if (a.sym is not None and a.sym == b.sym) else None
    vset = None
    if kind in (K_SCALAR, K_BOOL) and not same_const:
        def members(x):
            if x.has_const() and isinstance(x.const, (int, bool)) and -4 <= int(x.const) <= 4:
                return frozenset([int(x.const)])
            if isinstance(x.note, tuple) and x.note and x.note[0] == "in":
                return x.note[1]
            return None
        ma, mb = members(a), members(b)
        if ma is not None and mb is not None and len(ma | mb) <= 4:
            vset = ("in", ma | mb)            # a small integer known to be one of a few values (an offset that is 0 or 1)
    if kind == K_LIST and (a.items == () or b.items == ()) and a.note != "range" and b.note != "range":
        # an empty list is trivially ascending: the join keeps the other side's order facts
        full = b if a.items == () else a
        j = AV(kind=kind, dtype=dtype_join(a.dtype, b.dtype), origin=a.origin | b.origin, shape=None, alg=alg,
               sign=sign_join(a.sign, b.sign), mono=full.mono, items=items, elem=elem, tags=a.tags | b.tags,
               indef=a.indef or b.indef, note=full.note)
        return j
    return AV(kind=kind, dtype=dtype_join(a.dtype, b.dtype), origin=a.origin | b.origin,
              shape=shape_join(a.shape, b.shape), sym=sym, alg=alg, sign=sign_join(a.sign, b.sign),
              mono=a.mono & b.mono, f0=a.f0 and b.f0, const=a.const if same_const else _NOCONST,
              expo=a.expo if (a.expo is not None and a.expo == b.expo) else None,
              items=items, elem=elem, obj=a.obj if a.obj == b.obj else None,
              tags=a.tags | b.tags,
              # two paths that produce arrays of provably different shapes (a fast path and its fall-back the engine could not relate): what is
              # derived from the joined value downstream is imprecise, not a fact about the code
              indef=a.indef or b.indef or (kind == K_ARRAY and a.kind == K_ARRAY and b.kind == K_ARRAY and a.shape is not None and
                                           b.shape is not None and tuple(a.shape) != tuple(b.shape)),
              dmust=(a.dmust & b.dmust) if (a.dmust is not None and b.dmust is not None) else None,
              dmay=(a.dmay | b.dmay) if (a.dmay is not None and b.dmay is not None) else None,
              dvals=dvals, ref=_join_ref(a, b, kind), ext=a.ext if a.ext == b.ext else None,
              rel=a.rel if a.rel == b.rel else None, parts=a.parts if a.parts == b.parts else None,
              note=vset if (vset is not None and (a.note == b.note or a.note is None or b.note is None) and
                            not isinstance(a.note, tuple) and not isinstance(b.note, tuple)) or
              (vset is not None and all(isinstance(x.note, tuple) and x.note[:1] == ("in",) or x.has_const() for x in (a, b)))
              else (a.note if a.note == b.note else None))


def _join_ref(a, b, kind):
    """one of a few known callables (a function chosen by a test, an entry of a dispatch table selected by an unknown key)"""
    if a.ref == b.ref:
        return a.ref
    if kind != K_FUNC or a.ref is None or b.ref is None:
        return None
    ms = []
    for r_ in (a.ref, b.ref):
        for m_ in (r_[1] if r_[0] == "set" else (r_,)):
            if not any(m_ is x or m_ == x for x in ms):
                ms.append(m_)
    return ("set", tuple(ms)) if len(ms) <= 6 else None


def weaken_av(v, pc):
    if v is None:
        return None        # an open slice bound held in a slice value
    """Apply implicit-flow weakening by the program-counter class map pc: atom -> Alg."""
    if not pc:
        return v
    alg = dict(v.alg)
    changed = False
    ptags = pc.get("__tags__")
    if ptags and not (ptags <= v.tags):
        v = v.replace(tags=v.tags | ptags)
    for at, c in pc.items():
        if at == "__tags__" or c[0] in ("const", "zero"):
            continue
        old = v.a(at)
        new = alg_weaken(old, c)
        if new != old:
            alg[at] = new
            changed = True
    if not changed:
        return v
    # a value selected under a data-dependent condition is no longer a known constant w.r.t. typing,
    # but its concrete literal (if any) is still what the code assigns on this path.
    items = v.items
    if items is not None:
        items = tuple(weaken_av(i, pc) for i in items)
    elem = weaken_av(v.elem, pc) if v.elem is not None else None
    return v.replace(alg=alg, items=items, elem=elem)


def opaque_sym(op, *parts):
    """Deterministic opaque integer/real identity (global value numbering): same operator on the same symbolic
    operands gives the same atom."""
    return LinExpr("%s[%s]" % (op, ",".join(repr(p) for p in parts)))


# ----------------------------------------------------------------------------- evaluation of extracted index arithmetic
def _parse_linexpr(s):
    """Parse the repr of a LinExpr (sum of [coef*]atom terms and a constant; an atom is a name or op[arg,...] with LinExpr arguments)
    into a small tree: ('sum', [(coef, node), ...], const); node = ('atom', name) | ('op', name, [subtrees])."""
    pos = [0]

    def peek():
        return s[pos[0]] if pos[0] < len(s) else ""

    def number():
        j = pos[0]
        while pos[0] < len(s) and (s[pos[0]].isdigit() or s[pos[0]] in "/."):
            pos[0] += 1
        return Fraction(s[j:pos[0]])

    def name():
        j = pos[0]
        while pos[0] < len(s) and (s[pos[0]].isalnum() or s[pos[0]] in "_$.:#@"):
            pos[0] += 1
        return s[j:pos[0]]

    def atom():
        nm = name()
        if not nm:
            raise ValueError("atom expected at %d in %r" % (pos[0], s))
        if peek() == "[":
            pos[0] += 1
            args = [expr()]
            while peek() == ",":
                pos[0] += 1
                args.append(expr())
            if peek() != "]":
                raise ValueError("] expected")
            pos[0] += 1
            return ("op", nm, args)
        return ("atom", nm)

    def expr():
        terms, const = [], Fraction(0)
        first = True
        while True:
            sign = 1
            if peek() == "+":
                pos[0] += 1
            elif peek() == "-":
                pos[0] += 1
                sign = -1
            elif not first:
                break
            first = False
            if peek().isdigit():
                k = number()
                if peek() == "*":
                    pos[0] += 1
                    terms.append((sign * k, atom()))
                else:
                    const += sign * k
            else:
                terms.append((Fraction(sign), atom()))
            if peek() not in "+-" or peek() == "":
                break
        return ("sum", terms, const)
    t = expr()
    if pos[0] != len(s):
        raise ValueError("trailing text in %r at %d" % (s, pos[0]))
    return t


def eval_linexpr(le, env):
    """Value of a symbolic integer/real expression (LinExpr with opaque operator atoms) for concrete values of its free atoms.  The
    operators are the exact Python/NumPy ones the interpreter recorded (int = truncation toward zero, floordiv, ceil, floor, round = banker's,
    log2, pow, mul, div, max, min).  Raises KeyError for a free atom without a value, ValueError for an operator it does not know."""
    import math

    def ev(t):
        if t[0] == "sum":
            return sum((c * ev(n) for c, n in t[1]), t[2])
        if t[0] == "atom":
            return env[t[1]]
        op, args = t[1], [ev(a) for a in t[2]]
        if op == "mul":
            r = 1
            for a in args:
                r = r * a
            return r
        if op == "div":
            return Fraction(args[0]) / Fraction(args[1]) if all(isinstance(a, (int, Fraction)) for a in args) else args[0] / args[1]
        if op == "int":
            return int(args[0])
        if op == "floordiv":
            return args[0] // args[1]
        if op == "mod":
            return args[0] % args[1]
        if op == "ceil":
            return math.ceil(args[0])
        if op == "floor":
            return math.floor(args[0])
        if op == "round":
            return round(args[0])
        if op == "log2":
            return math.log2(args[0])
        if op == "pow":
            return args[0] ** args[1]
        if op in ("max", "maximum"):
            return max(args)
        if op in ("min", "minimum"):
            return min(args)
        if op == "abs":
            return abs(args[0])
        raise ValueError("operator %s" % op)
    return ev(_parse_linexpr(repr(LinExpr(le))))


def free_atoms(le):
    out = set()

    def walk(t):
        if t[0] == "sum":
            for _, n in t[1]:
                walk(n)
        elif t[0] == "atom":
            out.add(t[1])
        else:
            for a in t[2]:
                walk(a)
    walk(_parse_linexpr(repr(LinExpr(le))))
    return out


def compare_index_exprs(a, b, samples=None):
    """('equal', None) when the two symbolic integers are the same expression; ('differ', witness) when evaluating both for some value
    of the free atoms gives different integers (constant folding of the two extracted expressions -- no repository code runs);
    ('unknown', reason) otherwise."""
    a, b = LinExpr(a), LinExpr(b)
    if a == b:
        return "equal", None
    try:
        fa = free_atoms(a) | free_atoms(b)
    except ValueError as ex:
        return "unknown", str(ex)
    if len(fa) > 2:
        return "unknown", "more than two free quantities: %s" % sorted(fa)
    fa = sorted(fa)
    grid = samples or list(range(1, 70)) + [100, 127, 128, 129, 255, 256, 257, 1000, 1023, 1024, 1025, 4683, 4684]
    import itertools
    tried = 0
    for vals in itertools.product(grid, repeat=len(fa)):
        env = dict(zip(fa, vals))
        try:
            va, vb = eval_linexpr(a, env), eval_linexpr(b, env)
        except (ValueError, KeyError, ZeroDivisionError, OverflowError, TypeError) as ex:
            return "unknown", "%s" % ex
        tried += 1
        if va != vb:
            return "differ", "%s: %s vs %s" % (", ".join("%s=%s" % kv for kv in env.items()), va, vb)
        if tried > 6000:
            break
    return "unknown", "equal on %d sampled values, not proved equal" % tried


def linexpr_from_repr(s):
    """The LinExpr whose repr is `s` (inverse of LinExpr.__repr__ for the value-numbered expressions the interpreter builds)."""
    def build(t):
        if t[0] == "sum":
            d = {}
            for c, n in t[1]:
                nm = name(n)
                d[nm] = d.get(nm, 0) + c
            return LinExpr(d, t[2])
        raise ValueError("not a sum")

    def name(n):
        if n[0] == "atom":
            return n[1]
        return "%s[%s]" % (n[1], ",".join(repr(build(a)) for a in n[2]))
    return build(_parse_linexpr(s))


def split_product(sym, factor):
    """X when the symbolic value is exactly mul[X, factor] (either order), else None"""
    sym = LinExpr(sym)
    if len(sym.t) != 1 or sym.c != 0 or sym.t[0][1] != 1 or not sym.t[0][0].startswith("mul["):
        return None
    t = _parse_linexpr(sym.t[0][0])
    node = t[1][0][1]
    if node[0] != "op" or node[1] != "mul" or len(node[2]) != 2:
        return None
    args = [linexpr_from_repr_tree(a) for a in node[2]]
    f = LinExpr(factor)
    if args[1] == f:
        return args[0]
    if args[0] == f:
        return args[1]
    return None


def linexpr_from_repr_tree(t):
    def name(n):
        if n[0] == "atom":
            return n[1]
        return "%s[%s]" % (n[1], ",".join(repr(linexpr_from_repr_tree(a)) for a in n[2]))
    d = {}
    for c, n in t[1]:
        nm = name(n)
        d[nm] = d.get(nm, 0) + c
    return LinExpr(d, t[2])

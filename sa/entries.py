"""Builders for abstract entry arguments (records, time steps, signal objects)."""
from .values import *  # noqa
from .values import _NOCONST
from .interp import Interp, State, Obj

R, DT = "R", "DT"


def rec_array(name, atom=R, n="n", dtype="real", alg=None, extra_tags=(), shape=None, sign=S_ANY):
    return AV(kind=K_ARRAY, dtype=dtype, origin=frozenset(["p:" + name]),
              shape=shape if shape is not None else (LinExpr(n),),
              alg=alg if alg is not None else {atom: LIN}, sign=sign, tags=frozenset(["p:" + name]) | frozenset(extra_tags))


def pos_scalar(name, atom=None, dtype="real", sym=None):
    return AV(kind=K_SCALAR, dtype=dtype, shape=(), origin=frozenset(["lit"]), sign=S_POS,
              alg={atom: HOM(1, "even")} if atom else {}, tags=frozenset(["p:" + name]), sym=sym, note="pyscalar")


def any_scalar(name, dtype="real", sign=S_ANY, atom=None, alg=None, expo=None):
    return AV(kind=K_SCALAR, dtype=dtype, shape=(), origin=frozenset(["lit"]), sign=sign,
              alg=alg if alg is not None else ({atom: LIN} if atom else {}), tags=frozenset(["p:" + name]),
              note="pyscalar", expo=expo)


def int_scalar(name, sym=None, sign=S_NONNEG):
    return AV(kind=K_SCALAR, dtype="int", shape=(), origin=frozenset(["lit"]), sign=sign,
              sym=LinExpr(sym) if sym is not None else LinExpr(fresh_atom("$" + name)), tags=frozenset(["p:" + name]),
              note="pyscalar")


def const_array(name, n, sign=S_ANY, mono=False, dtype="real", kind=K_ARRAY):
    return AV(kind=kind, dtype=dtype, origin=frozenset(["p:" + name]), shape=(LinExpr(n),), sign=sign,
              mono=frozenset([0]) if mono else frozenset(), tags=frozenset(["p:" + name]))


def unknown_bool(name):
    return AV(kind=K_BOOL, dtype="bool", shape=(), tags=frozenset(["p:" + name]))


def make_signal(I, state, cls, name="asig", atom=R, dt_atom=DT, n="n", flags="cold", values=None, periods_n="P",
                is_param=True, values_alg=None):
    """An abstract Signal/AccSignal in a generic consistent state.

    flags: 'cold' (nothing cached: getters recompute) or 'unknown' (each flag may be either)."""
    o = I.new_obj(state, cls, site="param:" + name, is_param=is_param, label=name)
    vals = values if values is not None else rec_array(name + ".values", atom=atom, n=n, alg=values_alg)
    if not is_param and values is None:
        vals = vals.replace(origin=frozenset(["o%d._values" % o.id]))
    o.attrs["_values"] = vals
    o.attrs["_dt"] = pos_scalar(name + ".dt", dt_atom, sym=LinExpr("dt"))
    o.attrs["_npts"] = AV(kind=K_SCALAR, dtype="int", shape=(), sym=vals.shape[0] if vals.shape else None,
                          sign=S_POS, origin=frozenset(["lit"]), tags=frozenset(["p:%s.npts" % name]))
    o.attrs["label"] = AV(kind=K_STR, tags=frozenset(["p:%s.label" % name]))
    o.attrs["verbose"] = AV(kind=K_SCALAR, dtype="int", shape=(), tags=frozenset(["p:%s.verbose" % name]))
    o.attrs["ccbox"] = AV(kind=K_SCALAR, dtype="int", shape=())
    o.attrs["_smooth_fa_freqs"] = AV(kind=K_ARRAY, dtype="real", shape=(LinExpr("F"),), sign=S_POS,
                                     origin=frozenset(["o%d._smooth_fa_freqs" % o.id]),
                                     tags=frozenset(["p:%s.smooth_fa_freqs" % name]))
    o.attrs["_smooth_freq_range"] = AV(kind=K_ARRAY, dtype="real", shape=(LinExpr(2),), sign=S_POS,
                                       origin=frozenset(["o%d._smooth_freq_range" % o.id]))
    fl = (lambda: const_av(False)) if flags == "cold" else (lambda: AV(kind=K_BOOL, dtype="bool", shape=()))
    names = set()
    for c in cls.mro():
        for a in c.class_attrs:
            if a.startswith("_cached_"):
                names.add(a)
    names |= {"_cached_fa", "_cached_smooth_fa"}
    is_acc = any(c.name == "AccSignal" for c in cls.mro())
    if is_acc:
        names |= {"_cached_response_spectra", "_cached_disp_and_velo"}
    for a in names:
        o.attrs[a] = fl()
    shapes = {"_velocity": (LinExpr(n),), "_displacement": (LinExpr(n),), "_s_a": (LinExpr(periods_n),),
              "_s_v": (LinExpr(periods_n),), "_s_d": (LinExpr(periods_n),), "_smooth_fa_spectrum": (LinExpr("F"),)}
    stale = lambda nm: AV(kind=K_ARRAY, dtype="top", shape=shapes.get(nm), origin=frozenset(["o%d.%s" % (o.id, nm)]),
                          tags=frozenset(["stored:" + nm]), alg={atom: TOPI, dt_atom: TOPI}, indef=True)
    for nm in ("_fa_spectrum", "_fa_freqs", "_smooth_fa_spectrum"):
        o.attrs[nm] = stale(nm)
    if is_acc:
        o.attrs["response_times"] = AV(kind=K_ARRAY, dtype="real", shape=(LinExpr(periods_n),), sign=S_NONNEG,
                                       origin=frozenset(["o%d.response_times" % o.id]),
                                       tags=frozenset(["p:%s.response_times" % name]))
        if "_response_times" in _class_attr_names(cls) or _has_prop(cls, "response_times"):
            o.attrs["_response_times"] = o.attrs.pop("response_times")
        o.attrs["_cached_xi"] = AV(kind=K_SCALAR, dtype="real", shape=(), sign=S_NONNEG, origin=frozenset(["lit"]))
        o.attrs["_cached_params"] = AV(kind=K_DICT, dvals={}, dmust=frozenset(),
                                       dmay=frozenset() if flags == "cold" else None,
                                       origin=frozenset(["o%d._cached_params" % o.id]))
        for nm in ("_velocity", "_displacement", "_s_a", "_s_v", "_s_d"):
            o.attrs[nm] = stale(nm)
        for nm in ("t_b01", "t_b05", "t_b10", "a_rms01", "a_rms05", "a_rms10", "t_595", "sd_start", "sd_end",
                   "arias_intensity"):
            o.attrs[nm] = AV(kind=K_SCALAR, dtype="real", shape=())
    for k, v in list(o.attrs.items()):
        o.attrs[k] = v.replace(tags=v.tags | frozenset(["attr:" + k]))
    return o, I.obj_av(o)


def _class_attr_names(cls):
    out = set()
    for c in cls.mro():
        out |= set(c.class_attrs)
    return out


def _has_prop(cls, name):
    return cls.find_property(name) is not None


def generalise_defaults(I, fi, bound, explicit=()):
    """Option parameters take any value of their default's kind (None defaults: anything), not the default itself."""
    for p in fi.defaults:
        if p in explicit:
            continue
        dv = I.ev_default(fi, fi.defaults[p])
        if dv.kind in (K_NONE, K_TOP, K_TUPLE):
            bound[p] = AV(kind=K_TOP, shape=None, origin=frozenset(["p:" + p]), tags=frozenset(["p:" + p]))
        else:
            bound[p] = dv.replace(const=_NOCONST, sym=None, expo=None, sign=S_ANY, tags=frozenset(["p:" + p]))
    return bound

"""Whole-package sweep: interpret every function and method once with generic abstract arguments."""
import ast

from .interp import Interp, State, Frame
from .entries import make_signal, rec_array, pos_scalar, R, DT, generalise_defaults
from .autoargs import auto_args
from .values import *  # noqa

SIG = "eqsig.single.Signal"
ACC = "eqsig.single.AccSignal"


def make_cluster(I, st, P, stype):
    ci = P.cls("eqsig.multiple.Cluster")
    init = ci.find_method("__init__")
    fr = Frame(init, st, I)
    node = ast.parse("Cluster(v, d)").body[0].value
    vals = AV(kind=K_ARRAY, dtype="real", shape=(LinExpr("S"), LinExpr("n")), origin=frozenset(["p:cluster_values"]),
              alg={R: LIN}, tags=frozenset(["p:cluster_values"]))
    oav = I.instantiate(fr, ci, [vals, pos_scalar("dt", DT)], {"stypes": const_av(stype)}, node)
    return st.heap[oav.obj], oav


def sweep(P, chk=None, flags="unknown", generalise=True):
    """Yields (fi, receiver label, Interp, State, self_obj) for every function / method x receiver class."""
    sigs = {P.cls(SIG), P.cls(ACC)}
    for fi in P.all_functions():
        if fi.name.startswith("__"):
            continue
        recv = [None]
        if fi.cls is not None:
            if any(fi.cls.is_subclass_of(c) for c in sigs):
                recv = [c for c in sorted(sigs, key=lambda c: c.name) if c.is_subclass_of(fi.cls)]
            elif fi.cls.name == "Cluster":
                recv = ["cluster:acc", "cluster:custom"]
            else:
                continue
        for rc in recv:
            I = Interp(P)
            I.atoms = {R, DT}
            st = State()
            pos = []
            self_obj = None
            if rc is not None and not isinstance(rc, str):
                self_obj, oav = make_signal(I, st, rc, name="self", flags=flags, is_param=False)
                pos = [oav]
            elif isinstance(rc, str):
                self_obj, oav = make_cluster(I, st, P, rc.split(":")[1])
                pos = [oav]
                I.events = []
            args = auto_args(I, st, fi, P, flags=flags)
            bound = I.bind(fi, pos, args, None, None)
            if generalise:
                generalise_defaults(I, fi, bound, explicit=set(args))
            if fi.kwarg:
                bound[fi.kwarg] = AV(kind=K_DICT, dvals={}, dmust=frozenset(), dmay=None)
            I.run(fi, bound, st, self_obj=self_obj)
            if chk is not None:
                chk.absorb_interp(I)
                chk.files.add(fi.module.relpath)
            label = fi.qualname.split(".", 1)[1] + ("" if rc is None or isinstance(rc, str) else "@" + rc.name)
            yield fi, label, I, st, self_obj

"""Recognised idioms whose type the component-wise domains cannot derive.

absolute maximum of an array X (even in X although built from the odd min/max):
    A   max(abs(min X), max X)          (any argument order, abs|np.abs, builtin|np.|method min/max)
    A'  max(-min X, max X)
    B   abs(np.where(-MIN > MAX, MIN, MAX))   (and the mirrored comparisons / swapped branches)
An unknown form is simply not upgraded (its parity stays 'none').
"""
import ast

from .values import *  # noqa


def _inline(fi):
    """Return expression of a straight-line function with single-assignment locals inlined, or None."""
    env = {}
    ret = None
    body = list(fi.node.body)
    for k, st in enumerate(body):
        # `if A > B: return A` followed by `return B` (or as if/else, or with < and the returns swapped) is `return max(A, B)`
        if isinstance(st, ast.If) and isinstance(st.test, ast.Compare) and len(st.test.ops) == 1 and \
                isinstance(st.test.ops[0], (ast.Gt, ast.GtE, ast.Lt, ast.LtE)) and len(st.body) == 1 and isinstance(st.body[0], ast.Return):
            other = st.orelse[0] if (len(st.orelse) == 1 and isinstance(st.orelse[0], ast.Return)) else \
                (body[k + 1] if (not st.orelse and k + 1 < len(body) and isinstance(body[k + 1], ast.Return)) else None)
            if other is not None and st.body[0].value is not None and other.value is not None:
                l, r_ = _subst(st.test.left, env), _subst(st.test.comparators[0], env)
                x, y = _subst(st.body[0].value, env), _subst(other.value, env)
                big, small = (l, r_) if isinstance(st.test.ops[0], (ast.Gt, ast.GtE)) else (r_, l)
                if ast.dump(x) == ast.dump(big) and ast.dump(y) == ast.dump(small):
                    return ast.Call(func=ast.Name(id="max", ctx=ast.Load()), args=[l, r_], keywords=[])
            return None
        if isinstance(st, ast.Expr) and isinstance(st.value, ast.Constant):
            continue
        if isinstance(st, ast.Expr) and isinstance(st.value, ast.Call):
            continue  # e.g. deprecation(...)
        if isinstance(st, ast.Assign) and len(st.targets) == 1 and isinstance(st.targets[0], ast.Name):
            if st.targets[0].id in env:
                return None
            env[st.targets[0].id] = _subst(st.value, env)
            continue
        if isinstance(st, ast.Return) and st.value is not None:
            ret = _subst(st.value, env)
            break
        return None
    return ret


class _Sub(ast.NodeTransformer):
    def __init__(self, env):
        self.env = env

    def visit_Name(self, n):
        if isinstance(n.ctx, ast.Load) and n.id in self.env:
            return self.env[n.id]
        return n


def _subst(e, env):
    import copy
    return _Sub(env).visit(copy.deepcopy(e))


def _callname(c):
    f = c.func
    if isinstance(f, ast.Name):
        return f.id
    if isinstance(f, ast.Attribute):
        return f.attr
    return None


def _is_abs(e):
    return isinstance(e, ast.Call) and _callname(e) in ("abs", "absolute", "fabs") and len(e.args) == 1


def _ext(e):
    """('min'|'max', X-dump, rest-args-dump) for min(X) / np.min(X, axis) / X.min(axis)"""
    if not isinstance(e, ast.Call):
        return None
    n = _callname(e)
    if n not in ("min", "max", "amin", "amax"):
        return None
    kind = "min" if "min" in n else "max"
    if isinstance(e.func, ast.Attribute) and not (isinstance(e.func.value, ast.Name) and e.func.value.id in ("np", "numpy")):
        x = e.func.value
        rest = e.args
    else:
        if not e.args:
            return None
        x = e.args[0]
        rest = e.args[1:]
    return kind, ast.dump(x), tuple(ast.dump(a) for a in rest) + tuple(sorted((k.arg or "", ast.dump(k.value)) for k in e.keywords)), x


def _neg(e):
    if isinstance(e, ast.UnaryOp) and isinstance(e.op, ast.USub):
        return e.operand
    return None


def _all_returns(fi):
    """Every returned expression of a function made of assignments to locals, tests and returns only (fast paths with a fall-back), each with
    the locals assigned on its own path inlined; None when the body has any other kind of statement."""
    out = []

    def walk(block, env):
        env = dict(env)
        for st in block:
            if isinstance(st, ast.Expr) and isinstance(st.value, (ast.Constant, ast.Call)):
                continue
            if isinstance(st, ast.Assign) and len(st.targets) == 1 and isinstance(st.targets[0], ast.Name):
                env[st.targets[0].id] = _subst(st.value, env)
                continue
            if isinstance(st, ast.If):
                if not walk(st.body, env) or not walk(st.orelse, env):
                    return False
                continue
            if isinstance(st, ast.Return) and st.value is not None:
                out.append(_subst(st.value, env))
                return True
            return False
        return True
    return out if (walk(fi.node.body, {}) and out) else None


def absmax_operand(fi):
    """Name of the parameter whose absolute maximum fi returns (by a recognised idiom) on every path, else None."""
    e = _inline(fi)
    if e is None:
        rs = _all_returns(fi)
        if not rs or len(rs) < 2:
            return None
        ops = [_absmax_of(r_, fi) for r_ in rs]
        return ops[0] if (ops[0] is not None and all(o == ops[0] for o in ops)) else None
    return _absmax_of(e, fi)


def _absmax_of(e, fi):
    x = None
    # A / A'
    if isinstance(e, ast.Call) and _callname(e) in ("max", "maximum") and len(e.args) == 2 and not e.keywords:
        a, b = e.args
        for p, q in ((a, b), (b, a)):
            inner = p.args[0] if _is_abs(p) else _neg(p)
            if inner is None:
                continue
            mn, mx = _ext(inner), _ext(q.args[0] if (_is_abs(q) and _is_abs(p)) else q)       # max(|min|, |max|) is the same number
            if mn and mx and mn[0] == "min" and mx[0] == "max" and mn[1:3] == mx[1:3]:
                x = mn[3]
    # B
    if x is None and _is_abs(e):
        w = e.args[0]
        if isinstance(w, ast.Call) and _callname(w) == "where" and len(w.args) == 3 and isinstance(w.args[0], ast.Compare) \
                and len(w.args[0].ops) == 1:
            c, t, f = w.args
            l, r, op = c.left, c.comparators[0], c.ops[0]
            if isinstance(op, (ast.Lt, ast.LtE)):
                l, r = r, l
                op = ast.Gt()
            if isinstance(op, (ast.Gt, ast.GtE)):
                # forms: -MIN > MAX ? MIN : MAX      |     MAX > -MIN ? MAX : MIN
                for neg_side, other, when_true in ((l, r, "min"), (r, l, "max")):
                    inner = _neg(neg_side)
                    if inner is None:
                        continue
                    mn, mx = _ext(inner), _ext(other)
                    if not (mn and mx and mn[0] == "min" and mx[0] == "max" and mn[1:3] == mx[1:3]):
                        continue
                    et, ef = _ext(t), _ext(f)
                    if et and ef and et[1:3] == mn[1:3] and ef[1:3] == mn[1:3]:
                        if (when_true == "min" and et[0] == "min" and ef[0] == "max") or \
                                (when_true == "max" and et[0] == "max" and ef[0] == "min"):
                            x = mn[3]
    if x is not None and isinstance(x, ast.Name) and x.id in fi.params:
        return x.id
    return None


_cache = {}


def post_call(I, fi, bound, ret):
    """Upgrade the abstract result of a call by a recognised idiom."""
    key = id(fi.node)
    if key not in _cache:
        try:
            _cache[key] = absmax_operand(fi)
        except Exception:
            _cache[key] = None
    p = _cache[key]
    if p is None or p not in bound or ret is None or ret.kind not in (K_SCALAR, K_ARRAY):
        return ret
    arg = bound[p]
    alg = dict(ret.alg)
    changed = False
    for at in set(alg) | arg.atoms():
        a = arg.a(at)
        h = hom_form(a)
        cur = ret.a(at)
        if h is not None and h[1] in ("even", "odd") and cur[0] == "hom" and cur[2] == "none" and cur[1] == h[0]:
            alg[at] = HOM(h[0], "even")
            changed = True
    if not changed:
        return ret
    I.emit("idiom", None, None, what="absolute-maximum idiom", callee=fi.qualname)
    return ret.replace(alg=alg, sign=S_NONNEG if ret.sign == S_ANY else ret.sign, tags=ret.tags | frozenset(["absmax"]))

"""Generic abstract arguments by parameter name (frozen receiver / role tables, confirmed by reading)."""
from .values import *  # noqa
from .entries import *  # noqa

SIGNAL_PARAMS = {"asig", "acc_sig", "acc_signal", "sig", "signal", "new_signal", "acc_sig_ns", "acc_sig_we",
                 "slave_signal", "asig1", "asig2"}
# (function qualname, param) -> role, where the bare name is ambiguous
OVERRIDES = {
    ("eqsig.fns.average.get_section_average", "series"): "signal",
    ("eqsig.single.Signal.add_series", "series"): "record",
    ("eqsig.fns.peaks_and_crossings.get_switched_peak_indices", "asig"): "signal",
}
RECORD_PARAMS = {"values", "motion", "acc", "acceleration", "values0", "values1", "fas1_smooth", "pvals", "zvals",
                 "series", "new_values", "vals", "y", "fa_spectrum", "a"}
CPLX_RECORD_PARAMS = {"fas", "stock", "tifq_values"}
REAL_2D_PARAMS = {"tifq_vals"}
DT_PARAMS = {"dt", "step"}
PERIOD_PARAMS = {"periods", "response_times", "period"}
SCALAR_PARAMS = {"constant", "xi", "threshold", "ratio", "band", "a_ref", "n_cyc", "cut_off_ratio", "angle",
                 "width", "freq_window", "f_ch", "target_dt", "tol", "stt", "omega", "t0", "duration", "z_factor",
                 "r_factor", "n_factor", "displacement", "s2s_travel_time"}
CONST_ARRAYS = {"fa_frequencies": "Fq", "smooth_fa_frequencies": "F", "smooth_fa_freqs": "F", "freqs": "F",
                "frequencies": "F", "travel_times": "TT", "surf2depth_travel_times": "TT", "shifts": "K",
                "time_shifts": "K", "xf": "XF", "x": "X", "x0": "X0", "limits": 2, "xis": "XI"}


def auto_args(I, state, fi, P, flags="cold", skip_self=True, sig_cls="eqsig.single.AccSignal"):
    args = {}
    params = list(fi.params)
    if fi.cls is not None and params and skip_self:
        params = params[1:]
    nrec = 0
    for p in params + list(fi.kwonly):
        role = OVERRIDES.get((fi.qualname, p))
        if role is None:
            if p in SIGNAL_PARAMS:
                role = "signal"
            elif p in RECORD_PARAMS:
                role = "record"
            elif p in CPLX_RECORD_PARAMS:
                role = "crecord"
            elif p in REAL_2D_PARAMS:
                role = "record2d"
            elif p in DT_PARAMS:
                role = "dt"
            elif p in PERIOD_PARAMS:
                role = "periods"
            elif p in CONST_ARRAYS:
                role = "carray"
        if role == "signal":
            o, av = make_signal(I, state, P.cls(sig_cls), name=p, flags=flags, n="n")
            args[p] = av
        elif role == "record":
            args[p] = rec_array(p, n="n")
            nrec += 1
        elif role == "record2d":
            args[p] = rec_array(p, shape=(LinExpr("m"), LinExpr("n")))
        elif role == "crecord":
            args[p] = rec_array(p, n="m", dtype="complex", shape=(LinExpr("m"), LinExpr("n")) if p != "fas" else None)
        elif role == "dt":
            args[p] = pos_scalar(p, DT)
        elif role == "periods":
            args[p] = AV(kind=K_ARRAY, dtype="real", origin=frozenset(["p:" + p]), shape=(LinExpr("P"),), sign=S_NONNEG,
                         tags=frozenset(["p:" + p]))
        elif role == "carray":
            n = CONST_ARRAYS[p]
            args[p] = AV(kind=K_ARRAY, dtype="real", origin=frozenset(["p:" + p]),
                         shape=(LinExpr(n),), tags=frozenset(["p:" + p]))
        elif p in SCALAR_PARAMS and p not in fi.defaults:
            args[p] = AV(kind=K_SCALAR, dtype="real", shape=(), origin=frozenset(["lit"]), tags=frozenset(["p:" + p]),
                         note="pyscalar")
        elif p in fi.defaults:
            continue  # bound from the literal default
        else:
            args[p] = AV(kind=K_TOP, origin=frozenset(["p:" + p]), tags=frozenset(["p:" + p]), shape=None)
    return args

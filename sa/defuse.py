"""Small def-use helpers on the syntax tree (no values involved)."""
import ast


def _loads(node):
    return {n.id for n in ast.walk(node) if isinstance(n, ast.Name) and isinstance(n.ctx, ast.Load)}


def _stores(node):
    return {n.id for n in ast.walk(node) if isinstance(n, ast.Name) and isinstance(n.ctx, ast.Store)}


def upward_exposed(stmts, defs):
    """(names read before being definitely assigned in this block, names definitely assigned at its end, does control flow out normally)"""
    exposed = set()
    defs = set(defs)
    for st in stmts:
        if isinstance(st, (ast.Continue, ast.Break)):
            return exposed, defs, False
        if isinstance(st, (ast.Return, ast.Raise)):
            if getattr(st, "value", None) is not None:
                exposed |= _loads(st.value) - defs
            if getattr(st, "exc", None) is not None:
                exposed |= _loads(st.exc) - defs
            return exposed, defs, False
        if isinstance(st, ast.Assign):
            exposed |= _loads(st.value) - defs
            for t in st.targets:
                if not isinstance(t, ast.Name):
                    exposed |= _loads(t) - defs
            for t in st.targets:
                defs |= {n.id for n in ([t] if isinstance(t, ast.Name) else (t.elts if isinstance(t, (ast.Tuple, ast.List)) else [])) if isinstance(n, ast.Name)}
        elif isinstance(st, ast.AugAssign):
            exposed |= (_loads(st.value) | _loads(st.target) | ({st.target.id} if isinstance(st.target, ast.Name) else set())) - defs
            if isinstance(st.target, ast.Name):
                defs.add(st.target.id)
        elif isinstance(st, ast.AnnAssign):
            if st.value is not None:
                exposed |= _loads(st.value) - defs
                if isinstance(st.target, ast.Name):
                    defs.add(st.target.id)
        elif isinstance(st, ast.If):
            exposed |= _loads(st.test) - defs
            e1, d1, f1 = upward_exposed(st.body, defs)
            e2, d2, f2 = upward_exposed(st.orelse, defs)
            exposed |= e1 | e2
            if f1 and f2:
                defs = d1 & d2
            elif f1:
                defs = d1
            elif f2:
                defs = d2
            else:
                return exposed, defs, False
        elif isinstance(st, (ast.For, ast.While)):
            exposed |= _loads(st.iter if isinstance(st, ast.For) else st.test) - defs
            inner = set(defs)
            if isinstance(st, ast.For):
                inner |= _stores(st.target)
            e, d, f = upward_exposed(st.body, inner)
            exposed |= e
            e2, d2, f2 = upward_exposed(st.orelse, defs)
            exposed |= e2
        elif isinstance(st, ast.Try):
            e, d, f = upward_exposed(st.body, defs)
            exposed |= e
            for h in st.handlers:
                eh, dh, fh = upward_exposed(h.body, defs)
                exposed |= eh
            ef, df, ff = upward_exposed(st.finalbody, defs)
            exposed |= ef
        elif isinstance(st, ast.With):
            for it in st.items:
                exposed |= _loads(it.context_expr) - defs
                if it.optional_vars is not None:
                    defs |= _stores(it.optional_vars)
            e, d, f = upward_exposed(st.body, defs)
            exposed |= e
            defs = d
            if not f:
                return exposed, defs, False
        else:
            exposed |= _loads(st) - defs
    return exposed, defs, True


def loop_carried(loop):
    """names whose value can flow from one iteration of `loop` into the next (read before definitely assigned, and assigned in the body)"""
    own = _stores(loop.target) if isinstance(loop, ast.For) else set()
    exposed, _, _ = upward_exposed(loop.body, own)
    written = set()
    for st in loop.body:
        written |= _stores(st)
    return sorted((exposed & written) - own)

"""Operators, builtins and the NumPy/SciPy API table (the trusted base).

Each handler states, for one library entry point: aliasing (fresh / view), mutation, kind/dtype,
shape transformer, algebraic class transformer (linear / homogeneous / ordering ...), sign, monotone
and quadrature tags.  Handlers never touch concrete data.
"""
import ast
import math
import itertools

from .values import *  # noqa
from .values import _NOCONST

ONE = LinExpr(1)
ND_ATTRS = {"T", "shape", "dtype", "real", "imag", "size", "ndim", "flat"}
NUMERIC = (K_ARRAY, K_SCALAR, K_BOOL)
_unk = itertools.count(1000)


def unknown_exp():
    return Exp({next(_unk): 1})


# ----------------------------------------------------------------------------- helpers
def as_num(av):
    """View lists/tuples of numbers as arrays for typing (NumPy coerces them)."""
    if av.kind in (K_LIST, K_TUPLE):
        if av.note == "range":
            return av.replace(kind=K_ARRAY, dtype="int")
        items = av.items
        e = None
        if items is not None:
            for i in items:
                e = join_av(e, as_num(i))
        elif av.elem is not None:
            e = as_num(av.elem)
        if e is None:
            if items is not None and len(items) == 0:
                return AV(kind=K_ARRAY, dtype="real", shape=(LinExpr(0),), origin=av.origin, tags=av.tags)
            return AV(kind=K_ARRAY, shape=None, origin=av.origin, tags=av.tags, indef=av.indef,
                      alg=dict(av.alg))
        n = LinExpr(len(items)) if items is not None else (av.shape[0] if av.shape else None)
        sub = e.shape if (e.kind in NUMERIC and e.shape is not None) else (() if e.kind in (K_SCALAR, K_BOOL) else None)
        shape = ((n,) + tuple(sub)) if sub is not None else None
        alg = dict(e.alg)
        for at in av.alg:
            alg[at] = alg_lub(alg.get(at, CONST), av.alg[at]) if at in alg else av.alg[at]
        return AV(kind=K_ARRAY, dtype=e.dtype, shape=shape, alg=alg, sign=e.sign, origin=av.origin,
                  tags=av.tags | e.tags, indef=av.indef or e.indef, mono=av.mono)
    return av


def is_numeric(av):
    return av.kind in NUMERIC or av.kind == K_TOP


def bshape(a, b):
    if a is None or b is None:
        return None
    n = max(len(a), len(b))
    a = (ONE,) * (n - len(a)) + tuple(a)
    b = (ONE,) * (n - len(b)) + tuple(b)
    out = []
    for x, y in zip(a, b):
        if x is not None and x == ONE:
            out.append(y)
        elif y is not None and y == ONE:
            out.append(x)
        elif x is None or y is None:
            out.append(x if x is not None else y)
        elif x == y:
            out.append(x)
        else:
            out.append(None)
    return tuple(out)


def alg2(l, r, f):
    out = {}
    for at in l.atoms() | r.atoms():
        out[at] = f(l.a(at), r.a(at))
    return out


def alg1(v, f):
    return {at: f(v.a(at)) for at in v.atoms()}


def alg_lub_many(avs):
    out = {}
    ats = set()
    for v in avs:
        ats |= v.atoms()
    for at in ats:
        c = None
        for v in avs:
            c = v.a(at) if c is None else alg_lub(c, v.a(at))
        out[at] = c
    return out


def alg_weaken_by(alg, base, sel):
    """weaken base's classes by selector sel (index / mask)."""
    out = dict(alg)
    for at in set(alg) | sel.atoms():
        out[at] = alg_weaken(out.get(at, CONST) if base is None else base.a(at) if at not in alg else alg[at],
                             sel.a(at))
    return out


def tags_of(*avs):
    t = frozenset()
    for v in avs:
        if v is not None:
            t |= v.tags
    return t


def indef_of(*avs):
    return any(v is not None and v.indef for v in avs)


def fresh_tok(I, fr, node):
    return frozenset([I.alloc_tok(fr, node)])


def result_kind(shape, *avs):
    if shape == ():
        return K_SCALAR
    if shape is None:
        if all(v.kind in (K_SCALAR, K_BOOL) for v in avs):
            return K_SCALAR
        if any(v.kind == K_ARRAY for v in avs):
            return K_ARRAY
        return K_TOP
    return K_ARRAY


def const_num(av):
    if av.has_const() and isinstance(av.const, (int, float)) and not isinstance(av.const, bool):
        return av.const
    if av.has_const() and isinstance(av.const, bool):
        return int(av.const)
    return None


def int_const(av):
    c = const_num(av)
    if c is not None and float(c).is_integer():
        return int(c)
    return None


def axes_all(shape):
    return frozenset(range(len(shape))) if shape is not None else frozenset()


# ----------------------------------------------------------------------------- operators
def negate(v):
    v = as_num(v) if v.kind in (K_LIST, K_TUPLE) else v
    c = _NOCONST
    if const_num(v) is not None:
        c = -v.const
    return v.replace(note=("neg-of", v.sign) if v.kind == K_SCALAR else None,
                     sign=sign_neg(v.sign), const=c, mono=frozenset(), sym=(-v.sym) if v.sym is not None else None,
                     expo=(-v.expo) if v.expo is not None else None,
                     origin=frozenset(["lit"]) if v.kind == K_SCALAR else frozenset(["a@neg"]))


def _fold(op, a, b):
    try:
        if isinstance(op, ast.Add):
            return a + b
        if isinstance(op, ast.Sub):
            return a - b
        if isinstance(op, ast.Mult):
            return a * b
        if isinstance(op, ast.Div):
            return a / b
        if isinstance(op, ast.FloorDiv):
            return a // b
        if isinstance(op, ast.Mod):
            return a % b
        if isinstance(op, ast.Pow):
            if abs(b) > 64 or abs(a) > 1e6:
                return None
            r = a ** b
            return None if isinstance(r, complex) else r
    except Exception:
        return None
    return None


def _ap_binop(op, l, r):
    """arithmetic progressions: ("ap", slope, first, rest) is the 1-D array with element 0 = first and element k>=1 = slope*k + rest;
    ("ap-tail", slope, rest) its elements k>=1.  Closed under * / by and + - of a constant scalar."""
    for a, k, swapped in ((l, r, False), (r, l, True)):
        if isinstance(a.parts, tuple) and a.parts and a.parts[0] == "ap-tail-k" and k.shape == () and k.has_const() and \
                isinstance(k.const, (int, float)) and not isinstance(k.const, bool) and (isinstance(op, ast.Add) or (isinstance(op, ast.Sub) and not swapped)):
            # elements k.. of a progression, shifted by a constant
            return ("ap-tail-k", a.parts[1], a.parts[2], a.parts[3] + (k.const if isinstance(op, ast.Add) else -k.const))
        if isinstance(a.parts, tuple) and a.parts and a.parts[0] == "ap" and a.parts[1] != 0 and swapped and isinstance(op, ast.Div) and \
                k.shape == () and k.has_const() and isinstance(k.const, (int, float)) and not isinstance(k.const, bool) and k.const != 0:
            return ("non-ap", "a constant divided by an arithmetic progression (c / (a*k + b)): not a progression")
        if isinstance(a.parts, tuple) and a.parts and a.parts[0] in ("ap", "ap-tail") and k.shape == () and k.has_const() and \
                isinstance(k.const, (int, float)) and not isinstance(k.const, bool):
            cst = k.const
            nums = list(a.parts[1:])
            if isinstance(op, ast.Mult):
                nums = [x * cst for x in nums]
            elif isinstance(op, ast.Div) and not swapped and cst != 0:
                nums = [x / cst for x in nums]
            elif isinstance(op, ast.Add):
                nums = [nums[0]] + [x + cst for x in nums[1:]]
            elif isinstance(op, ast.Sub) and not swapped:
                nums = [nums[0]] + [x - cst for x in nums[1:]]
            else:
                return None
            return (a.parts[0],) + tuple(nums)
        if isinstance(a.parts, tuple) and a.parts and a.parts[0] == "pconst" and k.shape == () and k.has_const() and \
                isinstance(k.const, (int, float)) and not isinstance(k.const, bool):
            cst = k.const
            f = {ast.Add: lambda x: x + cst, ast.Mult: lambda x: x * cst}.get(type(op))
            if isinstance(op, ast.Sub) and not swapped:
                f = lambda x: x - cst
            if isinstance(op, ast.Div) and not swapped and cst != 0:
                f = lambda x: x / cst
            if f is None:
                return None
            return ("pconst", f(a.parts[1]), tuple((i, f(v_)) for i, v_ in a.parts[2]))
        # ("elems", (v0, ..)): a short array of known numbers (a slice x[a:a+1] of a piecewise-constant array)
        if isinstance(a.parts, tuple) and a.parts and a.parts[0] == "elems" and k.shape == () and k.has_const() and \
                isinstance(k.const, (int, float)) and not isinstance(k.const, bool):
            cst = k.const
            if isinstance(op, ast.Add):
                return ("elems", tuple(x + cst for x in a.parts[1]))
            if isinstance(op, ast.Mult):
                return ("elems", tuple(x * cst for x in a.parts[1]))
            if isinstance(op, ast.Sub) and not swapped:
                return ("elems", tuple(x - cst for x in a.parts[1]))
            return None
    return None


def _ident_key(v):
    """identifies `the same array value` for the x - x[0] idiom: same storage, same shape, same provenance and typing"""
    return (v.origin, v.shape, v.tags, tuple(sorted(v.alg.items(), key=lambda kv: kv[0])), v.sign, v.dtype)


def binop(I, fr, op, l, r, node):
    for a_ in (l, r):
        if partial_empty(a_):
            I.emit("uninit-read", fr, node, what="arithmetic on an np.empty buffer of which only %s was written" % (sorted(a_.note[2]) or "nothing"))
    # ---- sequences and strings
    if l.kind == K_STR or r.kind == K_STR:
        if isinstance(op, ast.Add) and l.kind == K_STR and r.kind == K_STR and l.has_const() and r.has_const() and \
                isinstance(l.const, str) and isinstance(r.const, str) and len(l.const) + len(r.const) <= 200:
            return const_av(l.const + r.const).replace(tags=tags_of(l, r))        # "t_b" + "01": a constant
        if isinstance(op, (ast.Mod, ast.Add, ast.Mult)):
            return AV(kind=K_STR, tags=tags_of(l, r))
    seq = (K_LIST, K_TUPLE)
    if l.kind in seq and r.kind in seq and isinstance(op, ast.Add) and l.note != "range" and r.note != "range":
        I.emit("arith", fr, node, op="Add", left=l, right=r, concat=True)         # list + list: concatenation, not element-wise addition
        items = (l.items + r.items) if (l.items is not None and r.items is not None) else None
        return AV(kind=l.kind, items=items, elem=join_av(l.elem, r.elem) if (l.elem or r.elem) else None,
                  origin=fresh_tok(I, fr, node), tags=tags_of(l, r), indef=indef_of(l, r),
                  alg=alg_lub_many([l, r]))
    if isinstance(op, ast.Mult) and ((l.kind in seq and r.kind in (K_SCALAR, K_BOOL) and r.dtype in ("int", "bool", "top")
                                      and l.note != "range")
                                     or (r.kind in seq and l.kind in (K_SCALAR,) and l.dtype in ("int", "top")
                                         and r.note != "range")):
        s, n = (l, r) if l.kind in seq else (r, l)
        k = int_const(n)
        items = s.items * k if (s.items is not None and k is not None and 0 <= k <= 16) else None
        elem = s.elem
        if elem is None and s.items:
            for i in s.items:
                elem = join_av(elem, i)
        alg = dict(s.alg)
        for at in n.atoms():
            alg[at] = alg_weaken(s.a(at), n.a(at))
        return AV(kind=s.kind, items=items, elem=elem, origin=fresh_tok(I, fr, node), tags=tags_of(l, r),
                  indef=indef_of(l, r), alg=alg)
    if isinstance(op, (ast.Sub, ast.Div, ast.FloorDiv, ast.Pow, ast.Mod)) and l.kind in seq and l.note != "range" and \
            (r.kind in seq or (r.kind == K_SCALAR and r.origin == frozenset(["lit"]) and (r.has_const() or r.dtype == "int"))) and r.note != "range":
        I.emit("type-error", fr, node, what="%s between a %s and a %s: unsupported operand types" % (type(op).__name__, l.kind, r.kind))
    if l.kind == K_NONE or r.kind == K_NONE:
        I.emit("type-error", fr, node, what="arithmetic on None")
        return top_av(False, "arithmetic on None", I.atoms)
    l, r = as_num(l), as_num(r)
    if not (is_numeric(l) and is_numeric(r)):
        return I.unmodelled(fr, node, "binary op on %s,%s" % (l.kind, r.kind))
    shape = bshape(l.shape, r.shape)
    if l.shape is not None and r.shape is not None:
        for x, y in zip(reversed(l.shape), reversed(r.shape)):
            if x is not None and y is not None and x != y and x != ONE and y != ONE:
                named_x = {a for a in x.atoms() if not a.startswith("$")}
                named_y = {a for a in y.atoms() if not a.startswith("$")}
                if named_x and named_x == named_y:  # same named length, different offset: e.g. P-s against P
                    I.emit("shape-mismatch", fr, node, dims=(x, y), tags=tags_of(l, r))
    if l.kind == K_TOP or r.kind == K_TOP:
        if (l.kind == K_TOP and l.shape is None) or (r.kind == K_TOP and r.shape is None):
            shape = None
    kind = result_kind(shape, l, r)
    dtype = dtype_join(l.dtype, r.dtype)
    sign = S_ANY
    mono = frozenset()
    f0 = False
    sym = None
    expo = None
    lscalar = l.shape == ()
    rscalar = r.shape == ()
    if isinstance(op, (ast.Add, ast.Sub)):
        alg = alg2(l, r, alg_add)
        rs = r.sign if isinstance(op, ast.Add) else sign_neg(r.sign)
        sign = sign_add(l.sign, rs)
        if isinstance(op, ast.Add):
            if l.mono and r.mono:
                mono = l.mono & r.mono if not (lscalar or rscalar) else (l.mono | r.mono)
            if rscalar and l.mono:
                mono = l.mono
            if lscalar and r.mono:
                mono = r.mono
        else:
            if rscalar and l.mono:
                mono = l.mono
        f0 = (l.f0 and r.f0) or (l.f0 and r.sign == S_ZERO) or (r.f0 and l.sign == S_ZERO)
        if isinstance(op, ast.Sub) and isinstance(r.note, tuple) and r.note and r.note[0] == "first-of" and l.kind == K_ARRAY and \
                l.shape is not None and len(l.shape) == 1 and r.note[1] == _ident_key(l):
            f0 = True           # x - x[0]: the first element is exactly zero (the rebase idiom, in place or not)
        if l.sym is not None and r.sym is not None:
            sym = l.sym + r.sym if isinstance(op, ast.Add) else l.sym - r.sym
        if l.expo is not None and r.expo is not None:
            expo = l.expo + r.expo if isinstance(op, ast.Add) else l.expo - r.expo
        if dtype == "bool":
            dtype = "int"
    elif isinstance(op, (ast.Mult, ast.MatMult)):
        alg = alg2(l, r, alg_mul)
        sign = sign_mul(l.sign, r.sign)
        pw = None
        if isinstance(op, ast.Mult) and l.dtype != "complex" and r.dtype != "complex":
            # integer powers of one and the same value written as repeated products: x*x, (x*x)*x, (x*x)*(x*x) ...
            lb, lk = (l.note[1], l.note[2]) if (isinstance(l.note, tuple) and l.note[0] == "pw") else (l, 1)
            rb, rk = (r.note[1], r.note[2]) if (isinstance(r.note, tuple) and r.note[0] == "pw") else (r, 1)
            if lb is rb:
                pw = ("pw", lb, lk + rk)
                if (lk + rk) % 2 == 0:
                    sign = S_POS if lb.sign in (S_POS, S_NEG) else (S_ZERO if lb.sign == S_ZERO else S_NONNEG)
                else:
                    sign = lb.sign
        if isinstance(op, ast.Mult):
            if rscalar and is_nonneg(r.sign) and l.mono:
                mono = l.mono
            if lscalar and is_nonneg(l.sign) and r.mono:
                mono = r.mono
            if l.mono and r.mono and is_nonneg(l.sign) and is_nonneg(r.sign) and not (lscalar or rscalar):
                mono = l.mono & r.mono
            f0 = l.f0 or r.f0
            if l.sym is not None and r.sym is not None:
                if r.sym.is_const():
                    sym = l.sym.scale(r.sym.c)
                elif l.sym.is_const():
                    sym = r.sym.scale(l.sym.c)
                else:
                    sym = opaque_sym("mul", *sorted([l.sym, r.sym], key=repr))
            if l.expo is not None and r.expo is not None:
                expo = l.expo * r.expo
        else:
            shape = None
            kind = K_ARRAY
        if dtype == "bool":
            dtype = "int"
    elif isinstance(op, (ast.Div, ast.FloorDiv)):
        alg = alg2(l, r, alg_div)
        sign = sign_mul(l.sign, sign_inv(r.sign))
        if isinstance(op, ast.Div):
            if dtype in ("int", "bool"):
                dtype = "real"
            if rscalar and r.sign == S_POS and l.mono:
                mono = l.mono
            f0 = l.f0
            if l.expo is not None and r.expo is not None and r.expo.inverse() is not None:
                expo = l.expo * r.expo.inverse()
            if l.sym is not None and r.sym is not None:
                sym = (l.sym.exact_div(r.sym.c) if r.sym.is_const() else None) or opaque_sym("div", l.sym, r.sym)
                if repr(l.sym) in _LOG_ARG and repr(r.sym) == "log[2]":
                    _LOG2_ARG[repr(sym)] = _LOG_ARG[repr(l.sym)]
        else:
            alg = {at: alg_nonlinear(c) if c[0] not in ("const", "zero") and not (hom_form(c) and hom_form(c)[0] == Exp(0)) else c
                   for at, c in alg.items()}
            if l.sym is not None and r.sym is not None:
                sym = (l.sym.exact_div(r.sym.c) if r.sym.is_const() else None) or \
                    opaque_sym("int", opaque_sym("div", l.sym, r.sym))
    elif isinstance(op, ast.Mod):
        alg = {}
        for at in l.atoms() | r.atoms():
            a, b = l.a(at), r.a(at)
            if a[0] in ("const", "zero") and b[0] in ("const", "zero"):
                alg[at] = CONST
            else:
                ha, hb = hom_form(a), hom_form(b)
                if is_top(a) or is_top(b):
                    alg[at] = TOP((not is_top(a) or a[1]) and (not is_top(b) or b[1]))
                elif ha and hb and ha[0] == hb[0]:
                    alg[at] = HOM(ha[0], "none")
                elif ha and ha[0] == Exp(0) and b[0] == "const":
                    alg[at] = HOM(0, ha[1] if ha[1] == "even" else "none")
                else:
                    alg[at] = TOPD
        sign = S_NONNEG if r.sign == S_POS else S_ANY
    elif isinstance(op, ast.Pow):
        alg = {}
        ie = int_const(r)
        e = r.expo
        for at in l.atoms() | r.atoms():
            a, b = l.a(at), r.a(at)
            if b[0] not in ("const", "zero"):
                alg[at] = TOPD if not is_top(b) else b
                continue
            if e is None and ie is None:
                if a[0] in ("const", "zero", "top"):
                    alg[at] = a if a[0] != "zero" else ZERO
                else:
                    k, p = hom_form(a)
                    alg[at] = HOM(unknown_exp() if not (k == Exp(0)) else Exp(0), "even" if p == "even" else "none")
            else:
                alg[at] = alg_pow(a, e if e is not None else Exp(ie), integer=ie)
        if ie is not None and ie % 2 == 0 and ie != 0:
            sign = S_POS if l.sign in (S_POS, S_NEG) else (S_ZERO if l.sign == S_ZERO else S_NONNEG)
        elif l.sign in (S_POS, S_NONNEG, S_ZERO):
            sign = l.sign if (r.sign in (S_POS,) or l.sign == S_POS) else S_NONNEG
        else:
            sign = S_ANY
        if l.mono and is_nonneg(l.sign) and r.sign in (S_POS, S_NONNEG) and rscalar:
            mono = l.mono
        f0 = l.f0 and r.sign == S_POS
        if dtype in ("int", "bool") and ((ie is not None and ie < 0) or (ie is None and r.sign in (S_NEG, S_NONPOS))):
            dtype = "real"          # int ** int stays an int for a non-negative exponent (sizes: 2 ** k); a negative one gives a float
        if l.sym is not None and r.sym is not None:
            sym = opaque_sym("pow", l.sym, r.sym)
            if l.sym.is_const() and l.sym.c == 2 and repr(r.sym) in _LOG2_ARG:
                _POW2LOG[repr(sym)] = _LOG2_ARG[repr(r.sym)]
    elif isinstance(op, (ast.BitAnd, ast.BitOr, ast.BitXor)):
        from .interp import alg_lub_pc
        alg = alg2(l, r, alg_lub_pc)
        sign = S_NONNEG
    else:
        return I.unmodelled(fr, node, "operator " + type(op).__name__)
    c = _NOCONST
    a, b = const_num(l), const_num(r)
    if a is not None and b is not None and not isinstance(op, (ast.BitAnd, ast.BitOr, ast.BitXor, ast.MatMult)):
        fv = _fold(op, a, b)
        if fv is not None:
            c = fv
            sign = sign_of_number(fv)
            if isinstance(fv, int) and not isinstance(fv, bool):
                sym = LinExpr(fv)
                dtype = "int"
            if expo is None:
                fq = to_fraction(fv)
                expo = Exp(fq) if fq is not None else None
    if kind == K_SCALAR:
        origin = frozenset(["lit"])
    else:
        origin = fresh_tok(I, fr, node)
    pwnote = locals().get("pw")
    rel = None
    if isinstance(op, ast.Div) and lscalar and rscalar and const_num(l) == 1 and r.sign in (S_POS, S_NONNEG):
        base = r.rel or ((r.sym, 1, "eq", None) if r.sym is not None else None)
        if base is not None:
            rel = (base[0], -base[1], {"eq": "eq", "ge": "le", "le": "ge", None: None}[base[2]],
                   {"int": "recip-int", "recip-int": "int", None: None}[base[3]])
    if fr is not None and fr.fi.qualname in getattr(I, "watch_arith", ()) and isinstance(op, (ast.Div, ast.Mult)):
        I.emit("arith", fr, node, op=type(op).__name__, left=l, right=r)
    if fr is not None and getattr(I, "watch_int", False) and isinstance(op, (ast.Sub, ast.Mult, ast.Pow)) and dtype == "int" \
            and kind != K_SCALAR and any(_amplitude_int(I, x) for x in (l, r)):
        I.emit("int-arith", fr, node, op=type(op).__name__, left=l, right=r)
    ext = None
    span_tag = frozenset()
    if isinstance(op, (ast.Mult, ast.Div)):
        if l.ext is not None and r.sign == S_POS and rscalar and r.ext is None:
            ext = (l.ext[0], l.ext[1], l.ext[2:] + (("*" if isinstance(op, ast.Mult) else "/") + "|".join(sorted(r.tags)),))
        elif r.ext is not None and l.sign == S_POS and lscalar and isinstance(op, ast.Mult) and l.ext is None:
            ext = (r.ext[0], r.ext[1], r.ext[2:] + ("*" + "|".join(sorted(l.tags)),))
    elif isinstance(op, ast.Sub) and l.ext is not None and r.ext is not None and l.ext[1:] == r.ext[1:]:
        if l.ext[0] == "hi" and r.ext[0] == "lo":
            sign = S_NONNEG
            span_tag = frozenset(["span:hi-lo"])        # (last - first) of one ascending array: an extent
        elif l.ext[0] == "lo" and r.ext[0] == "hi":
            sign = S_NONPOS
    elif isinstance(op, ast.Add) and l.ext is not None and r.ext is not None and l.ext[1:] == r.ext[1:] and {l.ext[0], r.ext[0]} == {"lo", "hi"}:
        span_tag = frozenset(["span:hi+lo"])            # (last + first) of one array: a located sum of the two ends, not an extent
    if sym is not None and kind != K_SCALAR:
        sym = None
    if sym is not None and isinstance(op, (ast.Sub, ast.Add)) and getattr(I, "revfirst", None):
        for at_, (key_, n_) in I.revfirst.items():
            if at_ in sym.atoms() and sym + LinExpr(at_) == n_ - 1:
                ext = ("hi", key_)            # len(mask) - 1 - argmax(mask reversed): the last True position
            elif at_ in sym.atoms() and (sym + LinExpr(at_) - n_).is_const() and dict(sym.t).get(at_) == -1:
                # len(mask) - k - argmax(mask reversed) with k != 1: a position next to the last True one -- a located near miss of the idiom
                I.emit("idiom-miss", fr, node, what="len(mask) - %s - argmax(reversed mask): not the last True position (that is len - 1 - argmax)" %
                       (-(sym + LinExpr(at_) - n_).c))
    return AV(kind=kind, dtype=dtype, origin=origin, shape=shape, sym=sym, alg=alg, sign=sign, mono=mono,
              const=c, expo=expo, tags=tags_of(l, r) | span_tag | (frozenset(["div:true"]) if (isinstance(op, ast.Div) and kind == K_SCALAR) else frozenset()),
              indef=indef_of(l, r), f0=f0, ext=ext, parts=_ap_binop(op, l, r),
              note=pwnote if (pwnote is not None and c is _NOCONST) else
              ("integral" if (isinstance(op, (ast.Add, ast.Sub, ast.Mult)) and kind == K_SCALAR and
                              all(x.dtype in ("int", "bool") or x.note == "integral" for x in (l, r))) else None), rel=rel)


def logical_and(a, b):
    from .interp import alg_lub_pc
    c = _NOCONST
    if a.has_const() and b.has_const():
        c = bool(a.const) and bool(b.const)
    return AV(kind=result_kind(bshape(a.shape, b.shape), a, b), dtype="bool", shape=bshape(a.shape, b.shape),
              alg=alg2(a, b, alg_lub_pc), const=c, tags=tags_of(a, b), indef=indef_of(a, b), sign=S_NONNEG)


def _python_type_names(av):
    """Set of Python type names a value of this kind may have, or None if unknown."""
    if av.kind == K_LIST and av.note != "range":
        return {"list"}
    if av.kind == K_LIST:
        return {"range"}
    if av.kind == K_TUPLE:
        return {"tuple"}
    if av.kind == K_STR:
        return {"str"}
    if av.kind == K_DICT:
        return {"dict"}
    if av.kind == K_NONE:
        return {"NoneType"}
    if av.kind == K_BOOL and av.shape == ():
        return {"bool"}
    if av.kind == K_ARRAY:
        return {"numpy.ndarray"}
    if av.kind == K_SCALAR:
        if av.origin == frozenset(["lit"]) and av.has_const():
            return {"int"} if av.dtype == "int" else {"float"}
        if av.note == "pyscalar" and av.dtype in ("real", "int"):      # a plain Python number handed in by the caller (role tables / scenarios)
            return {"float"} if av.dtype == "real" else {"int"}
        return None
    return None


def compare(I, fr, op, l, r, node):
    tags = tags_of(l, r)
    indef = indef_of(l, r)

    def boolres(c=_NOCONST, alg=None, shape=()):
        return AV(kind=K_BOOL if shape == () else K_ARRAY, dtype="bool", shape=shape, const=c, alg=alg or {},
                  tags=tags, indef=indef, sign=S_NONNEG, origin=frozenset(["lit"]))
    if isinstance(op, (ast.Is, ast.IsNot, ast.Eq, ast.NotEq)) and any(isinstance(x.note, tuple) and x.note and x.note[0] == "type-of" for x in (l, r)):
        # type(x) is np.ndarray / list / tuple ...: definitely false when x is known to be of another kind of container
        tv, cls_ = (l, r) if (isinstance(l.note, tuple) and l.note and l.note[0] == "type-of") else (r, l)
        cname = None
        if cls_.ref is not None and isinstance(cls_.ref[1], str):
            cname = cls_.ref[1].split(".")[-1]
        want = {"ndarray": K_ARRAY, "list": K_LIST, "tuple": K_TUPLE, "dict": K_DICT, "str": K_STR}.get(cname)
        res = None
        if want is not None and tv.note[1] in (K_ARRAY, K_LIST, K_TUPLE, K_DICT, K_STR, K_NONE) and tv.note[1] != want:
            res = False
        if res is not None:
            return boolres(res if isinstance(op, (ast.Is, ast.Eq)) else not res)
        return boolres(alg=alg_lub_many([l, r]))
    if isinstance(op, (ast.Is, ast.IsNot)):
        res = None
        if r.kind == K_NONE or l.kind == K_NONE:
            o = l if r.kind == K_NONE else r
            if o.kind == K_NONE:
                res = True
            elif o.kind != K_TOP and "maybe-none" not in o.tags:
                res = False
        elif l.has_const() and r.has_const() and isinstance(l.const, bool) and isinstance(r.const, bool):
            res = l.const is r.const
        elif r.has_const() and isinstance(r.const, bool) and l.kind not in (K_TOP, K_BOOL, K_SCALAR):
            res = False
        if res is not None:
            return boolres(res if isinstance(op, ast.Is) else not res)
        return boolres(alg=alg_lub_many([l, r]))
    if isinstance(op, (ast.In, ast.NotIn)):
        res = None
        if r.kind == K_DICT and l.has_const() and isinstance(l.const, str):
            if r.dmust is not None and l.const in r.dmust:
                res = True
            elif r.dmay is not None and l.const not in r.dmay:
                res = False
        elif r.kind == K_DICT and r.dmay is not None and not r.dmay and r.elem is None:
            res = False  # nothing is a key of a dictionary known to be empty
        elif r.items is not None and l.has_const() and all(i.has_const() for i in r.items):
            res = any(type(i.const) == type(l.const) and i.const == l.const for i in r.items)
        elif r.kind == K_STR and l.kind == K_STR and l.has_const() and r.has_const():
            res = l.const in r.const
        if res is not None:
            return boolres(res if isinstance(op, ast.In) else not res)
        return boolres(alg=alg_lub_many([l, r]))
    equality = isinstance(op, (ast.Eq, ast.NotEq))
    # strings / None / mixed kinds
    if l.kind == K_STR or r.kind == K_STR:
        if equality:
            if l.has_const() and r.has_const():
                res = (l.const == r.const)
                return boolres(res if isinstance(op, ast.Eq) else not res)
            if {l.kind, r.kind} != {K_STR} and K_TOP not in (l.kind, r.kind):
                return boolres(isinstance(op, ast.NotEq))
            return boolres()
        return boolres()
    if equality and (l.kind == K_NONE or r.kind == K_NONE):
        if l.kind == r.kind:
            return boolres(isinstance(op, ast.Eq))
        if K_TOP not in (l.kind, r.kind):
            return boolres(isinstance(op, ast.NotEq))
        return boolres()
    # ordering between a python sequence and a scalar is a TypeError; with an ndarray NumPy coerces
    if not equality:
        for a, b in ((l, r), (r, l)):
            if a.kind in (K_LIST, K_TUPLE) and a.note != "range" and b.kind == K_SCALAR:
                I.emit("type-error", fr, node, what="ordering comparison between %s and a scalar" % a.kind,
                       operand=a)
                return top_av(False, "TypeError", I.atoms)
            if a.kind == K_NONE:
                I.emit("type-error", fr, node, what="ordering comparison with None", operand=a)
                return top_av(False, "TypeError", I.atoms)
    ln, rn = as_num(l), as_num(r)
    if not (is_numeric(ln) and is_numeric(rn)):
        return boolres(alg=alg_lub_many([l, r]))
    # ordering applied to complex data
    if not equality and (ln.dtype == "complex" or rn.dtype == "complex"):
        I.emit("complex-order", fr, node, what="ordering comparison on complex data")
    shape = bshape(ln.shape, rn.shape)
    I.emit("compare", fr, node, op=type(op).__name__, left=ln, right=rn)
    alg = alg2(ln, rn, lambda a, b: alg_cmp(a, b, equality=equality))
    c = _NOCONST
    a, b = const_num(ln), const_num(rn)
    if a is not None and b is not None:
        c = {ast.Lt: a < b, ast.Gt: a > b, ast.LtE: a <= b, ast.GtE: a >= b, ast.Eq: a == b,
             ast.NotEq: a != b}[type(op)]
    elif ln.sym is not None and rn.sym is not None and equality and ln.sym == rn.sym:
        c = isinstance(op, ast.Eq)
    elif (b == 0 and ln.sign in (S_POS, S_NEG)) or (a == 0 and rn.sign in (S_POS, S_NEG)):
        x, flip = (ln, False) if b == 0 else (rn, True)
        pos = x.sign == S_POS
        t = type(op)
        if flip:
            t = {ast.Lt: ast.Gt, ast.Gt: ast.Lt, ast.LtE: ast.GtE, ast.GtE: ast.LtE}.get(t, t)
        c = {ast.Eq: False, ast.NotEq: True, ast.Gt: pos, ast.GtE: pos, ast.Lt: not pos, ast.LtE: not pos}[t]
    kind = K_BOOL if shape == () else (K_ARRAY if shape is not None or K_ARRAY in (ln.kind, rn.kind) else K_BOOL)
    if shape is None and kind == K_BOOL and (ln.kind == K_TOP or rn.kind == K_TOP):
        kind = K_TOP
    return AV(kind=kind, dtype="bool", shape=shape, const=c, alg=alg, tags=tags, indef=indef, sign=S_NONNEG,
              origin=frozenset(["lit"]) if kind == K_BOOL else fresh_tok(I, fr, node),
              note="cmp:%s" % type(op).__name__)


# ----------------------------------------------------------------------------- subscripts
def _slice_len(dim, sl):
    """length of dim[lower:upper:step] when derivable (assumes bounds within the array)."""
    lo, up, stp = sl.items
    if stp is not None and stp.has_const() and stp.const == -1 and dim is not None:
        # x[a:b:-1] walks from position a down to b + 1 (defaults: a = last, b = before the first): a - b elements, bounds assumed valid
        def rpos(b, default):
            if b is None or b.kind == K_NONE:
                return default
            if b.sym is None:
                return None
            if b.sym.is_const() and b.sym.c < 0:
                return dim + b.sym
            return b.sym
        a_ = rpos(lo, dim - 1)
        b_ = rpos(up, LinExpr(-1))
        return (a_ - b_) if (a_ is not None and b_ is not None) else None
    if stp is not None and not (stp.has_const() and stp.const in (1, None)):
        return None
    if lo is None and up is None:
        return dim

    def pos(b, default):
        if b is None or b.kind == K_NONE:
            return default
        if b.sym is None:
            return None
        if (b.sym.is_const() and b.sym.c < 0) or (not b.sym.is_const() and b.sign in (S_NEG,)):
            return (dim + b.sym) if dim is not None else None
        return b.sym
    lo_p = pos(lo, LinExpr(0))
    up_p = pos(up, dim)
    if lo_p is None or up_p is None:
        if isinstance(sl.note, tuple) and sl.note and sl.note[0] == "span" and (stp is None or stp.kind == K_NONE):
            return sl.note[1]           # x[a:a + k]
        return None
    return up_p - lo_p


def subscript(I, fr, base, idx, node, quiet=False):
    from .interp import alg_lub_pc
    # ---- python containers
    if base.kind in (K_TUPLE, K_LIST) and base.note != "range":
        if idx.kind == K_SLICE:
            lo, up, stp = idx.items
            if base.items is not None and all(p is None or int_const(p) is not None for p in idx.items):
                s = slice(*[None if p is None else int_const(p) for p in idx.items])
                its = base.items[s]
                return base.replace(items=its, origin=fresh_tok(I, fr, node))
            return base.replace(items=None, origin=fresh_tok(I, fr, node),
                                elem=base.elem if base.elem is not None else
                                (join_all(base.items) if base.items else None))
        k = int_const(idx)
        if base.items is not None and k is not None and -len(base.items) <= k < len(base.items):
            return base.items[k]
        if base.items is not None and k is not None:
            I.emit("index-error", fr, node, what="constant index out of range")
        e = base.elem if base.elem is not None else (join_all(base.items) if base.items else None)
        if e is None:
            return top_av(True, "element of unknown sequence", I.atoms).replace(tags=base.tags | idx.tags)
        out = weaken_av(e, {at: idx.a(at) for at in idx.atoms()})
        extra = frozenset()
        if base.note in ("text-lines", "text-tokens") and k is not None and k >= 0:
            extra = frozenset([("line#%d" if base.note == "text-lines" else "token#%d") % k])
        return out.replace(tags=out.tags | base.tags | idx.tags | extra)
    if base.kind == K_DICT:
        if idx.has_const() and base.dvals is not None and idx.const in base.dvals:
            return base.dvals[idx.const]
        if idx.kind == K_TUPLE and idx.items and base.dvals:
            # a tuple key: the entries whose key agrees with every component that is known (all of them known: that entry)
            known = [(i.const if i.has_const() else _NOCONST) for i in idx.items]
            cands = [v_ for k_, v_ in base.dvals.items() if isinstance(k_, tuple) and len(k_) == len(known) and
                     all(c_ is _NOCONST or (c_ == kk_ and type(c_) is type(kk_)) for c_, kk_ in zip(known, k_))]
            if cands and (base.dmay is not None or all(c_ is not _NOCONST for c_ in known)):
                out_ = None
                for v_ in cands:
                    out_ = join_av(out_, v_)
                return out_
        if not idx.has_const() and base.dvals and base.dmay is not None and idx.kind != K_TUPLE and set(base.dmay) <= set(base.dvals):
            # a computed key on a dictionary all of whose entries are known: the item is one of them (a missing key raises, it gives no value)
            out_ = None
            for v_ in base.dvals.values():
                out_ = join_av(out_, v_)
            return out_
        if base.elem is not None and not base.dvals:
            if base.dmay is None and not idx.has_const():
                # a computed key on a dictionary that may hold entries this run did not put there (a cache in an unknown state): the
                # item read may be one of those
                return join_av(base.elem, top_av(True, "item kept in the dictionary from before", I.atoms).replace(origin=frozenset(["?"])))
            return base.elem
        return top_av(True, "dict item", I.atoms)
    if base.kind == K_STR:
        return AV(kind=K_STR, tags=base.tags | idx.tags)
    if base.kind in (K_OBJ, K_FUNC, K_MODULE, K_CLASS, K_NONE, K_SLICE):
        if base.kind == K_NONE:
            I.emit("type-error", fr, node, what="subscript of None")
            return top_av(False, "subscript of None", I.atoms)
        return top_av(True, "subscript of %s" % base.kind, I.atoms)
    b = as_num(base)
    comps = list(idx.items) if idx.kind == K_TUPLE else [idx]
    if b.kind == K_ARRAY and b.shape is not None:
        for ax_, c_ in enumerate(comps[:len(b.shape)]):
            k_ = int_const(c_) if (c_ is not None and c_.kind == K_SCALAR) else None
            d_ = b.shape[ax_]
            if k_ is not None and not isinstance(k_, bool) and d_ is not None and d_.is_const() and not (-d_.c <= k_ < d_.c):
                I.emit("index-error", fr, node, what="index %d on an axis of length %d: IndexError" % (k_, int(d_.c)))
    shape = None
    basic = True
    mono_map = {}
    in_shape = b.shape
    sel_alg = {}
    tags = b.tags
    indef = b.indef
    for c in comps:
        if c is None:
            continue
        tags |= c.tags
        indef = indef or c.indef
        for at in c.atoms():
            sel_alg[at] = alg_lub_pc(sel_alg.get(at, CONST), c.a(at))
    mono_ok = True
    if in_shape is not None:
        out = []
        ax = 0
        n_real = sum(1 for c in comps if not (c.kind == K_NONE))
        fancy_done = False
        for c in comps:
            if c.kind == K_NONE:  # np.newaxis
                out.append(ONE)
                continue
            if c.kind == K_SLICE and c.note == "ellipsis":
                skip = len(in_shape) - (n_real - 1) - ax
                for _ in range(max(skip, 0)):
                    if ax in b.mono:
                        mono_map[ax] = len(out)
                    out.append(in_shape[ax])
                    ax += 1
                continue
            if ax >= len(in_shape):
                out = None
                break
            dim = in_shape[ax]
            if c.kind == K_SLICE:
                n = _slice_len(dim, c)
                stp = c.items[2]
                if ax in b.mono and (stp is None or (const_num(stp) or 0) > 0):
                    mono_map[ax] = len(out)
                out.append(n)
            elif c.kind in (K_SCALAR, K_BOOL) or (c.kind == K_TOP and c.shape == ()):
                pass  # drops the axis
            else:
                basic = False
                ci = as_num(c)
                if ci.dtype == "bool":
                    out.append(LinExpr(fresh_atom("$m")))
                    if ax in b.mono:
                        mono_map[ax] = len(out) - 1
                    if len(comps) == 1:
                        tags = tags | frozenset(["subsequence", "mask-select"])     # x[mask]: elements of x, in order, some left out
                    # a boolean mask consumes as many axes as its rank
                    ax += (len(ci.shape) - 1) if ci.shape else 0
                elif ci.shape is not None:
                    if ax in b.mono and ci.mono and len(ci.shape) == 1:
                        mono_map[ax] = len(out)
                    out.extend(ci.shape)
                else:
                    out = None
                    break
            ax += 1
        if out is not None:
            for k in range(ax, len(in_shape)):
                if k in b.mono:
                    mono_map[k] = len(out)
                out.append(in_shape[k])
            shape = tuple(out)
    else:
        for c in comps:
            if c.kind not in (K_SLICE, K_SCALAR, K_BOOL, K_NONE):
                basic = False
    alg = {}
    for at in b.atoms() | set(sel_alg):
        alg[at] = alg_weaken(b.a(at), sel_alg.get(at, CONST))
    if shape == ():
        kind = K_SCALAR
    elif shape is not None:
        kind = K_ARRAY
    else:
        single_scalar = len(comps) == 1 and comps[0].kind in (K_SCALAR, K_BOOL)
        if b.kind == K_TOP:
            kind = K_TOP
        elif single_scalar and b.shape is not None and len(b.shape) == 1:
            kind = K_SCALAR
        else:
            kind = K_ARRAY if not single_scalar else K_TOP
    if kind == K_SCALAR:
        origin = frozenset(["lit"])
    elif basic:
        origin = b.origin
    else:
        origin = fresh_tok(I, fr, node)
    f0 = False
    if b.f0 and shape is not None and len(shape) >= 1:
        last = comps[-1] if (in_shape is not None and len([c for c in comps if c.kind != K_NONE]) == len(in_shape)) else None
        if last is None:
            f0 = True  # last axis untouched
        elif last.kind == K_SLICE and last.note != "ellipsis":
            lo = last.items[0]
            f0 = lo is None or (int_const(lo) == 0)
    if not quiet:
        I.emit("subscript", fr, node, base=b, index=idx, basic=basic, comps=comps)
        for c_ in comps:
            if c_ is not None and c_.kind == K_SLICE and c_.items is not None:
                up = c_.items[1]
                if up is not None and isinstance(up.note, tuple) and up.note and up.note[0] == "neg-of" and up.note[1] != S_POS and not up.has_const():
                    I.emit("neg-zero-slice", fr, node, bound=up, base=b)   # x[:-k] with k possibly 0 selects nothing
    ext = None
    if kind == K_SCALAR and len(comps) == 1 and 0 in b.mono and b.shape is not None and len(b.shape) == 1:
        k = int_const(comps[0])
        if k in (0, -1):
            ext = ("lo" if k == 0 else "hi", tuple(sorted(b.origin)))
            tags = tags | frozenset(["sel:first" if k == 0 else "sel:last"])
    if kind == K_SCALAR and len(comps) == 1 and comps[0] is not None and int_const(comps[0]) is not None and 0 <= int_const(comps[0]) <= 3 and \
            b.dtype == "int":
        tags = tags | frozenset(["at#%d" % int_const(comps[0])])      # element k of an index array (k small): orders later / earlier positions
    if kind == K_SCALAR and len(comps) == 1 and comps[0] is not None and comps[0].kind == K_SCALAR and comps[0].ext is not None:
        tags = tags | frozenset(["at:" + comps[0].ext[0]])     # element read at the smallest / largest index of an ascending index array
    if kind == K_ARRAY and len(comps) == 1 and comps[0] is not None and comps[0].kind == K_SLICE and comps[0].items is not None and \
            comps[0].note != "ellipsis":
        lo_, up_, st_ = comps[0].items
        stc = int_const(st_) if st_ is not None else None
        if stc is not None and stc >= 2 and up_ is None:
            loc_ = 0 if lo_ is None else int_const(lo_)
            if loc_ is not None and 0 <= loc_ < stc:
                tags = tags | frozenset(["stride:%d/%d" % (loc_, stc)])      # x[k::m]: every m-th element from k
    parts_ = None
    if kind == K_ARRAY and len(comps) == 1 and comps[0] is not None and comps[0].kind == K_SLICE and comps[0].items is not None and \
            isinstance(b.parts, tuple) and b.parts and b.parts[0] == "ap":
        lo_, up_, st_ = comps[0].items
        if lo_ is not None and int_const(lo_) == 1 and up_ is None and st_ is None:
            parts_ = ("ap-tail", b.parts[1], b.parts[3])
        elif (lo_ is None or int_const(lo_) == 0) and st_ is None:
            parts_ = b.parts          # a leading segment of the progression is the same progression
        elif lo_ is not None and int_const(lo_) is not None and int_const(lo_) >= 2 and up_ is None and st_ is None:
            parts_ = ("ap-tail-k", int_const(lo_), b.parts[1], b.parts[3])      # the elements from position k >= 2 on
    if kind == K_ARRAY and len(comps) == 1 and comps[0] is not None and comps[0].kind == K_SLICE and comps[0].items is not None and \
            isinstance(b.parts, tuple) and b.parts and b.parts[0] == "pconst":
        lo_, up_, st_ = comps[0].items
        a_ = int_const(lo_) if lo_ is not None else None
        b_ = int_const(up_) if up_ is not None else None
        if st_ is None and a_ is not None and b_ is not None and a_ >= 0 and b_ == a_ + 1:
            parts_ = ("elems", (dict(b.parts[2]).get(a_, b.parts[1]),))
        elif st_ is None and up_ is None and a_ is not None and a_ >= 0:
            # x[k:] of a piecewise-constant array is piecewise constant, its exceptional leading elements moved down by k
            parts_ = ("pconst", b.parts[1], tuple(sorted((i - a_, v_) for i, v_ in b.parts[2] if i >= a_)))
    note = None
    if len(comps) == 1 and int_const(comps[0]) == -1 and 0 in b.mono and kind == K_ARRAY:
        note = "lastof"
    if kind == K_SCALAR and len(comps) == 1 and int_const(comps[0]) == 0 and b.kind == K_ARRAY and b.shape is not None and len(b.shape) == 1:
        note = ("first-of", _ident_key(b))
    return AV(kind=kind, dtype=b.dtype, origin=origin, shape=shape, alg=alg, sign=b.sign,
              mono=frozenset(mono_map.values()), tags=tags, indef=indef, f0=f0,
              sym=None, const=_NOCONST, ext=ext, note=note, parts=parts_)


def join_all(items):
    e = None
    for i in items or ():
        e = join_av(e, i)
    return e


# ----------------------------------------------------------------------------- attributes of arrays
def nd_attr(I, fr, base, attr, node):
    b = base
    if attr == "T":
        sh = tuple(reversed(b.shape)) if b.shape is not None else None
        mono = frozenset(len(b.shape) - 1 - a for a in b.mono) if b.shape is not None else frozenset()
        return b.replace(shape=sh, mono=mono, f0=False, const=_NOCONST)
    if attr == "shape":
        if b.shape is not None:
            return AV(kind=K_TUPLE, items=tuple(
                AV(kind=K_SCALAR, dtype="int", shape=(), sym=d, sign=S_NONNEG,
                   alg={at: alg_shape(b.a(at)) for at in b.atoms()}) for d in b.shape))
        return AV(kind=K_TUPLE, elem=AV(kind=K_SCALAR, dtype="int", shape=(), sign=S_NONNEG),
                  alg={at: alg_shape(b.a(at)) for at in b.atoms()})
    if attr in ("size", "ndim"):
        sym = None
        if attr == "size" and b.shape is not None and len(b.shape) == 1:
            sym = b.shape[0]
        return AV(kind=K_SCALAR, dtype="int", shape=(), sym=sym, sign=S_NONNEG,
                  alg={at: alg_shape(b.a(at)) for at in b.atoms()}, tags=b.tags | frozenset(["len-of"]), origin=frozenset(["lit"]))
    if attr == "dtype":
        return AV(kind=K_OBJ, note="dtype", dtype=b.dtype, tags=b.tags | frozenset(["dtype-of"]))
    if attr in ("real", "imag"):
        return b.replace(dtype="real" if b.dtype in ("complex", "real") else b.dtype, const=_NOCONST,
                         sign=b.sign if (attr == "real" and b.dtype != "complex") else S_ANY, tags=b.tags | frozenset([attr]))
    if attr == "flat":
        return b.replace(shape=None)
    return None


def lib_constant(name):
    if name in ("numpy.pi", "math.pi", "scipy.pi"):
        return const_av(math.pi)
    if name in ("numpy.e", "math.e"):
        return const_av(math.e)
    if name == "numpy.newaxis":
        return const_av(None)
    if name in ("numpy.inf", "math.inf"):
        return AV(kind=K_SCALAR, dtype="real", shape=(), sign=S_POS, origin=frozenset(["lit"]))
    if name in ("numpy.nan", "math.nan"):
        return AV(kind=K_SCALAR, dtype="real", shape=(), origin=frozenset(["lit"]))
    return None


# ----------------------------------------------------------------------------- builtins
def _shape_alg(v):
    return {at: alg_shape(v.a(at)) for at in v.atoms()}


def call_builtin(I, fr, name, args, kwargs, node):
    a0 = args[0] if args else None
    if name == "len":
        if a0 is None:
            return I.unmodelled(fr, node, "len()")
        n = a0.length()
        if a0.kind in (K_SCALAR, K_NONE, K_BOOL, K_ARRAY) and a0.shape == ():
            I.emit("type-error", fr, node, what="len() of a scalar/None")
        sign = S_NONNEG
        c = _NOCONST
        if n is not None and n.is_const():
            c = int(n.c)
            sign = sign_of_number(c)
        if a0.kind == K_OBJ:
            return AV(kind=K_SCALAR, dtype="int", shape=(), sign=S_NONNEG, sym=LinExpr(fresh_atom("$n")),
                      tags=a0.tags)
        if n is None:
            n = LinExpr(fresh_atom("$n"))
        return AV(kind=K_SCALAR, dtype="int", shape=(), sym=n, sign=sign, const=c, alg=_shape_alg(a0),
                  tags=a0.tags | frozenset(["len-of"]), indef=a0.indef, origin=frozenset(["lit"]),
                  expo=Exp(c) if c is not _NOCONST else None)
    if name == "range":
        if len(args) == 1:
            start, stop = const_av(0), args[0]
        elif len(args) >= 2:
            start, stop = args[0], args[1]
        else:
            return I.unmodelled(fr, node, "range()")
        step = args[2] if len(args) > 2 else None
        n = None
        if step is None and start.sym is not None and stop.sym is not None:
            n = stop.sym - start.sym
        if n is None:
            n = LinExpr(fresh_atom("$r"))
        vs = [start, stop] + ([step] if step is not None else [])
        sign = S_NONNEG if is_nonneg(start.sign) and (step is None or step.sign == S_POS) else S_ANY
        items = None
        if n.is_const() and 0 <= n.c <= 8 and step is None and start.sym is not None and start.sym.is_const():
            items = tuple(const_av(int(start.sym.c) + i) for i in range(int(n.c)))
        return AV(kind=K_LIST, note="range", dtype="int", shape=(n,), alg=alg_lub_many(vs), mono=frozenset([0])
                  if (step is None or step.sign == S_POS) else frozenset(), sign=sign, tags=tags_of(*vs),
                  indef=indef_of(*vs), elem=AV(kind=K_SCALAR, dtype="int", shape=(), sign=sign), items=items,
                  origin=frozenset(["lit"]))
    if name == "abs":
        return call_lib(I, fr, "numpy.abs", args, kwargs, node)
    if name in ("max", "min"):
        if len(args) >= 2:
            vs = [as_num(a) for a in args]
            if any(v.dtype == "complex" for v in vs):
                I.emit("complex-order", fr, node, what="%s() on complex data" % name)
            alg = {at: alg_maxred(c) for at, c in alg_lub_many(vs).items()}
            sign = vs[0].sign
            for v in vs[1:]:
                sign = sign_join(sign, v.sign)
            if name == "max" and any(v.sign == S_POS for v in vs):
                sign = S_POS
            elif name == "max" and any(is_nonneg(v.sign) for v in vs):
                sign = S_NONNEG
            c = _NOCONST
            cs = [const_num(v) for v in vs]
            if all(x is not None for x in cs):
                c = max(cs) if name == "max" else min(cs)
            sh = vs[0].shape
            for v in vs[1:]:
                sh = bshape(sh, v.shape)
            return AV(kind=result_kind(sh, *vs), dtype=join_dtypes(vs), shape=sh, alg=alg, sign=sign, const=c,
                      tags=tags_of(*vs) | frozenset(["sel:%s" % name]), indef=indef_of(*vs),
                      origin=frozenset(["lit"]),
                      expo=Exp(to_fraction(c)) if (c is not _NOCONST and to_fraction(c) is not None) else None,
                      sym=LinExpr(c) if (c is not _NOCONST and isinstance(c, int)) else None)
        if len(args) == 1:
            kw = dict(kwargs)
            kw["__builtin__"] = const_av(True)
            return call_lib(I, fr, "numpy." + name, args, kw, node)
        return I.unmodelled(fr, node, name + "()")
    if name == "sum":
        return call_lib(I, fr, "numpy.sum", args[:1], {"__builtin__": const_av(True)}, node)
    if name == "slice" and 1 <= len(args) <= 3:
        parts = [None, args[0], None] if len(args) == 1 else [args[0], args[1], args[2] if len(args) == 3 else None]
        parts = [None if (p is not None and p.kind == K_NONE) else p for p in parts]
        return AV(kind=K_SLICE, items=tuple(parts), tags=tags_of(*[p for p in parts if p is not None]),
                  indef=indef_of(*[p for p in parts if p is not None]) if any(p is not None for p in parts) else False)
    if name == "divmod" and len(args) == 2:
        # (q, r) with a == b*q + r exactly; for a positive integer divisor literal q is int(a / b) for a >= 0 and r = a - b*q
        a_, b_ = as_num(args[0]), as_num(args[1])
        bc = const_num(b_)
        if a_.kind == K_SCALAR and a_.sym is not None and isinstance(bc, int) and not isinstance(bc, bool) and bc > 0 and \
                a_.dtype in ("int", "bool") and is_nonneg(a_.sign):
            qs = opaque_sym("int", opaque_sym("div", a_.sym, LinExpr(bc)))
            q_ = AV(kind=K_SCALAR, dtype="int", shape=(), sym=qs, sign=S_NONNEG, origin=frozenset(["lit"]), tags=a_.tags, note="integral")
            r_ = AV(kind=K_SCALAR, dtype="int", shape=(), sym=a_.sym - qs.scale(bc), sign=S_NONNEG, origin=frozenset(["lit"]), tags=a_.tags,
                    note="integral")
            return AV(kind=K_TUPLE, items=(q_, r_))
        return I.unmodelled(fr, node, "divmod()")
    if name in ("int", "round"):
        if a0 is None:
            return const_av(0)
        if a0.kind == K_STR:
            return AV(kind=K_SCALAR, dtype="int", shape=(), sym=LinExpr(fresh_atom("$p")), tags=a0.tags)
        v = as_num(a0)
        c = _NOCONST
        cn = const_num(v)
        if cn is not None:
            try:
                c = int(cn) if name == "int" else round(cn)
            except Exception:
                c = _NOCONST
        if name == "round" and len(args) > 1:
            return v.replace(alg=alg1(v, alg_nonlinear), const=_NOCONST, sym=None, expo=None,
                             tags=v.tags | frozenset(["round:nearest"]))
        sym = v.sym if (v.sym is not None and v.dtype in ("int", "bool")) else None
        if sym is None and v.sym is not None and len(v.sym.atoms()) == 1 and repr(v.sym).startswith("pow[2,int[") or \
                (sym is None and v.sym is not None and len(v.sym.atoms()) == 1 and repr(v.sym).startswith("pow[2,ceil[")):
            sym = v.sym      # 2 ** <an integer-valued exponent> is an integer already (a transform length; a negative exponent is no length)
        if sym is None and v.sym is not None:
            sym = opaque_sym("int", v.sym) if name == "int" else opaque_sym("round", v.sym)
        if c is not _NOCONST:
            sym = LinExpr(c)
        if sym is None:
            sym = LinExpr(fresh_atom("$t"))
        how = "round:toward-zero" if name == "int" else "round:nearest"
        keep = v.dtype in ("int", "bool") or (name == "int" and v.note == "integral")
        rel = v.rel
        if not keep:
            base = v.rel or ((v.sym, 1, "eq", None) if v.sym is not None else None)
            if base is not None:
                cmp_ = ("le" if base[2] in ("eq", "le") else None) if (name == "int" and is_nonneg(v.sign)) else None
                rel = (base[0], base[1], cmp_, "int")
        if v.note == "integral" and v.sym is not None and name == "int":
            sym_keep = v.sym
        else:
            sym_keep = None
        rt = frozenset() if keep else frozenset([how])
        sign = v.sign if v.sign in (S_ZERO,) else (S_NONNEG if is_nonneg(v.sign) else
                                                   (S_NONPOS if v.sign in (S_NEG, S_NONPOS) else S_ANY))
        if keep:
            sign = v.sign
        if c is not _NOCONST:
            sign = sign_of_number(c)
        if sym_keep is not None and c is _NOCONST:
            sym = sym_keep
        if name == "int" and c is _NOCONST and (a0.kind == K_BOOL or v.dtype == "bool") and v.shape in ((), None) and a0.kind != K_ARRAY:
            # int(<a truth value>) is 0 or 1: a small value set, refined by later tests of the variable (`if s:` / `if not s:`)
            return AV(kind=K_SCALAR, dtype="int", shape=(), sym=LinExpr(fresh_atom("$v")), sign=S_NONNEG, alg=alg1(v, alg_nonlinear),
                      tags=v.tags, indef=v.indef, origin=frozenset(["lit"]), note=("in", frozenset([0, 1])))
        return AV(kind=K_SCALAR, dtype="int", shape=(), sym=sym, const=c, sign=sign,
                  alg=alg1(v, (lambda x: x) if keep else alg_nonlinear),
                  tags=v.tags | rt, indef=v.indef, origin=frozenset(["lit"]),
                  expo=Exp(c) if c is not _NOCONST else None, rel=rel, note="integral")
    if name == "float":
        if a0 is None:
            return const_av(0.0)
        if a0.kind == K_STR:
            return AV(kind=K_SCALAR, dtype="real", shape=(), tags=a0.tags | frozenset(["parsed-float"]),
                      origin=frozenset(["lit"]))
        v = as_num(a0)
        c = float(const_num(v)) if const_num(v) is not None else _NOCONST
        return v.replace(kind=K_SCALAR, dtype="real", const=c, shape=(), origin=frozenset(["lit"]))
    if name == "complex":
        return AV(kind=K_SCALAR, dtype="complex", shape=(), tags=tags_of(*args))
    if name == "bool":
        tv = None
        if a0 is not None:
            from .interp import truthiness
            tv = truthiness(a0)
        return const_av(tv) if tv is not None else AV(kind=K_BOOL, dtype="bool", shape=(), alg=dict(a0.alg) if a0 else {})
    if name in ("str", "repr"):
        return AV(kind=K_STR, tags=tags_of(*args))
    if name in ("list", "tuple", "sorted", "reversed", "set"):
        if a0 is None:
            return AV(kind=K_LIST if name != "tuple" else K_TUPLE, items=(), origin=fresh_tok(I, fr, node))
        kind = K_TUPLE if name == "tuple" else K_LIST
        if a0.kind in (K_LIST, K_TUPLE) and a0.note != "range":
            items = a0.items if name in ("list", "tuple") else None
            return a0.replace(kind=kind, items=items, origin=fresh_tok(I, fr, node))
        v = as_num(a0)
        if v.kind in (K_ARRAY, K_TOP):
            sh = v.shape[1:] if v.shape else None
            e = v.replace(shape=sh, kind=K_SCALAR if sh == () else v.kind, const=_NOCONST,
                          origin=frozenset(["lit"]) if sh == () else v.origin)
            return AV(kind=kind, elem=e, shape=(v.shape[0],) if v.shape else None, origin=fresh_tok(I, fr, node),
                      tags=v.tags, indef=v.indef, alg=dict(v.alg) if name in ("list", "tuple") else alg1(v, alg_maxred))
        return AV(kind=kind, elem=top_av(True, "list() of unknown", I.atoms), origin=fresh_tok(I, fr, node),
                  tags=a0.tags, indef=True)
    if name == "dict":
        return AV(kind=K_DICT, dvals={}, dmust=frozenset(), dmay=frozenset() if not args and not kwargs else None,
                  origin=fresh_tok(I, fr, node))
    if name == "enumerate":
        e, _, _ = I.iter_elem(a0, fr, node)
        return AV(kind=K_LIST, note="enumerate", elem=e, alg=dict(a0.alg), tags=a0.tags, indef=a0.indef,
                  shape=(a0.length(),) if a0.length() is not None else None)
    if name == "zip":
        if args and all(a.kind in (K_TUPLE, K_LIST) and a.items is not None and a.note != "range" for a in args) and \
                len({len(a.items) for a in args}) == 1 and len(args[0].items) <= 8:
            # sequences known item by item: the pairs are known one by one too
            return AV(kind=K_LIST, items=tuple(AV(kind=K_TUPLE, items=tuple(a.items[k] for a in args)) for k in range(len(args[0].items))),
                      tags=tags_of(*args), indef=indef_of(*args), origin=fresh_tok(I, fr, node))
        els = tuple(I.iter_elem(a, fr, node)[0] for a in args)
        return AV(kind=K_LIST, elem=AV(kind=K_TUPLE, items=els), alg=alg_lub_many(list(args)) if args else {},
                  tags=tags_of(*args), indef=indef_of(*args))
    if name == "isinstance":
        return _isinstance(I, fr, args, node)
    if name == "hasattr":
        return _hasattr(I, fr, args, node)
    if name == "getattr":
        if len(args) >= 2 and args[1].kind in (K_OBJ, K_ARRAY, K_LIST, K_SCALAR, K_TUPLE, K_DICT, K_NONE) and not args[1].indef:
            I.emit("type-error", fr, node, what="getattr() attribute name is not a string: TypeError")
        if len(args) >= 2 and args[1].has_const() and isinstance(args[1].const, str):
            return I.load_attr(fr, args[0], args[1].const, node)
        I.emit("dynamic-getattr", fr, node)
        return top_av(True, "getattr with a non-literal name", I.atoms).replace(tags=tags_of(*args))
    if name == "setattr":
        if len(args) == 3 and args[1].has_const() and isinstance(args[1].const, str) and args[1].const.isidentifier():
            # setattr(obj, "<name folded to a constant>", v) -- "t_b" + suffix with the suffix taken from a literal table -- is obj.<name> = v
            I.store_attr(fr, args[0], args[1].const, args[2], fr.cur_stmt if fr.cur_stmt is not None else node)
            return const_av(None)
        I.emit("dynamic-setattr", fr, node)
        return const_av(None)
    if name == "print":
        return const_av(None)
    if name == "open":
        I.emit("io", fr, node, what="open")
        return AV(kind=K_TOP, note="file", origin=frozenset(["lit"]))
    if name == "super":
        if len(args) == 2 and args[0].kind == K_CLASS:
            return AV(kind=K_TOP, note="super", ref=("super", args[0].ref[1], args[1]))
        if fr.fi.cls is not None and fr.fi.params:
            return AV(kind=K_TOP, note="super", ref=("super", fr.fi.cls, fr.state.env.get(fr.fi.params[0])))
        return I.unmodelled(fr, node, "super()")
    if name in ("any", "all"):
        return AV(kind=K_BOOL, dtype="bool", shape=(), alg=dict(a0.alg) if a0 is not None else {},
                  tags=tags_of(*args))
    if name == "type" and len(args) == 1:
        return AV(kind=K_TOP, note=("type-of", args[0].kind))        # type(x): compared with `is` / `==` against a class below
    if name in ("id", "type"):
        return AV(kind=K_TOP)
    if name == "map" and len(args) >= 2 and all(a.kind in (K_TUPLE, K_LIST) and a.items is not None for a in args[1:]) and \
            len({len(a.items) for a in args[1:]}) == 1 and len(args[1].items) <= 8:
        # map over sequences whose items are known one by one: the function applied item by item (consumed as a list)
        outs = [I.call(fr, args[0], [a.items[k] for a in args[1:]], {}, node) for k in range(len(args[1].items))]
        return AV(kind=K_LIST, items=tuple(outs), origin=fresh_tok(I, fr, node), tags=tags_of(*outs))
    if name in ("divmod", "pow", "map", "filter"):
        return I.unmodelled(fr, node, "builtin " + name)
    if name[0].isupper():  # exception constructors, NotImplemented(...)
        return AV(kind=K_OBJ, note="exception:" + name)
    return I.unmodelled(fr, node, "builtin " + name)


def join_dtypes(vs):
    d = vs[0].dtype
    for v in vs[1:]:
        d = dtype_join(d, v.dtype)
    return d


def _type_names_of(I, tav):
    """Type names denoted by the second argument of isinstance, or None."""
    if tav.kind == K_TUPLE and tav.items is not None:
        out = set()
        for i in tav.items:
            s = _type_names_of(I, i)
            if s is None:
                return None
            out |= s
        return out
    if tav.ref is None:
        return None
    if tav.ref[0] == "builtin":
        return {tav.ref[1]}
    if tav.ref[0] == "lib":
        return {tav.ref[1]}
    if tav.ref[0] == "class":
        return {tav.ref[1]}
    return None


def _isinstance(I, fr, args, node):
    if len(args) != 2:
        return I.unmodelled(fr, node, "isinstance arity")
    x, t = args
    names = _type_names_of(I, t)
    if names is None and t.kind in (K_SCALAR, K_ARRAY, K_LIST, K_STR, K_BOOL, K_NONE, K_DICT) or (names is None and t.kind == K_OBJ and t.obj is not None):
        I.emit("type-error", fr, node, what="isinstance() second argument is a value, not a type: TypeError")
    if names is None:
        return AV(kind=K_BOOL, dtype="bool", shape=())
    for n in names:
        if isinstance(n, str) and n.startswith("numpy.") and n not in ("numpy.ndarray", "numpy.generic", "numpy.floating",
                                                                    "numpy.integer", "numpy.number", "numpy.float64",
                                                                    "numpy.int64", "numpy.bool_"):
            I.emit("isinstance-lib-type", fr, node, name=n)
    if x.kind == K_OBJ and x.obj in fr.state.heap:
        o = fr.state.heap[x.obj]
        res = any((not isinstance(n, str)) and o.cls is not None and o.cls.is_subclass_of(n) for n in names)
        if not res and "object" in names:
            res = True
        return const_av(res)
    have = _python_type_names(x)
    if have is None:
        return AV(kind=K_BOOL, dtype="bool", shape=(), tags=x.tags)
    strs = {n for n in names if isinstance(n, str)}
    if "float" in strs:
        pass
    unknown_lib = any(n.startswith("numpy.") and n != "numpy.ndarray" or n.startswith("scipy.") for n in strs)
    if have & strs:
        return const_av(True)
    if "int" in have and "float" in strs:
        return const_av(False)
    if "bool" in have and "int" in strs:
        return const_av(True)
    if unknown_lib:
        return AV(kind=K_BOOL, dtype="bool", shape=(), tags=x.tags)
    return const_av(False)


def _hasattr(I, fr, args, node):
    if len(args) == 2 and args[1].kind in (K_OBJ, K_ARRAY, K_LIST, K_SCALAR, K_TUPLE, K_DICT, K_NONE) and not args[1].indef:
        I.emit("type-error", fr, node, what="hasattr() attribute name is not a string: TypeError")
    if len(args) != 2 or not (args[1].has_const() and isinstance(args[1].const, str)):
        return AV(kind=K_BOOL, dtype="bool", shape=())
    x, name = args[0], args[1].const
    if x.kind == K_OBJ and x.obj in fr.state.heap:
        o = fr.state.heap[x.obj]
        if name in o.attrs or (o.cls is not None and (o.cls.find_method(name) or o.cls.find_class_attr(name) is not None)):
            return const_av(True)
        if o.is_param:
            return AV(kind=K_BOOL, dtype="bool", shape=())
        return const_av(False)
    if name == "__len__":
        if x.kind in (K_LIST, K_TUPLE, K_STR, K_DICT):
            return const_av(True)
        if x.kind == K_ARRAY and x.shape is not None:
            return const_av(len(x.shape) > 0)
        if x.kind in (K_SCALAR, K_BOOL, K_NONE) and x.origin == frozenset(["lit"]) and x.has_const():
            return const_av(False)
        if x.kind in (K_SCALAR, K_BOOL) and x.shape == () and x.note == "pyscalar":
            return const_av(False)
        return AV(kind=K_BOOL, dtype="bool", shape=())
    if name == "values" and x.kind in (K_ARRAY, K_SCALAR, K_LIST, K_TUPLE):
        return const_av(False)
    return AV(kind=K_BOOL, dtype="bool", shape=())


# ----------------------------------------------------------------------------- methods on values
LIST_MUTATORS = {"append", "extend", "insert", "pop", "remove", "reverse", "sort", "clear"}
ND_AS_LIB = {"max", "min", "sum", "mean", "cumsum", "argmax", "argmin", "conj", "conjugate", "transpose", "reshape",
             "clip", "take", "dot", "std", "var", "any", "all", "round", "squeeze", "ravel", "flatten", "copy",
             "argsort", "prod", "cumprod", "nonzero", "repeat", "searchsorted", "trace", "ptp"}
ND_MUTATORS = {"sort", "fill", "resize", "put", "itemset", "setfield", "partition", "setflags"}


def call_method(I, fr, name, base, args, kwargs, node):
    if base.ref is not None and base.ref[0] == "super":
        _, ci, selfav = base.ref
        mro = selfav and selfav.kind == K_OBJ and fr.state.heap.get(selfav.obj)
        cls = mro.cls if mro else ci
        chain = cls.mro()
        start = chain.index(ci) + 1 if ci in chain else 1
        for c in chain[start:]:
            if name in c.methods:
                return I.call_user(fr, c.methods[name], [selfav] + list(args), kwargs, node)
        return const_av(None)
    if name == "bit_length" and not args and base.kind == K_SCALAR and base.dtype in ("int", "bool"):
        # (n - 1).bit_length() is exactly ceil(log2(n)) for every integer n >= 1 (no floating-point round trip): the same symbol as
        # the float spelling int(np.ceil(np.log2(n))) gets
        sym = None
        if base.sym is not None:
            sym = opaque_sym("ceil", opaque_sym("log2", base.sym + 1))
        return AV(kind=K_SCALAR, dtype="int", shape=(), sym=sym or LinExpr(fresh_atom("$b")), sign=S_NONNEG, origin=frozenset(["lit"]),
                  tags=base.tags, note="integral", alg=alg1(base, alg_nonlinear))
    if base.kind == K_LIST and base.note != "range":
        if name in LIST_MUTATORS:
            if name == "append" and args:
                v = args[0]
                accname = v.note[4:] if (isinstance(v.note, str) and v.note.startswith("acc:")) else None
                empty = base.items is not None and len(base.items) == 0
                keep = False
                if accname is not None and (empty or (0 in base.mono and base.note == "accof:" + accname)) and \
                        ("reset", accname) not in fr.state.facts:
                    keep = True
                if empty and accname is None:
                    keep = False

                def upd(a, v=v, keep=keep, accname=accname):
                    n = I.elem_join(a, v, None)
                    # a list known item by item stays known item by item while it is short (a join with a state where it has another
                    # length forgets the items: loops that are not unrolled end up with the element summary only)
                    its = a.items + (v,) if (a.items is not None and len(a.items) < 8 and a.kind == K_LIST) else None
                    return n.replace(mono=frozenset([0]) if keep else frozenset(), note=("accof:" + accname) if keep else None, items=its)
                I.mutate(fr, base, node, "list.append", upd, value=v)
                fr.state.facts = frozenset(f for f in fr.state.facts if not (f[0] == "reset" and f[1] == accname)) | \
                    frozenset([("appended",)])
            elif name == "extend" and args:
                v = args[0]
                e, _, _ = I.iter_elem(v, fr, node)
                I.mutate(fr, base, node, "list.extend", lambda a, e=e: I.elem_join(a, e, None))
            elif name == "insert" and len(args) > 1:
                v = args[1]
                I.mutate(fr, base, node, "list.insert", lambda a, v=v: I.elem_join(a, v, args[0]))
            else:
                I.mutate(fr, base, node, "list." + name, lambda a: a.replace(items=None))
            if name == "pop":
                return base.elem if base.elem is not None else top_av(True, "list.pop", I.atoms)
            return const_av(None)
        if name in ("index", "count"):
            return AV(kind=K_SCALAR, dtype="int", shape=(), alg=alg1(base, alg_argorder), tags=base.tags)
        if name == "copy":
            return base.replace(origin=fresh_tok(I, fr, node))
    if base.kind == K_DICT:
        if name == "get":
            key = args[0] if args else None
            default = args[1] if len(args) > 1 else const_av(None)
            if key is not None and key.has_const() and isinstance(key.const, str):
                k = key.const
                if base.dmust is not None and k in base.dmust and base.dvals and k in base.dvals:
                    return base.dvals[k]
                if base.dmay is not None and k not in base.dmay:
                    return default
                if base.dvals and k in base.dvals:
                    return join_av(base.dvals[k], default)
                if default.kind != K_NONE:
                    # typing assumption: a keyword option has the kind of its default (value unknown)
                    return default.replace(const=_NOCONST, sym=None, expo=None, sign=S_ANY,
                                           tags=default.tags | frozenset(["kw:" + k]))
                return join_av(default, top_av(True, "kwargs value", ()).replace(
                    kind=K_TOP, tags=frozenset(["kw:" + k]), indef=False)).replace(const=_NOCONST)
            return top_av(True, "dict.get", I.atoms)
        if name in ("items", "keys", "values"):
            vals = list((base.dvals or {}).values())
            if base.elem is not None:
                vals.append(base.elem)
            e = join_all(vals)
            if name == "items":
                e = AV(kind=K_TUPLE, items=(AV(kind=K_STR), e if e is not None else top_av(True, "dict value", I.atoms)))
            elif name == "keys":
                e = AV(kind=K_STR)
            return AV(kind=K_LIST, elem=e if e is not None else top_av(True, "dict value", I.atoms),
                      origin=fresh_tok(I, fr, node))
        if name in ("pop", "clear", "update", "setdefault", "popitem"):
            def upd(a):
                if name == "clear":
                    return a.replace(dvals={}, dmust=frozenset(), dmay=frozenset())
                if name == "pop" and args and args[0].has_const():
                    k = args[0].const
                    dv = dict(a.dvals or {})
                    dv.pop(k, None)
                    return a.replace(dvals=dv, dmust=(a.dmust or frozenset()) - {k},
                                     dmay=None if a.dmay is None else a.dmay - {k})
                if name == "update":
                    # d.update(other): the keys `other` has for certain are overwritten, the keys it may have are joined; an `other` whose
                    # keys are not enumerated may overwrite every entry
                    src = args[0] if args else None
                    dv = dict(a.dvals or {})
                    must = set(a.dmust or ())
                    if src is not None and src.kind == K_DICT:
                        for k, v in (src.dvals or {}).items():
                            if k in (src.dmust or ()):
                                dv[k] = v
                                must.add(k)
                            else:
                                dv[k] = join_av(dv[k], v) if k in dv else v
                        closed = src.dmay is not None and src.elem is None
                        if not closed:
                            un = src.elem if src.elem is not None else top_av(True, "dict.update", ())
                            for k in list(dv):
                                if k not in (src.dvals or {}):
                                    dv[k] = join_av(dv[k], un)
                        for k, v in kwargs.items():
                            dv[k] = v
                            must.add(k)
                        may = None if (a.dmay is None or not closed) else frozenset(a.dmay) | frozenset(src.dmay) | frozenset(kwargs)
                        return a.replace(dvals=dv, dmust=frozenset(must), dmay=may)
                    if src is None:
                        for k, v in kwargs.items():
                            dv[k] = v
                            must.add(k)
                        return a.replace(dvals=dv, dmust=frozenset(must),
                                         dmay=None if a.dmay is None else frozenset(a.dmay) | frozenset(kwargs))
                    un = top_av(True, "dict.update", ())
                    return a.replace(dvals={k: join_av(v, un) for k, v in dv.items()}, dmay=None, dmust=a.dmust or frozenset())
                return a.replace(dmay=None, dmust=frozenset())
            I.mutate(fr, base, node, "dict." + name, upd, strong=True)
            return top_av(False, "dict." + name, ()) if name in ("pop", "setdefault") else const_av(None)
    if base.kind == K_STR:
        if name in ("split", "splitlines", "rsplit"):
            # text provenance: which line of the text, which whitespace-separated token of the line (see subscript of these lists)
            return AV(kind=K_LIST, elem=AV(kind=K_STR, tags=base.tags), origin=fresh_tok(I, fr, node), tags=base.tags,
                      note="text-lines" if name == "splitlines" else ("text-tokens" if not args and not kwargs else None))
        if name in ("startswith", "endswith", "isdigit"):
            return AV(kind=K_BOOL, dtype="bool", shape=())
        return AV(kind=K_STR, tags=base.tags | tags_of(*args))
    if base.kind in (K_ARRAY, K_SCALAR, K_BOOL) or (base.kind == K_TOP and name in ND_AS_LIB | ND_MUTATORS | {"astype", "tolist"}):
        if name in ND_AS_LIB:
            lib = {"conjugate": "conj", "flatten": "ravel_copy", "copy": "copy"}.get(name, name)
            return call_lib(I, fr, "numpy." + lib, [base] + list(args), kwargs, node)
        if name == "astype":
            dt = _dtype_of_arg(args[0] if args else kwargs.get("dtype"))
            return base.replace(dtype=dt or base.dtype, origin=fresh_tok(I, fr, node), const=_NOCONST,
                                alg=alg1(base, alg_nonlinear) if dt == "int" and base.dtype != "int" else dict(base.alg))
        if name == "tolist":
            sh = base.shape[1:] if base.shape else None
            return AV(kind=K_LIST, elem=base.replace(kind=K_SCALAR if sh == () else base.kind, shape=sh, const=_NOCONST),
                      origin=fresh_tok(I, fr, node), tags=base.tags, alg=dict(base.alg), shape=base.shape[:1] if base.shape else None)
        if name in ND_MUTATORS:
            if name == "sort":
                if base.dtype == "complex":
                    I.emit("complex-order", fr, node, what="sort on complex data")
                I.mutate(fr, base, node, "ndarray.sort",
                         lambda a: a.replace(alg=alg1(a, alg_maxred), mono=frozenset([len(a.shape) - 1]) if a.shape else frozenset()),
                         strong=True)
            elif name == "fill" and args:
                v = args[0]
                I.mutate(fr, base, node, "ndarray.fill", lambda a, v=v: I.elem_join(a, v, None))
            else:
                I.mutate(fr, base, node, "ndarray." + name, lambda a: a.replace(shape=None, mono=frozenset()))
            return const_av(None)
        if name == "item":
            return base.replace(kind=K_SCALAR, shape=(), origin=frozenset(["lit"]))
    if base.kind in (K_ARRAY, K_TOP) and name in LIST_MUTATORS and base.note != "file":
        # list-only mutator on an array-like value: mutates a list argument (and raises on an ndarray)
        I.mutate(fr, base, node, "list." + name + " on array-like", lambda a: a.replace(shape=None, mono=frozenset()))
        return const_av(None)
    if base.kind == K_TOP and base.note == "file" or name in ("close", "write", "read", "readlines", "readline"):
        if name in ("read", "readline"):
            return AV(kind=K_STR, tags=frozenset(["file-text"]))
        if name == "readlines":
            return AV(kind=K_LIST, elem=AV(kind=K_STR, tags=frozenset(["file-text"])), origin=fresh_tok(I, fr, node), note="text-lines")
        if name == "write":
            I.emit("io", fr, node, what="write", args=args)
        return const_av(None)
    if base.kind == K_OBJ and base.note and base.note.startswith("exception"):
        return const_av(None)
    I.emit("unknown-method", fr, node, name=name, base=base)
    return top_av(True, "method %s on %s" % (name, base.kind), I.atoms).replace(tags=base.tags | tags_of(*args))


def _dtype_of_arg(av):
    if av is None:
        return None
    if av.has_const() and isinstance(av.const, str):
        s = av.const
        if s.startswith(("float", "f")):
            return "real"
        if s.startswith(("int", "i", "uint")):
            return "int"
        if s.startswith(("complex", "c")):
            return "complex"
        if s.startswith("bool"):
            return "bool"
        return None
    if av.kind == K_OBJ and av.note == "dtype":
        return av.dtype if av.dtype != "top" else None          # x.dtype of an array whose dtype is known
    if av.ref is not None:
        n = av.ref[1] if isinstance(av.ref[1], str) else ""
        n = n.split(".")[-1]
        if n.startswith("float") or n == "double":
            return "real"
        if n.startswith(("int", "uint")):
            return "int"
        if n.startswith("complex"):
            return "complex"
        if n.startswith("bool"):
            return "bool"
    return None


def call_opaque(I, fr, ref, args, kwargs, node):
    return top_av(True, "opaque callable", I.atoms)


# ----------------------------------------------------------------------------- library table
LIB = {}
LIB_DOC = {}


def lib(*names, doc=""):
    def deco(f):
        for n in names:
            LIB[n] = f
            LIB_DOC[n] = doc or (f.__doc__ or "").strip()
        return f
    return deco


def _amplitude_int(I, x):
    """an integer-typed *array of data* (carries amplitude: degree != 0 in some atom), as opposed to an index array"""
    if x.kind != K_ARRAY or x.dtype not in ("int",):
        return False
    for at in I.atoms:
        a = x.a(at)
        if a[0] in ("zero", "const"):
            continue
        d = alg_degree(a)
        if d is None or d == "any" or d != Exp(0):
            return True
    return False


_UFUNC_FORMS = {"numpy.add.accumulate": "numpy.cumsum", "numpy.add.reduce": "numpy.sum", "numpy.maximum.reduce": "numpy.max",
                "numpy.minimum.reduce": "numpy.min", "numpy.cumulative_sum": "numpy.cumsum"}


# leading positional parameter names (from the installed signatures) of the rows whose events the rules read by position
LIB_SIG = {"numpy.interp": ("x", "xp", "fp"), "scipy.signal.resample": ("x", "num"), "numpy.where": ("condition", "x", "y"),
           "numpy.take": ("a", "indices", "axis"), "numpy.insert": ("arr", "obj", "values", "axis"), "numpy.delete": ("arr", "obj", "axis"),
           "numpy.put": ("a", "ind", "v"), "numpy.polyfit": ("x", "y", "deg"), "numpy.linspace": ("start", "stop", "num"),
           "numpy.cumsum": ("a", "axis"), "numpy.diff": ("a", "n", "axis"), "numpy.ediff1d": ("ary", "to_end", "to_begin"),
           "numpy.concatenate": ("arrays", "axis"), "numpy.sum": ("a", "axis"), "numpy.max": ("a", "axis"), "numpy.min": ("a", "axis"),
           "numpy.fft.fft": ("a", "n", "axis"), "numpy.fft.ifft": ("a", "n", "axis"), "numpy.fft.rfft": ("a", "n", "axis"),
           "scipy.fft.fft": ("x", "n", "axis"), "scipy.fftpack.fft": ("x", "n", "axis"),
           "scipy.signal.butter": ("N", "Wn", "btype"), "scipy.signal.filtfilt": ("b", "a", "x"),
           "scipy.integrate.cumulative_trapezoid": ("y", "x", "dx"), "scipy.integrate.cumtrapz": ("y", "x", "dx"),
           "numpy.trapz": ("y", "x", "dx"), "numpy.clip": ("a", "a_min", "a_max"), "numpy.searchsorted": ("a", "v", "side"),
           "numpy.tile": ("A", "reps"), "numpy.repeat": ("a", "repeats", "axis"), "numpy.full": ("shape", "fill_value"),
           "numpy.argmax": ("a", "axis"), "numpy.argmin": ("a", "axis"), "numpy.abs": ("x",), "numpy.absolute": ("x",),
           "numpy.roll": ("a", "shift", "axis"), "numpy.pad": ("array", "pad_width", "mode"), "numpy.flip": ("m", "axis"),
           "numpy.outer": ("a", "b"), "numpy.dot": ("a", "b"), "numpy.mean": ("a", "axis")}


def definitely_not_integer(av):
    """a scalar that is a Python / NumPy float for certain (true division, a float literal, a float-valued library result) and was not
    converted by int(): used where Python or NumPy insist on an integer (slice bounds, lengths, shapes, fft n)"""
    if av is None or av.kind != K_SCALAR or av.dtype != "real" or av.indef:
        return False
    if av.has_const():
        return isinstance(av.const, float)
    return bool(av.tags & frozenset(["div:true", "round:ceil", "round:floor", "round:nearest"]))      # float-typed even when integral-valued


INT_ARGS = {"numpy.fft.fft": ((1, "n"),), "numpy.fft.ifft": ((1, "n"),), "numpy.fft.rfft": ((1, "n"),), "scipy.fft.fft": ((1, "n"),),
            "scipy.fftpack.fft": ((1, "n"),), "numpy.zeros": ((0, "shape"),), "numpy.ones": ((0, "shape"),), "numpy.empty": ((0, "shape"),),
            "scipy.signal.resample": ((1, "num"),), "numpy.linspace": ((2, "num"),), "numpy.logspace": ((2, "num"),)}


def partial_empty(av):
    """an np.empty buffer of which, provably, not every element has been written: every store so far was one of the recognised regions
    (first / last element, all but the first / last, everything) and together they do not cover the array"""
    if av is None or av.kind != K_ARRAY or not (("alloc:empty" in av.tags) or ("alloc:empty-written" in av.tags)):
        return False
    if not (isinstance(av.note, tuple) and av.note and av.note[0] == "init"):
        return False
    regions = av.note[2]
    return not ("all" in regions or {"all-but-last", "last"} <= regions or {"all-but-first", "first"} <= regions)


def call_lib(I, fr, name, args, kwargs, node):
    for pos_, kw_ in INT_ARGS.get(name, ()):
        a_ = args[pos_] if pos_ < len(args) else kwargs.get(kw_)
        if isinstance(a_, AV) and definitely_not_integer(a_):
            I.emit("type-error", fr, node, what="%s(%s=<float>): an integer is required" % (name, kw_))
    ax_ = kwargs.get("axis")
    if isinstance(ax_, AV) and args and isinstance(args[0], AV) and args[0].kind == K_ARRAY and args[0].shape is not None and \
            int_const(ax_) is not None and not isinstance(int_const(ax_), bool) and name not in ("numpy.expand_dims", "numpy.stack", "numpy.insert",
                                                                                                   "numpy.concatenate", "numpy.take", "numpy.delete") and \
            not (-len(args[0].shape) <= int_const(ax_) < len(args[0].shape)) and len(args[0].shape) >= 1:
        I.emit("type-error", fr, node, what="%s(axis=%d) on an array of %d dimension(s): AxisError" % (name, int_const(ax_), len(args[0].shape)))
    for a_ in args:
        if isinstance(a_, AV) and partial_empty(a_):
            I.emit("uninit-read", fr, node, what="%s reads an np.empty buffer of which only %s was written" % (name, sorted(a_.note[2]) or "nothing"))
    if name in _UFUNC_FORMS and name not in LIB:
        # ufunc method forms: np.add.accumulate(x[, axis]) = np.cumsum(x, axis=0 by default), np.add.reduce(x[, axis]) = np.sum(x, axis=0 ...)
        kwargs = dict(kwargs)
        if len(args) < 2 and "axis" not in kwargs:
            kwargs["axis"] = const_av(0)
        name = _UFUNC_FORMS[name]
    I.stats["libcalls"] += 1
    # rules read the event's positional list: leading parameters passed by keyword are put in their positions there (the row below
    # still receives the call as written)
    ev_args = list(args)
    for pn in LIB_SIG.get(name, ())[len(ev_args):]:
        if pn in kwargs:
            ev_args.append(kwargs[pn])
        else:
            break
    I.emit("lib-call", fr, node, name=name, args=ev_args, kwargs={k: v for k, v in kwargs.items() if k != "__builtin__"})
    h = LIB.get(name)
    if h is None and name.startswith("numpy.ndarray."):
        h = LIB.get("numpy." + name.split(".")[-1])
    if h is None:
        I.emit("unmodelled", fr, node, what="library call %s has no API row" % name, lib=name)
        return top_av(True, "no API row for " + name, I.atoms).replace(tags=tags_of(*args))
    C = Ctx(I, fr, name, args, kwargs, node)
    I.emit("api-row", fr, node, name=name)
    res = h(C)
    # out=<array>: the result is written into the caller-visible storage of `out` (ufuncs and reductions alike); rows that
    # model it themselves return a value that already carries out's origin
    out = kwargs.get("out")
    onode = next((k.value for k in getattr(node, "keywords", []) or [] if k.arg == "out"), None)
    if out is not None and isinstance(onode, ast.Subscript) and isinstance(res, AV) and out.kind in (K_ARRAY, K_TOP) and \
            not (res.origin and res.origin == out.origin):
        # out=<a slice of an array>: exactly the store  base[slice] = result
        tgt = ast.copy_location(ast.Subscript(value=onode.value, slice=onode.slice, ctx=ast.Store()), onode)
        I.assign(tgt, res, fr, fr.cur_stmt if getattr(fr, "cur_stmt", None) is not None else node)
        return res.replace(origin=out.origin)
    if out is not None and out.kind in (K_ARRAY, K_LIST, K_TOP) and isinstance(res, AV) and not (res.origin and res.origin == out.origin):
        # the buffer keeps the dtype it was allocated with, whatever is written into it
        keep = res.replace(origin=out.origin, dtype=out.dtype if out.dtype not in ("top", None) else res.dtype)
        I.mutate(fr, out, node, "out=", lambda a, keep=keep: keep.replace(shape=a.shape if a.shape is not None else keep.shape,
                                                                          dtype=a.dtype if a.dtype not in ("top", None) else keep.dtype), strong=True,
                 value=res)
        return keep
    return res


class Ctx(object):
    def __init__(self, I, fr, name, args, kwargs, node):
        self.I, self.fr, self.name, self.args, self.kwargs, self.node = I, fr, name, list(args), dict(kwargs), node

    def arg(self, i, kw=None, default=None):
        if i is not None and i < len(self.args):
            return self.args[i]
        if kw is not None and kw in self.kwargs:
            return self.kwargs[kw]
        return default

    def num(self, i, kw=None, default=None):
        v = self.arg(i, kw, default)
        return as_num(v) if v is not None else None

    def fresh(self):
        return fresh_tok(self.I, self.fr, self.node)

    def top(self, why, *vs):
        return self.I.unmodelled(self.fr, self.node, "%s: %s" % (self.name, why)).replace(tags=tags_of(*vs))

    def mutate(self, target, update, how=None, strong=False):
        return self.I.mutate(self.fr, target, self.node, how or self.name, update, strong=strong)


def axis_of(C, v, i=None, kw="axis", default=None):
    """(axis index or None for 'all', known?)"""
    a = C.arg(i, kw)
    if a is None or a.kind == K_NONE:
        return default, True
    k = int_const(a)
    if k is None:
        return None, False
    if k < 0:
        if v.shape is None:
            return k, True  # negative, rank unknown
        k += len(v.shape)
    return k, True


def reduce_shape(v, axis, known):
    if not known:
        return None
    if axis is None:
        return ()
    if v.shape is None:
        return None
    if axis < 0 or axis >= len(v.shape):
        return None
    return tuple(d for i, d in enumerate(v.shape) if i != axis)


def last_axis(v, axis):
    """does `axis` denote an axis we can name? returns the non-negative index or None"""
    if axis is None:
        if v.shape is not None and len(v.shape) == 1:
            return 0
        return None
    if axis < 0:
        return None
    return axis


def elemwise(C, v, alg_f, sign=None, dtype=None, mono=None, keep_f0=False, tag=None, fresh=True):
    alg = alg1(v, alg_f)
    return AV(kind=v.kind if v.kind in NUMERIC else K_TOP, dtype=dtype or v.dtype, shape=v.shape, alg=alg,
              sign=sign if sign is not None else S_ANY, mono=mono if mono is not None else frozenset(),
              origin=(C.fresh() if v.kind != K_SCALAR else frozenset(["lit"])) if fresh else v.origin,
              tags=v.tags | (frozenset([tag]) if tag else frozenset()), indef=v.indef, f0=v.f0 and keep_f0)


# ---- constructors
def _shape_from_arg(a):
    if a is None:
        return None, {}
    if a.kind in (K_TUPLE, K_LIST) and a.items is not None:
        dims = []
        alg = {}
        for i in a.items:
            dims.append(i.sym if i.sym is not None else LinExpr(fresh_atom("$d")))
            for at in i.atoms():
                alg[at] = alg_lub(alg.get(at, CONST), i.a(at))
        return tuple(dims), alg
    if a.kind in (K_SCALAR, K_BOOL) or a.shape == ():
        return ((a.sym if a.sym is not None else LinExpr(fresh_atom("$d"))),), dict(a.alg)
    return None, dict(a.alg)


def _ctor_alg(shape_alg):
    return {at: alg_weaken(CONST, c) for at, c in shape_alg.items() if c[0] not in ("const", "zero")}


@lib("numpy.zeros", "numpy.ones", "numpy.empty", "numpy.full",
     doc="fresh array of the requested shape; zeros: identically zero; ones: positive constant")
def _zeros(C):
    shape, salg = _shape_from_arg(C.arg(0, "shape"))
    short = C.name.split(".")[-1]
    dt = _dtype_of_arg(C.arg(1 if short != "full" else 2, "dtype")) or "real"
    sign = {"zeros": S_ZERO, "ones": S_POS}.get(short, S_ANY)
    alg = _ctor_alg(salg)
    if short == "full":
        fv = C.num(1, "fill_value")
        if fv is not None:
            sign = fv.sign
            alg = {at: fv.a(at) for at in set(alg) | fv.atoms()}         # every element IS the fill value
    if short == "empty":
        sign = S_ANY
    if alg and sign == S_ZERO:
        sign = S_ZERO
    pconst = None
    if short == "full" and shape is not None and len(shape) == 1 and dt == "real":
        fv = C.num(1, "fill_value")
        if fv is not None and fv.has_const() and isinstance(fv.const, (int, float)) and not isinstance(fv.const, bool):
            pconst = ("pconst", fv.const, ())      # piecewise constant: every element c except the listed leading ones
    return AV(kind=K_ARRAY, dtype=dt, shape=shape, alg=alg, sign=sign, origin=C.fresh(), parts=pconst,
              tags=tags_of(*[a for a in C.args]) | frozenset(["alloc:" + short]), f0=(short == "zeros"),
              mono=axes_all(shape) if short in ("zeros", "ones") else frozenset(),
              note=("init", None, frozenset()) if short in ("ones", "empty", "full") else None)


@lib("numpy.zeros_like", "numpy.ones_like", "numpy.empty_like", "numpy.full_like",
     doc="fresh array with the shape (and dtype unless given) of the argument")
def _zeros_like(C):
    v = C.num(0)
    short = C.name.split(".")[-1]
    dt = _dtype_of_arg(C.arg(None, "dtype")) or v.dtype
    sign = {"zeros_like": S_ZERO, "ones_like": S_POS}.get(short, S_ANY)
    alg = {at: alg_shape(v.a(at)) for at in v.atoms()}
    alg = {at: alg_weaken(CONST, c) for at, c in alg.items() if c[0] not in ("const", "zero")}
    return AV(kind=K_ARRAY, dtype=dt, shape=v.shape, alg=alg, sign=sign, origin=C.fresh(), tags=v.tags | frozenset(["alloc:" + short.replace("_like", "")]),
              indef=v.indef, f0=(short == "zeros_like"),
              mono=axes_all(v.shape) if short in ("zeros_like", "ones_like") else frozenset(),
              note=("init", None, frozenset()) if short in ("ones_like", "empty_like", "full_like") else None)


@lib("numpy.array", "numpy.asarray", "numpy.asanyarray", "numpy.ascontiguousarray", "numpy.copy",
     "numpy.asfarray",
     doc="np.array/np.copy: always a fresh copy; np.asarray: the same object when already an ndarray")
def _array(C):
    src = C.arg(0, "object")
    if src is None:
        return C.top("no argument")
    v = as_num(src)
    short = C.name.split(".")[-1]
    dt = _dtype_of_arg(C.arg(1, "dtype"))
    alias = short in ("asarray", "asanyarray", "ascontiguousarray") and src.kind == K_ARRAY and \
        (dt is None or dt == v.dtype)
    if short in ("asarray", "asanyarray", "ascontiguousarray") and src.kind == K_TOP:
        origin = src.origin | C.fresh()
    elif alias:
        origin = v.origin
    else:
        origin = C.fresh()
    kind = K_ARRAY if v.kind in (K_ARRAY, K_SCALAR, K_BOOL, K_TOP) else v.kind
    alg = dict(v.alg)
    if dt == "int" and v.dtype not in ("int", "bool"):
        alg = alg1(v, alg_nonlinear)
    out = v.replace(kind=kind, dtype=dt or v.dtype, origin=origin, const=_NOCONST, alg=alg, sym=None, expo=None,
                    items=None, elem=None)
    if dt == "int" and v.dtype not in ("int", "bool"):
        out = out.replace(tags=out.tags | frozenset(["round:toward-zero"]), mono=out.mono)
    if src.kind == K_SCALAR and src.sym is not None:
        out = out.replace(sym=src.sym)
    return out


@lib("numpy.arange", doc="ascending integer/real ramp; one int argument n gives length n starting at 0")
def _arange(C):
    n = len(C.args)
    vs = [as_num(a) for a in C.args]
    if "step" in C.kwargs:
        vs.append(as_num(C.kwargs["step"]))
    if n == 1 and "step" not in C.kwargs:
        stop = vs[0]
        ln = stop.sym if stop.sym is not None else LinExpr(fresh_atom("$d"))
        return AV(kind=K_ARRAY, dtype="int" if stop.dtype in ("int", "bool") else "real", shape=(ln,),
                  alg=_ctor_alg(dict(stop.alg)), sign=S_NONNEG, mono=frozenset([0]), origin=C.fresh(),
                  tags=stop.tags | frozenset(["arange0"]), indef=stop.indef, f0=True, note="arange", parts=("ap", 1, 0, 0))
    start, stop = vs[0], vs[1]
    step = vs[2] if len(vs) > 2 else const_av(1)
    ln = None
    if (const_num(step) == 1) and start.sym is not None and stop.sym is not None:
        ln = stop.sym - start.sym
    if ln is None:
        ln = LinExpr(fresh_atom("$d"))
    alg = {}
    for at in set().union(*[v.atoms() for v in vs]):
        cs = [v.a(at) for v in vs]
        if all(c[0] in ("const", "zero") for c in cs):
            continue
        hs = [hom_form(c) for c in cs if c[0] != "zero"]
        if all(h is not None for h in hs) and len({h[0] for h in hs}) == 1 and all(c[0] != "const" or hs[0][0] == Exp(0) for c in cs):
            alg[at] = HOM(hs[0][0], "even" if all(h[1] == "even" for h in hs) else "none")
        else:
            alg[at] = TOPD if not any(is_top(c) and not c[1] for c in cs) else TOPI
    inc = step.sign == S_POS or (const_num(step) or 0) > 0
    tags = tags_of(*vs)
    sign = S_NONNEG if (is_nonneg(start.sign) and inc) else S_ANY
    if const_num(step) == -1 and start.dtype in ("int", "bool") and stop.dtype in ("int", "bool"):
        # integers counted down, A, A-1, ..., B+1: the reverse of arange(B + 1, A + 1)
        if start.sym is not None and stop.sym is not None:
            ln = start.sym - stop.sym
        tags = tags | frozenset(["flip"])
        if const_num(stop) is not None and const_num(stop) >= -1:
            sign = S_NONNEG if const_num(stop) == -1 else S_POS
    return AV(kind=K_ARRAY, dtype=join_dtypes(vs) if join_dtypes(vs) != "bool" else "int", shape=(ln,), alg=alg,
              sign=sign,
              mono=frozenset([0]) if inc else frozenset(), origin=C.fresh(), tags=tags,
              indef=indef_of(*vs), f0=(start.sign == S_ZERO))


@lib("numpy.linspace", doc="num values from start to stop: affine in (start, stop)")
def _linspace(C):
    a, b = C.num(0, "start"), C.num(1, "stop")
    n = C.arg(2, "num", const_av(50))
    ln = n.sym if n.sym is not None else LinExpr(fresh_atom("$d"))
    alg = alg2(a, b, alg_add)
    for at in n.atoms():
        alg[at] = alg_weaken(alg.get(at, CONST), n.a(at))
    ca, cb = const_num(a), const_num(b)
    inc = (ca is not None and cb is not None and ca <= cb) or (a.sign == S_ZERO and is_nonneg(b.sign))
    sign = S_NONNEG if (is_nonneg(a.sign) and is_nonneg(b.sign)) else S_ANY
    return AV(kind=K_ARRAY, dtype="real", shape=(ln,), alg=alg, sign=sign, mono=frozenset([0]) if inc else frozenset(),
              origin=C.fresh(), tags=tags_of(a, b, n) | frozenset(["linspace"]), indef=indef_of(a, b, n),
              f0=(a.sign == S_ZERO))


@lib("numpy.logspace", "numpy.geomspace", doc="positive values; nonlinear in its arguments")
def _logspace(C):
    a, b = C.num(0, "start"), C.num(1, "stop")
    n = C.arg(2, "num", const_av(50))
    ln = n.sym if n.sym is not None else LinExpr(fresh_atom("$d"))
    alg = {at: alg_nonlinear(c) for at, c in alg2(a, b, alg_lub).items()}
    ca, cb = const_num(a), const_num(b)
    return AV(kind=K_ARRAY, dtype="real", shape=(ln,), alg=alg, sign=S_POS, origin=C.fresh(),
              mono=frozenset([0]) if (ca is not None and cb is not None and ca <= cb) else frozenset(),
              tags=tags_of(a, b, n), indef=indef_of(a, b, n))


# ---- elementwise maths
@lib("numpy.abs", "numpy.absolute", "numpy.fabs", doc="|x|: even, non-negative, degree preserved")
def _abs(C):
    v = C.num(0)
    if v is None:
        return C.top("no argument")
    c = _NOCONST
    if const_num(v) is not None:
        c = abs(v.const)
    out = elemwise(C, v, alg_abs, sign=sign_abs(v.sign), dtype="real" if v.dtype == "complex" else v.dtype,
                   mono=v.mono if is_nonneg(v.sign) else frozenset(), keep_f0=True, tag="abs")
    return out.replace(const=c, expo=Exp(to_fraction(c)) if c is not _NOCONST and to_fraction(c) is not None else None)


@lib("numpy.negative")
def _negative(C):
    return negate(C.num(0))


@lib("numpy.sign", doc="sign(x): degree 0, parity of x")
def _sign(C):
    v = C.num(0)
    return elemwise(C, v, alg_sign, sign=v.sign if v.sign != S_ANY else S_ANY, dtype=v.dtype)


def _nonlin(sign_f=None, mono_inc=False, dtype=None, tag=None):
    def h(C):
        v = C.num(0)
        if v is None:
            return C.top("no argument")
        c = _NOCONST
        sign = sign_f(v) if sign_f else S_ANY
        out = elemwise(C, v, alg_nonlinear, sign=sign, dtype=dtype or ("real" if v.dtype in ("int", "bool") else v.dtype),
                       mono=v.mono if mono_inc else frozenset(), tag=tag)
        if v.shape == () and v.sym is not None:
            out = out.replace(sym=opaque_sym(C.name.split(".")[-1], v.sym))
            short_ = C.name.split(".")[-1]
            if short_ == "log":
                _LOG_ARG[repr(out.sym)] = v.sym
            elif short_ == "log2":
                _LOG2_ARG[repr(out.sym)] = v.sym
        return out
    return h


# value numbering for the round trip 2 ** (log(x) / log(2)) -- x in exact arithmetic, x up to rounding in floating point: np.ceil of it is
# at least x (int(np.ceil(.)) used as a slice bound keeps every one of x samples), a bare int(.) may be x - 1
_LOG_ARG, _LOG2_ARG, _POW2LOG = {}, {}, {}


for _n in ("sin", "cos", "tan", "arcsin", "arccos", "arctan", "sinh", "cosh", "tanh"):
    LIB["numpy." + _n] = _nonlin()
    LIB_DOC["numpy." + _n] = "transcendental: no homogeneity (constant stays constant)"
LIB["numpy.exp"] = _nonlin(lambda v: S_POS, mono_inc=True)
LIB["numpy.expm1"] = _nonlin(mono_inc=True)
for _n in ("log", "log10", "log2", "log1p"):
    LIB["numpy." + _n] = _nonlin(mono_inc=True)
    LIB_DOC["numpy." + _n] = "logarithm: increasing, no homogeneity"
LIB["numpy.isnan"] = _nonlin(dtype="bool")
LIB["numpy.isfinite"] = _nonlin(dtype="bool")
LIB["numpy.isinf"] = _nonlin(dtype="bool")


def _rounder(direction):
    def h(C):
        v = C.num(0)
        if v is None:
            return C.top("no argument")
        if v.dtype in ("int", "bool"):
            return v
        sign = v.sign if v.sign == S_ZERO else (S_NONNEG if is_nonneg(v.sign) else
                                                (S_NONPOS if v.sign in (S_NEG, S_NONPOS) else S_ANY))
        if direction == "ceil" and v.sign == S_POS:
            sign = S_POS
        out = elemwise(C, v, alg_nonlinear, sign=sign, dtype="real", mono=v.mono, tag="round:" + direction)
        c = const_num(v)
        if c is not None:
            f = {"ceil": math.ceil, "floor": math.floor, "nearest": round, "toward-zero": math.trunc}[direction]
            out = out.replace(const=float(f(c)), sym=LinExpr(int(f(c))), expo=Exp(int(f(c))), sign=sign_of_number(f(c)))
        elif v.shape == () and direction == "ceil" and v.sym is not None and repr(v.sym) in _POW2LOG:
            out = out.replace(sym=_POW2LOG[repr(v.sym)])         # ceil(2 ** log2(x)) keeps all x (x or x + 1): as a slice bound it is x
        elif v.shape == ():
            out = out.replace(sym=opaque_sym(direction, v.sym) if v.sym is not None else LinExpr(fresh_atom("$c")))
        if v.shape == ():
            base = v.rel or ((v.sym, 1, "eq", None) if v.sym is not None else None)
            if base is not None:
                cmp_ = {"ceil": "ge" if base[2] in ("eq", "ge") else None, "floor": "le" if base[2] in ("eq", "le") else None,
                        "nearest": None, "toward-zero": ("le" if base[2] in ("eq", "le") else None) if is_nonneg(v.sign) else None}[direction]
                out = out.replace(rel=(base[0], base[1], cmp_, "int"))
        return out.replace(note="integral")
    return h


LIB["numpy.ceil"] = _rounder("ceil")
LIB["numpy.floor"] = _rounder("floor")
LIB["numpy.round"] = LIB["numpy.around"] = LIB["numpy.rint"] = _rounder("nearest")
LIB["numpy.trunc"] = LIB["numpy.fix"] = _rounder("toward-zero")
LIB["math.ceil"] = _rounder("ceil")
LIB["math.floor"] = _rounder("floor")
for _n, _d in (("ceil", ">= x"), ("floor", "<= x"), ("round", "nearest: either direction"), ("trunc", "toward zero")):
    LIB_DOC["numpy." + _n] = "rounding " + _d


@lib("numpy.sqrt", "math.sqrt", doc="x ** 0.5")
def _sqrt(C):
    v = C.num(0)
    half = Exp(Fraction(1, 2))
    out = elemwise(C, v, lambda a: alg_pow(a, half), sign=v.sign if is_nonneg(v.sign) else S_NONNEG,
                   dtype="real" if v.dtype != "complex" else "complex", mono=v.mono, keep_f0=True)
    c = const_num(v)
    if c is not None and c >= 0:
        out = out.replace(const=math.sqrt(c))
    return out


@lib("numpy.radians", "numpy.deg2rad", "numpy.degrees", "numpy.rad2deg", doc="multiplication by a positive constant")
def _radians(C):
    v = C.num(0)
    return elemwise(C, v, lambda a: a, sign=v.sign, dtype="real", mono=v.mono, keep_f0=True,
                    tag="unit:" + ("rad" if C.name.split(".")[-1] in ("radians", "deg2rad") else "deg"))


@lib("numpy.conj", "numpy.conjugate", doc="complex conjugate: real-linear, fresh array")
def _conj(C):
    v = C.num(0)
    return elemwise(C, v, lambda a: a, sign=v.sign if v.dtype != "complex" else S_ANY, mono=v.mono, keep_f0=True,
                    tag="conj")


@lib("numpy.real", "numpy.imag", doc="real/imaginary part: real-linear; a view for complex input")
def _real(C):
    v = C.num(0)
    return v.replace(dtype="real" if v.dtype in ("complex", "real", "top") else v.dtype, const=_NOCONST,
                     sign=v.sign if v.dtype != "complex" else S_ANY, tags=v.tags | frozenset([C.name.split(".")[-1]]))


@lib("numpy.power", "numpy.float_power")
def _power(C):
    return binop(C.I, C.fr, ast.Pow(), C.arg(0), C.arg(1), C.node)


@lib("numpy.multiply")
def _multiply(C):
    return binop(C.I, C.fr, ast.Mult(), C.arg(0), C.arg(1), C.node)


@lib("numpy.add")
def _add(C):
    v = binop(C.I, C.fr, ast.Add(), C.arg(0), C.arg(1), C.node)
    n = C.node
    if isinstance(n, ast.Call) and len(n.args) >= 2 and C.I._adjacent_pair(n.args[0], n.args[1]) and v.kind == K_ARRAY:
        v = v.replace(tags=v.tags | frozenset(["pairsum"]))            # np.add(y[1:], y[:-1]): the trapezoid rule's integrand sums
    return v


@lib("numpy.subtract")
def _subtract(C):
    return binop(C.I, C.fr, ast.Sub(), C.arg(0), C.arg(1), C.node)


@lib("numpy.divide", "numpy.true_divide")
def _divide(C):
    return binop(C.I, C.fr, ast.Div(), C.arg(0), C.arg(1), C.node)


@lib("numpy.mod", "numpy.remainder", "numpy.fmod")
def _mod(C):
    return binop(C.I, C.fr, ast.Mod(), C.arg(0), C.arg(1), C.node)


@lib("numpy.square")
def _square(C):
    return binop(C.I, C.fr, ast.Pow(), C.arg(0), const_av(2), C.node)


@lib("numpy.maximum", "numpy.minimum", "numpy.fmax", "numpy.fmin", doc="elementwise max/min: order statistic")
def _maximum(C):
    a, b = C.num(0), C.num(1)
    if a.dtype == "complex" or b.dtype == "complex":
        C.I.emit("complex-order", C.fr, C.node, what=C.name + " on complex data")
    alg = {at: alg_maxred(c) for at, c in alg2(a, b, alg_lub).items()}
    sign = sign_join(a.sign, b.sign)
    if C.name.endswith(("maximum", "fmax")) and (is_nonneg(a.sign) or is_nonneg(b.sign)):
        sign = S_NONNEG
    sh = bshape(a.shape, b.shape)
    return AV(kind=result_kind(sh, a, b), dtype=dtype_join(a.dtype, b.dtype), shape=sh, alg=alg, sign=sign,
              origin=C.fresh(), tags=tags_of(a, b), indef=indef_of(a, b), mono=a.mono & b.mono)


@lib("numpy.maximum.accumulate", "numpy.minimum.accumulate", doc="running max/min along an axis")
def _maxacc(C):
    v = C.num(0)
    ax, known = axis_of(C, v, 1, default=0)
    inc = C.name.startswith("numpy.maximum")
    return elemwise(C, v, alg_maxred, sign=v.sign, mono=frozenset([ax]) if (inc and known and ax is not None and ax >= 0) else frozenset())


@lib("numpy.clip", doc="clip(x, lo, hi): homogeneous only for bounds that are None or 0")
def _clip(C):
    v = C.num(0)
    lo, hi = C.arg(1, "a_min"), C.arg(2, "a_max")
    bounds = [b for b in (lo, hi) if b is not None and b.kind != K_NONE]

    def f(at):
        a = v.a(at)
        if a[0] in ("const", "zero") and all(b.a(at)[0] in ("const", "zero") for b in bounds):
            return CONST
        if is_top(a):
            return a
        h = hom_form(a)
        if all(b.sign == S_ZERO for b in bounds) or not bounds:
            return HOM(h[0], "none") if h else a
        if h and h[0] == Exp(0):
            return HOM(0, "none")
        return TOPD
    alg = {at: f(at) for at in v.atoms() | set().union(*[b.atoms() for b in bounds]) if True}
    sign = v.sign
    if lo is not None and lo.kind != K_NONE and is_nonneg(lo.sign):
        sign = S_POS if lo.sign == S_POS else S_NONNEG
    return AV(kind=v.kind, dtype=v.dtype, shape=v.shape, alg=alg, sign=sign, mono=v.mono, origin=C.fresh(),
              tags=tags_of(v, *bounds) | frozenset(["clip"]), indef=indef_of(v, *bounds))


# ---- reductions
def _reduction(alg_f, sign_f, tag=None, order=False, dtype_f=None):
    def h(C):
        v = C.num(0)
        if v is None:
            return C.top("no argument")
        builtin = "__builtin__" in C.kwargs
        if builtin:
            ax, known = (0 if (v.shape is not None and len(v.shape) > 1) else None), True
        else:
            ax, known = axis_of(C, v, 1)
        if order and v.dtype == "complex":
            C.I.emit("complex-order", C.fr, C.node, what="%s on complex data" % C.name, operand=v)
        shape = reduce_shape(v, ax, known) if not (ax is not None and ax < 0) else (v.shape[:-1] if (v.shape and ax == -1) else None)
        if C.arg(None, "keepdims") is not None:
            shape = None
        kind = K_SCALAR if shape == () else (K_ARRAY if shape is not None else (K_TOP if v.shape is None else K_ARRAY))
        if shape is None and v.shape is not None and len(v.shape) == 1:
            kind, shape = K_SCALAR, ()
        alg = alg1(v, alg_f)
        return AV(kind=kind, dtype=(dtype_f(v) if dtype_f else v.dtype), shape=shape, alg=alg, sign=sign_f(v),
                  origin=frozenset(["lit"]) if kind == K_SCALAR else C.fresh(),
                  tags=v.tags | (frozenset([tag]) if tag else frozenset()), indef=v.indef,
                  sym=(LinExpr(fresh_atom("$k")) if (dtype_f and dtype_f(v) == "int" and kind == K_SCALAR) else None))
    return h


def _sum_sign(v):
    return v.sign if v.sign in (S_ZERO, S_NONNEG, S_NONPOS) else (S_NONNEG if v.sign == S_POS else (S_NONPOS if v.sign == S_NEG else S_ANY))


LIB["numpy.sum"] = LIB["numpy.nansum"] = _reduction(lambda a: a, _sum_sign, tag="red:sum",
                                                    dtype_f=lambda v: "int" if v.dtype == "bool" else v.dtype)
LIB["numpy.mean"] = LIB["numpy.average"] = LIB["numpy.nanmean"] = _reduction(
    lambda a: a, lambda v: v.sign, tag="red:mean", dtype_f=lambda v: "real" if v.dtype in ("int", "bool") else v.dtype)
LIB["numpy.max"] = LIB["numpy.amax"] = LIB["numpy.nanmax"] = _reduction(alg_maxred, lambda v: v.sign, tag="red:max", order=True)
LIB["numpy.min"] = LIB["numpy.amin"] = LIB["numpy.nanmin"] = _reduction(alg_maxred, lambda v: v.sign, tag="red:min", order=True)
LIB["numpy.median"] = _reduction(alg_maxred, lambda v: v.sign, tag="red:median", order=True)
LIB["numpy.ptp"] = _reduction(alg_maxred, lambda v: S_NONNEG, tag="red:ptp", order=True)
LIB["numpy.argmax"] = LIB["numpy.nanargmax"] = _reduction(alg_argorder, lambda v: S_NONNEG, tag="red:argmax", order=True,
                                                         dtype_f=lambda v: "int")
_argmax_plain = LIB["numpy.argmax"]


def _argmax(C):
    """argmax of a 1-D boolean mask is the position of its first True (0 when there is none): the smallest index np.where(mask)[0]
    would list; of the reversed mask it counts back from the end, and len - 1 - that is the largest index"""
    res = _argmax_plain(C)
    v = C.num(0)
    if v is not None and v.kind == K_ARRAY and v.dtype == "bool" and v.shape is not None and len(v.shape) == 1 and res.kind == K_SCALAR:
        if isinstance(v.note, tuple) and v.note and v.note[0] == "flip-of":
            if res.sym is not None and len(res.sym.atoms()) == 1:
                if not hasattr(C.I, "revfirst"):
                    C.I.revfirst = {}
                C.I.revfirst[next(iter(res.sym.atoms()))] = (v.note[1], v.note[2])
        else:
            res = res.replace(ext=("lo", tuple(sorted(v.origin))), tags=res.tags | frozenset(["sel:first"]))
    return res


LIB["numpy.argmax"] = _argmax
LIB["numpy.argmin"] = LIB["numpy.nanargmin"] = _reduction(alg_argorder, lambda v: S_NONNEG, tag="red:argmin", order=True,
                                                         dtype_f=lambda v: "int")
LIB["numpy.std"] = _reduction(alg_abs, lambda v: S_NONNEG, tag="red:std", dtype_f=lambda v: "real")
LIB["numpy.var"] = _reduction(lambda a: alg_pow(a, Exp(2), 2), lambda v: S_NONNEG, tag="red:var", dtype_f=lambda v: "real")
LIB["numpy.prod"] = _reduction(lambda a: a if a[0] in ("const", "zero") else TOPD, lambda v: v.sign if is_nonneg(v.sign) else S_ANY)
LIB["numpy.any"] = LIB["numpy.all"] = _reduction(alg_argorder, lambda v: S_NONNEG, dtype_f=lambda v: "bool")
def _alg_nonzero_count(a):
    """how many entries are non-zero is unchanged by scaling or negating the array"""
    if a[0] in ("zero", "const"):
        return CONST
    if is_top(a) or hom_form(a) is None:
        return a
    return HOM(0, "even")


LIB["numpy.count_nonzero"] = _reduction(_alg_nonzero_count, lambda v: S_NONNEG, dtype_f=lambda v: "int")
LIB["numpy.trace"] = _reduction(lambda a: a, lambda v: S_ANY)
for _n in ("sum", "mean"):
    LIB_DOC["numpy." + _n] = "linear reduction (axis removes one dimension)"
for _n in ("max", "min", "argmax", "argmin"):
    LIB_DOC["numpy." + _n] = "ordering reduction: positively homogeneous, parity kept only for even input; undefined order on complex"


# ---- cumulative / linear structure
@lib("numpy.cumsum", "numpy.nancumsum", doc="running sum along axis (flattened when axis is None): linear; nondecreasing for a nonneg input; out= mutates")
def _cumsum(C):
    v = C.num(0)
    ax, known = axis_of(C, v, 1)
    shape = v.shape
    if ax is None and known and v.shape is not None and len(v.shape) != 1:
        shape = (LinExpr(fresh_atom("$f")),)
    ma = last_axis(v, ax) if known else None
    if known and ax is not None and ax < 0 and v.shape is not None:
        ma = len(v.shape) + ax
    mono = frozenset([ma]) if (ma is not None and is_nonneg(v.sign)) else frozenset()
    dt = _dtype_of_arg(C.arg(2, "dtype")) or ("int" if v.dtype == "bool" else v.dtype)
    cparts = None
    if isinstance(v.parts, tuple) and v.parts and v.parts[0] == "pconst" and v.shape is not None and len(v.shape) == 1 and \
            all(k_ in (0, 1) for k_, _ in v.parts[2]):
        c_ = v.parts[1]
        ld = dict(v.parts[2])
        v0, v1 = ld.get(0, c_), ld.get(1, c_)
        cparts = ("ap", c_, v0, v0 + v1 - c_)      # running sum of [v0, v1, c, c, ...]: element k >= 1 is c*k + (v0 + v1 - c)
    res = AV(kind=K_ARRAY, dtype=dt, shape=shape, alg=dict(v.alg), sign=_sum_sign(v) if v.sign != S_POS else S_POS, parts=cparts,
             mono=mono, origin=C.fresh(), indef=v.indef,
             # the running sum of (y[k] + y[k+1]) * h / 2 IS the trapezoid rule; of anything else it is the rectangle rule
             tags=(v.tags - frozenset(["pairsum"])) | frozenset(["quad:trapezoid" if "pairsum" in v.tags else "quad:rectangle", "cum"]),
             f0=v.f0 and (v.shape is None or len(v.shape) == 1 or (ma is not None and v.shape is not None and ma == len(v.shape) - 1)))
    out = C.arg(3, "out")
    if out is not None and out.kind != K_NONE:
        keep = res.replace(origin=out.origin)
        C.mutate(out, lambda a, keep=keep: keep, how="out=", strong=True)
        return keep
    return res


@lib("scipy.integrate.cumulative_trapezoid", "scipy.integrate.cumtrapz",
     doc="cumulative trapezoid along axis; length n-1, or n with initial=; linear in y, times dx (or x)")
def _cumtrapz(C):
    y = C.num(0, "y")
    x = C.num(1, "x")
    dx = C.num(2, "dx", const_av(1.0))
    if x is not None and x.kind == K_NONE:
        x = None
    ax, known = axis_of(C, y, 3, default=-1)
    initial = C.arg(4, "initial")
    has_init = initial is not None and initial.kind != K_NONE
    shape = None
    ma = None
    if y.shape is not None and known:
        k = ax if ax >= 0 else len(y.shape) + ax
        if 0 <= k < len(y.shape):
            ma = k
            d = y.shape[k]
            nd = d if has_init else ((d - 1) if d is not None else None)
            shape = tuple(nd if i == k else s for i, s in enumerate(y.shape))
    w = x if x is not None else dx
    alg = alg2(y, w, alg_mul)
    wpos = (x is not None and bool(x.mono)) or (x is None and is_nonneg(dx.sign))
    nonneg = is_nonneg(y.sign) and wpos
    init0 = has_init and (const_num(initial) == 0)
    tags = y.tags | w.tags | frozenset(["quad:trapezoid", "cum"])
    return AV(kind=K_ARRAY, dtype="real" if y.dtype != "complex" else "complex", shape=shape, alg=alg,
              sign=S_NONNEG if (nonneg and (not has_init or init0)) else S_ANY,
              mono=frozenset([ma]) if (nonneg and ma is not None and (not has_init or init0)) else frozenset(),
              origin=C.fresh(), tags=tags, indef=indef_of(y, w),
              f0=init0 and (ma is not None and y.shape is not None and ma == len(y.shape) - 1))


@lib("scipy.integrate.trapezoid", "numpy.trapezoid", "numpy.trapz", "scipy.integrate.trapz", "scipy.integrate.simpson",
     doc="trapezoid integral along axis: linear in y, times dx (or x)")
def _trapz(C):
    y = C.num(0, "y")
    x = C.num(1, "x")
    dx = C.num(2, "dx", const_av(1.0))
    if x is not None and x.kind == K_NONE:
        x = None
    ax, known = axis_of(C, y, 3, default=-1)
    w = x if x is not None else dx
    shape = None
    if y.shape is not None and known:
        k = ax if ax >= 0 else len(y.shape) + ax
        shape = tuple(s for i, s in enumerate(y.shape) if i != k)
    wpos = (x is not None and bool(x.mono)) or (x is None and is_nonneg(dx.sign))
    return AV(kind=K_SCALAR if shape == () else (K_ARRAY if shape is not None else K_TOP), dtype="real", shape=shape,
              alg=alg2(y, w, alg_mul), sign=S_NONNEG if (is_nonneg(y.sign) and wpos) else S_ANY,
              origin=frozenset(["lit"]) if shape == () else C.fresh(),
              tags=y.tags | w.tags | frozenset(["quad:trapezoid"]), indef=indef_of(y, w))


@lib("numpy.diff", doc="first difference along axis: length n-1 (+1 per scalar prepend/append); linear")
def _diff(C):
    v = C.num(0)
    if getattr(C.I, "watch_int", False) and _amplitude_int(C.I, v):
        C.I.emit("int-arith", C.fr, C.node, op="Sub", left=v, right=v)
    n = C.arg(1, "n")
    ax, known = axis_of(C, v, 2, default=-1)
    pre, app = C.arg(None, "prepend"), C.arg(None, "append")
    shape = None
    if v.shape is not None and known and (n is None or const_num(n) == 1):
        k = ax if ax >= 0 else len(v.shape) + ax
        if 0 <= k < len(v.shape):
            d = v.shape[k]
            if d is not None:
                d = d - 1
                for e in (pre, app):
                    if e is not None and e.kind != K_NONE:
                        en = as_num(e)
                        if en.shape == ():
                            d = d + 1
                        elif en.shape is not None and len(en.shape) == len(v.shape) and en.shape[k] is not None:
                            d = d + en.shape[k]
                        else:
                            d = None
                            break
            shape = tuple(d if i == k else s for i, s in enumerate(v.shape))
    alg = dict(v.alg)
    extra = [as_num(e) for e in (pre, app) if e is not None and e.kind != K_NONE]
    for e in extra:
        alg = {at: alg_add(alg.get(at, CONST) if not (v.sign == S_ZERO) else ZERO, e.a(at)) for at in set(alg) | e.atoms()}
    return AV(kind=K_ARRAY, dtype=v.dtype if v.dtype != "bool" else "int", shape=shape, alg=alg, sign=S_ANY,
              origin=C.fresh(), tags=tags_of(v, *extra) | frozenset(["diff"]), indef=indef_of(v, *extra))


@lib("numpy.ediff1d", doc="flattened first difference with optional to_begin/to_end values; length n-1 + extras")
def _ediff1d(C):
    v = C.num(0)
    if getattr(C.I, "watch_int", False) and _amplitude_int(C.I, v):
        C.I.emit("int-arith", C.fr, C.node, op="Sub", left=v, right=v)
    te, tb = C.arg(1, "to_end"), C.arg(2, "to_begin")
    d = v.shape[0] - 1 if (v.shape is not None and len(v.shape) == 1 and v.shape[0] is not None) else None
    extra = []
    for e in (te, tb):
        if e is not None and e.kind != K_NONE:
            en = as_num(e)
            extra.append(en)
            if d is not None:
                if en.shape == ():
                    d = d + 1
                elif en.shape is not None and len(en.shape) == 1 and en.shape[0] is not None:
                    d = d + en.shape[0]
                else:
                    d = None
    alg = dict(v.alg)
    base_zero = v.sign == S_ZERO
    for e in extra:
        alg = {at: alg_lub(ZERO if base_zero else alg.get(at, CONST), e.a(at)) for at in set(alg) | e.atoms()}
    return AV(kind=K_ARRAY, dtype=v.dtype if v.dtype != "bool" else "int", shape=(d,) if d is not None else (None,),
              alg=alg, sign=S_ANY, origin=C.fresh(), tags=tags_of(v, *extra) | frozenset(["diff"]),
              indef=indef_of(v, *extra))


def _part_desc(x):
    if x.kind in (K_SCALAR, K_BOOL) or x.shape == ():
        if x.has_const():
            return ("const", x.const)
        if x.sym is not None:
            return ("sym", repr(x.sym))
        return ("val", x.tags)
    return None


def _base_parts(v):
    if v.parts is not None and v.parts and all(isinstance(x, tuple) and x and x[0] in ("const", "sym", "arr", "val") for x in v.parts):
        return v.parts
    return (("arr", v.tags),)


@lib("numpy.insert", doc="fresh copy with values inserted before index obj along axis (flattened when axis None)")
def _insert(C):
    v = C.num(0)
    obj = C.arg(1, "obj")
    vals = C.num(2, "values")
    ax, known = axis_of(C, v, 3)
    return _insert_core(C, v, obj, vals, ax, known)


def _insert_core(C, v, obj, vals, ax, known):
    shape = None
    k = None
    if v.shape is not None:
        if len(v.shape) == 1:
            k = 0
        elif known and ax is not None:
            k = ax if ax >= 0 else len(v.shape) + ax
    objn = as_num(obj)
    if k is not None and v.shape[k] is not None and objn.shape == ():
        add = None
        if vals.shape == () or (vals.shape is not None and len(vals.shape) < len(v.shape)):
            add = LinExpr(1)
        elif vals.shape is not None and len(vals.shape) == 1 and len(v.shape) == 1 and vals.shape[0] is not None:
            add = vals.shape[0]
        if add is not None:
            shape = tuple((d + add) if i == k else d for i, d in enumerate(v.shape))
    if shape is None and k is not None and v.shape is not None:
        shape = tuple(None if i == k else d for i, d in enumerate(v.shape))  # rank kept, extended dimension unknown
    alg = {}
    for at in v.atoms() | vals.atoms() | objn.atoms():
        alg[at] = alg_weaken(alg_lub(v.a(at), vals.a(at)), objn.a(at))
    mono = frozenset()
    at_start = const_num(objn) == 0
    if k is not None and k in v.mono and at_start and is_nonneg(v.sign) and vals.sign == S_ZERO:
        mono = frozenset([k])
    if k is not None and k in v.mono and ((vals.note == "lastof" and vals.origin == v.origin) or
                                          (vals.ext is not None and vals.ext[0] == "hi" and vals.ext[1] == tuple(sorted(v.origin)))):
        mono = frozenset([k])  # inserting a copy of the last element keeps the order wherever it goes after it... or before it
    if k is not None and k in v.mono and objn.sym is not None and v.shape[k] is not None and objn.sym == v.shape[k] and \
            vals.sym is not None and "index-bound" in (vals.note or ""):
        mono = frozenset([k])
    f0 = (at_start and vals.sign == S_ZERO and v.shape is not None and len(v.shape) == 1) or \
         (v.f0 and not at_start and const_num(objn) is not None and const_num(objn) > 0)
    parts = None
    pd = _part_desc(vals)
    if pd is not None and v.shape is not None and len(v.shape) == 1:
        if at_start:
            parts = (pd,) + _base_parts(v)
        elif objn.sym is not None and v.shape[0] is not None and objn.sym == v.shape[0]:
            parts = _base_parts(v) + (pd,)
    return AV(kind=K_ARRAY, dtype=dtype_join(v.dtype, vals.dtype), shape=shape, alg=alg, sign=sign_join(v.sign, vals.sign),
              mono=mono, origin=C.fresh(), tags=tags_of(v, vals, objn), indef=indef_of(v, vals, objn), f0=f0, parts=parts)


@lib("numpy.append", doc="fresh flattened concatenation")
def _append(C):
    a, b = C.num(0), C.num(1)
    d = None
    if a.shape is not None and len(a.shape) == 1 and a.shape[0] is not None and b.shape is not None:
        if b.shape == ():
            d = a.shape[0] + 1
        elif len(b.shape) == 1 and b.shape[0] is not None:
            d = a.shape[0] + b.shape[0]
    return AV(kind=K_ARRAY, dtype=dtype_join(a.dtype, b.dtype), shape=(d,) if d is not None else None,
              alg=alg2(a, b, alg_lub), sign=sign_join(a.sign, b.sign), origin=C.fresh(), tags=tags_of(a, b),
              indef=indef_of(a, b), f0=a.f0)


@lib("numpy.delete", doc="fresh copy without the indexed entries: order preserved (a subsequence)")
def _delete(C):
    v = C.num(0)
    obj = as_num(C.arg(1, "obj"))
    alg = {at: alg_weaken(v.a(at), obj.a(at)) for at in v.atoms() | obj.atoms()}
    shape = (LinExpr(fresh_atom("$x")),) if (v.shape is not None and len(v.shape) == 1) else None
    return AV(kind=K_ARRAY, dtype=v.dtype, shape=shape, alg=alg, sign=v.sign, mono=v.mono, origin=C.fresh(),
              tags=tags_of(v, obj) | frozenset(["subsequence"]), indef=indef_of(v, obj))


@lib("numpy.concatenate", "numpy.hstack", "numpy.vstack", "numpy.stack", "numpy.column_stack",
     doc="fresh concatenation along axis 0 (lengths add)")
def _concatenate(C):
    seq = C.arg(0)
    short_ = C.name.split(".")[-1]
    # ([c], arr, [d]): literal one-element pieces around one array are insertions at the front / at the end (same typing as np.insert)
    if short_ in ("concatenate", "hstack") and seq is not None and seq.items is not None and len(seq.items) >= 2:
        arrs = [i for i in seq.items if not (i.kind in (K_LIST, K_TUPLE) and i.items is not None)]
        lits = [i for i in seq.items if i.kind in (K_LIST, K_TUPLE) and i.items is not None]
        if len(arrs) == 1 and lits and all(len(i.items) == 1 and as_num(i.items[0]).shape == () for i in lits):
            core = as_num(arrs[0])
            if core.kind == K_ARRAY and core.shape is not None and len(core.shape) == 1:
                k = [j for j, i in enumerate(seq.items) if i is arrs[0]][0]
                res = core
                for i in reversed(seq.items[:k]):
                    res = _insert_core(C, res, const_av(0), as_num(i.items[0]), None, True)
                for i in seq.items[k + 1:]:
                    end = AV(kind=K_SCALAR, dtype="int", shape=(), sym=res.shape[0], sign=S_NONNEG, origin=frozenset(["lit"])) \
                        if res.shape is not None and res.shape[0] is not None else None
                    if end is None:
                        res = None
                        break
                    res = _insert_core(C, res, end, as_num(i.items[0]), None, True)
                if res is not None:
                    return res
    parts = [as_num(i) for i in seq.items] if seq is not None and seq.items is not None else None
    if parts is None:
        v = as_num(seq) if seq is not None else None
        return AV(kind=K_ARRAY, shape=None, origin=C.fresh(), alg=dict(v.alg) if v is not None else {},
                  tags=v.tags if v is not None else frozenset(), indef=True)
    short = C.name.split(".")[-1]
    shapes = [p.shape for p in parts]
    if short == "vstack":                       # 1-D rows are promoted to (1, n)
        shapes = [((ONE,) + tuple(sh)) if (sh is not None and len(sh) == 1) else sh for sh in shapes]
    if short == "stack":                        # np.stack(parts, axis=0): every part gets a new leading axis of length 1, then joined along it
        ax_ = C.arg(1, "axis")
        if ax_ is None or ax_.kind == K_NONE or int_const(ax_) == 0:
            shapes = [((ONE,) + tuple(sh)) if sh is not None else None for sh in shapes]
            short = "vstack"
        else:
            shapes = [None for _ in shapes]
    ja = None
    ranks = {len(sh) for sh in shapes if sh is not None}
    if all(sh is not None for sh in shapes) and len(ranks) == 1 and shapes:
        r = ranks.pop()
        if r >= 1:
            if short == "concatenate":
                ax = C.arg(1, "axis")
                k = 0 if (ax is None or ax.kind == K_NONE) else int_const(ax)
                ja = (k if k >= 0 else r + k) if k is not None else None
            elif short == "hstack":
                ja = 0 if r == 1 else 1
            elif short == "vstack":
                ja = 0
    shape = None
    if ja is not None and 0 <= ja < len(shapes[0]):
        dims = []
        for k in range(len(shapes[0])):
            col = [sh[k] for sh in shapes]
            if k == ja:
                d = LinExpr(0)
                for x in col:
                    d = (d + x) if (d is not None and x is not None) else None
                dims.append(d)
            else:
                known = [x for x in col if x is not None]
                dims.append(known[0] if known and all(x == known[0] for x in known) else None)
        shape = tuple(dims)
    sign = parts[0].sign if parts else S_ANY
    for p in parts[1:]:
        sign = sign_join(sign, p.sign)
    # a leading block of zeros in front of a non-negative array that is nondecreasing along the join axis: still nondecreasing, and
    # (when the join axis is the last one) the first element along it is exactly zero -- the `initial=0` of a cumulative integral written out
    mono = frozenset()
    f0 = bool(parts) and parts[0].f0 and ja is not None and shape is not None and ja != len(shape) - 1
    if ja is not None and len(parts) == 2 and parts[0].sign == S_ZERO and is_nonneg(parts[1].sign) and ja in parts[1].mono:
        mono = frozenset([ja])
    if ja is not None and shape is not None and ja == len(shape) - 1 and parts and (parts[0].sign == S_ZERO or parts[0].f0):
        f0 = True
    pieces = None
    if shape is not None and len(shape) == 1:
        pieces = ()
        for p in parts:
            pd = _part_desc(p) if p.shape == () else None
            if p.shape is not None and len(p.shape) == 1 and p.shape[0] == ONE and p.has_const():
                pd = ("const", p.const)
            pieces = pieces + ((pd,) if pd is not None else _base_parts(p))
    return AV(kind=K_ARRAY, dtype=join_dtypes(parts) if parts else "real", shape=shape, alg=alg_lub_many(parts), sign=sign, mono=mono,
              origin=C.fresh(), tags=tags_of(*parts), indef=indef_of(*parts), f0=f0, parts=pieces)


@lib("io.StringIO", "io.BytesIO", doc="in-memory file over a text: reading it (np.genfromtxt, .read()) sees that text")
def _stringio(C):
    t = C.arg(0)
    return AV(kind=K_TOP, note="file", origin=frozenset(["lit"]), tags=(t.tags if t is not None else frozenset()))


@lib("numpy.char.mod", "numpy.strings.mod", doc="element-wise `fmt % value`: an array of strings, one per element")
def _charmod(C):
    v = C.arg(1)
    vn = as_num(v) if v is not None else None
    return AV(kind=K_LIST, elem=AV(kind=K_STR, tags=tags_of(*C.args)), origin=C.fresh(), tags=tags_of(*C.args),
              shape=vn.shape if vn is not None else None)


@lib("numpy.pad", doc="fresh array extended by (before, after) constant values along the (single) axis")
def _pad(C):
    v = C.num(0)
    pw = C.arg(1, "pad_width")
    cv = C.arg(None, "constant_values")
    mode = C.arg(2, "mode")
    d = None
    if v.shape is not None and len(v.shape) == 1 and v.shape[0] is not None and pw is not None:
        if pw.items is not None and len(pw.items) == 2 and all(i.kind in (K_SCALAR, K_BOOL) for i in pw.items):
            d = v.shape[0]
            for i in pw.items:
                d = d + (i.sym if i.sym is not None else LinExpr(fresh_atom("$p")))
        elif pw.kind == K_SCALAR and pw.sym is not None:
            d = v.shape[0] + pw.sym.scale(2)
    cvn = as_num(cv) if (cv is not None and cv.kind != K_NONE) else const_av(0)
    constant = mode is None or (mode.has_const() and mode.const == "constant")
    alg = {}
    pwn = as_num(pw) if pw is not None else const_av(0)
    for at in v.atoms() | cvn.atoms() | pwn.atoms():
        # 'edge' / 'reflect' / 'symmetric' / 'wrap' fill the pads with elements of the array itself: a selection, linear like the array
        selecting = mode is not None and mode.has_const() and mode.const in ("edge", "reflect", "symmetric", "wrap")
        c = alg_lub(v.a(at), cvn.a(at)) if constant else (v.a(at) if selecting else alg_maxred(v.a(at)))
        alg[at] = alg_weaken(c, alg_nonlinear(pwn.a(at)) if pwn.a(at)[0] not in ("const", "zero") else CONST)
    before0 = pw is not None and pw.items is not None and len(pw.items) == 2 and const_num(pw.items[0]) == 0
    return AV(kind=K_ARRAY, dtype=v.dtype, shape=(d,) if d is not None else None, alg=alg,
              sign=sign_join(v.sign, cvn.sign) if constant else v.sign, origin=C.fresh(),
              tags=tags_of(v, cvn, pwn) | frozenset(["pad"]), indef=indef_of(v, cvn, pwn),
              f0=(v.f0 and before0) or (constant and cvn.sign == S_ZERO and not before0 and pw is not None and pw.items is not None and pw.items[0].sign == S_POS))


@lib("numpy.where", doc="3-arg: fresh elementwise selection; 1-arg: tuple of ascending index arrays of the true entries")
def _where(C):
    c = C.num(0)
    if len(C.args) >= 3:
        a, b = C.num(1), C.num(2)
        alg = {}

        def wa(x, at):
            # documented exception: a literal of magnitude <= 1e-12 selected by np.where is a stand-in for zero
            if x.has_const() and isinstance(x.const, float) and 0 < abs(x.const) <= 1e-12:
                return ZERO
            return x.a(at)
        for at in c.atoms() | a.atoms() | b.atoms():
            alg[at] = alg_weaken(alg_lub(wa(a, at), wa(b, at)), c.a(at))
        sh = bshape(bshape(c.shape, a.shape), b.shape)
        return AV(kind=result_kind(sh, c, a, b) if sh is not None else K_ARRAY, dtype=dtype_join(a.dtype, b.dtype),
                  shape=sh, alg=alg, sign=sign_join(a.sign, b.sign), origin=C.fresh(), tags=tags_of(c, a, b),
                  indef=indef_of(c, a, b), f0=a.f0 and b.f0)
    rank = len(c.shape) if c.shape is not None else 1
    n = LinExpr(fresh_atom("$w"))

    def truth(at):
        # which entries of a NUMBER array are non-zero does not change when the array is scaled or negated: x != 0  <=>  k x != 0
        ca = c.a(at)
        if c.dtype != "bool" and not is_top(ca) and ca[0] not in ("const", "zero") and hom_form(ca) is not None:
            return HOM(0, "even")
        return ca
    alg = {at: alg_weaken(CONST, truth(at)) for at in c.atoms() if c.a(at)[0] not in ("const", "zero")}
    idx = AV(kind=K_ARRAY, dtype="int", shape=(n,), alg=alg, sign=S_NONNEG, mono=frozenset([0]) if rank == 1 else frozenset(),
             origin=C.fresh(), tags=c.tags | frozenset(["where-index"]), indef=c.indef)
    return AV(kind=K_TUPLE, items=(idx,) * rank, tags=idx.tags, indef=c.indef, alg=dict(alg))


@lib("numpy.nonzero", "numpy.flatnonzero", "numpy.argwhere")
def _nonzero(C):
    C.args = C.args[:1]
    r = _where(C)
    return r if C.name.endswith("nonzero") and not C.name.endswith("flatnonzero") else r.items[0]


@lib("numpy.take", doc="fancy indexing: fresh copy of the selected entries")
def _take(C):
    v = C.num(0)
    ind = C.arg(1, "indices")
    ax, known = axis_of(C, v, 2)
    indn = as_num(ind)
    shape = None
    if v.shape is not None and indn.shape is not None:
        if len(v.shape) == 1 or (known and ax is None):
            shape = indn.shape
        elif known and ax is not None:
            k = ax if ax >= 0 else len(v.shape) + ax
            shape = v.shape[:k] + indn.shape + v.shape[k + 1:]
    alg = {at: alg_weaken(v.a(at), indn.a(at)) for at in v.atoms() | indn.atoms()}
    kind = K_SCALAR if shape == () else K_ARRAY
    mono = frozenset([0]) if (0 in v.mono and 0 in indn.mono and shape is not None and len(shape) == 1) else frozenset()
    return AV(kind=kind, dtype=v.dtype, shape=shape, alg=alg, sign=v.sign, mono=mono,
              origin=C.fresh() if kind == K_ARRAY else frozenset(["lit"]), tags=tags_of(v, indn), indef=indef_of(v, indn))


@lib("numpy.put", "numpy.place", "numpy.putmask", "numpy.copyto", doc="in-place store into the first argument")
def _put(C):
    target = C.arg(0)
    short = C.name.split(".")[-1]
    if short == "copyto":
        ind, vals = None, C.num(1)
    else:
        ind, vals = as_num(C.arg(1)), C.num(2)
    C.I.mutate(C.fr, target, C.node, C.name, lambda a, vals=vals, ind=ind: C.I.elem_join(a, vals, ind), value=vals, index=ind)
    return const_av(None)


@lib("numpy.flip", "numpy.flipud", "numpy.fliplr", doc="reversed view: linear, order reversed")
def _flip(C):
    v = C.num(0)
    note = v.note
    if v.kind == K_ARRAY and v.shape is not None and len(v.shape) == 1 and v.dtype == "bool":
        note = ("flip-of", tuple(sorted(v.origin)), v.shape[0])       # a reversed mask: argmax of it counts back from the end
    return v.replace(mono=frozenset(), f0=False, const=_NOCONST, tags=v.tags | frozenset(["flip"]), note=note)


@lib("numpy.transpose", "numpy.swapaxes", "numpy.moveaxis")
def _transpose(C):
    v = C.num(0)
    if C.name.endswith("transpose") and len(C.args) <= 1 and "axes" not in C.kwargs:
        return nd_attr(C.I, C.fr, v, "T", C.node)
    return v.replace(shape=None, mono=frozenset(), f0=False)


@lib("numpy.reshape", "numpy.ravel", "numpy.squeeze", "numpy.atleast_1d", "numpy.atleast_2d", "numpy.expand_dims",
     doc="same data, new shape (a view)")
def _reshape(C):
    v = C.num(0)
    short = C.name.split(".")[-1]
    shape = None
    if short == "reshape":
        shape, _ = _shape_from_arg(C.arg(1, "shape") if "newshape" not in C.kwargs else C.kwargs["newshape"])
        a1 = C.arg(1, "shape")
        if a1 is not None and a1.kind in (K_SCALAR,) and a1.sym is not None:
            shape = (a1.sym,)
    elif short == "ravel" and v.shape is not None and len(v.shape) == 1:
        shape = v.shape
    elif short == "atleast_1d" and v.shape is not None:
        shape = v.shape if len(v.shape) >= 1 else (ONE,)
    keep1d = shape is not None and len(shape) == 1 and v.shape is not None and len(v.shape) <= 2
    return v.replace(kind=K_ARRAY, shape=shape, mono=frozenset([0]) if (keep1d and v.mono) else frozenset(), const=_NOCONST,
                     f0=v.f0 and keep1d)


@lib("numpy.ravel_copy")
def _flatten(C):
    return _reshape(Ctx(C.I, C.fr, "numpy.ravel", C.args, C.kwargs, C.node)).replace(origin=C.fresh())


@lib("numpy.sort", doc="fresh sorted copy: order statistic, ascending")
def _sort(C):
    v = C.num(0)
    if v.dtype == "complex":
        C.I.emit("complex-order", C.fr, C.node, what="sort on complex data")
    return elemwise(C, v, alg_maxred, sign=v.sign, mono=frozenset([len(v.shape) - 1]) if v.shape else frozenset())


@lib("numpy.argsort", "numpy.searchsorted", "numpy.digitize", doc="index-valued ordering operation")
def _argsort(C):
    v = C.num(0)
    if C.name.endswith("argsort"):
        if v.dtype == "complex":
            C.I.emit("complex-order", C.fr, C.node, what="argsort on complex data")
        return elemwise(C, v, alg_argorder, sign=S_NONNEG, dtype="int")
    q = C.num(1)
    if C.name.endswith("searchsorted") and not v.mono and ("user-fn" in v.tags or "user-im" in v.tags):
        # bisection needs an ascending first argument; the values of a caller-supplied function are whatever the caller returns
        C.I.emit("precondition", C.fr, C.node, what="np.searchsorted on the values of a caller-supplied function: nothing makes them ascending")
    side = C.arg(2, "side")
    s = side.const if (side is not None and side.has_const()) else "left"
    alg = {at: alg_argorder(c) for at, c in alg2(v, q, alg_lub).items()}
    return AV(kind=K_ARRAY if q.shape != () else K_SCALAR, dtype="int", shape=q.shape, alg=alg, sign=S_NONNEG,
              mono=q.mono if v.mono else frozenset(), origin=C.fresh(),
              tags=tags_of(v, q) | frozenset(["searchsorted:" + str(s)]), indef=indef_of(v, q))


@lib("numpy.unique")
def _unique(C):
    v = C.num(0)
    return AV(kind=K_ARRAY, dtype=v.dtype, shape=(LinExpr(fresh_atom("$u")),), alg=alg1(v, alg_maxred), sign=v.sign,
              mono=frozenset([0]), origin=C.fresh(), tags=v.tags, indef=v.indef)


@lib("numpy.dot", "numpy.matmul", "numpy.inner", "numpy.outer", "numpy.tensordot", "numpy.vdot", "numpy.kron",
     doc="bilinear product")
def _dot(C):
    a, b = C.num(0), C.num(1)
    shape = None
    short = C.name.split(".")[-1]
    if a.shape is not None and b.shape is not None:
        if short == "outer" and len(a.shape) == 1 and len(b.shape) == 1:
            shape = (a.shape[0], b.shape[0])
        elif short in ("dot", "matmul"):
            if len(a.shape) == 1 and len(b.shape) == 1:
                shape = ()
            elif len(a.shape) == 1 and len(b.shape) == 2:
                shape = (b.shape[1],)
            elif len(a.shape) == 2 and len(b.shape) == 1:
                shape = (a.shape[0],)
            elif len(a.shape) == 2 and len(b.shape) == 2:
                shape = (a.shape[0], b.shape[1])
    return AV(kind=K_SCALAR if shape == () else K_ARRAY, dtype=dtype_join(a.dtype, b.dtype), shape=shape,
              alg=alg2(a, b, alg_mul), sign=sign_mul(a.sign, b.sign) if (is_nonneg(a.sign) and is_nonneg(b.sign)) else S_ANY,
              origin=C.fresh() if shape != () else frozenset(["lit"]), tags=tags_of(a, b) | frozenset(["red:dot"]),
              indef=indef_of(a, b))


@lib("numpy.tril", "numpy.triu", doc="triangular part; a 1-D input is broadcast to (n, n)")
def _tril(C):
    v = C.num(0)
    shape = v.shape
    if v.shape is not None and len(v.shape) == 1:
        shape = (v.shape[0], v.shape[0])
    return AV(kind=K_ARRAY, dtype=v.dtype, shape=shape, alg=dict(v.alg), sign=sign_join(v.sign, S_ZERO),
              origin=C.fresh(), tags=v.tags, indef=v.indef)


@lib("numpy.interp", doc="piecewise-linear interpolation: shape of x; linear in fp; within the range of fp (and left/right)")
def _interp(C):
    x, xp, fp = C.num(0, "x"), C.num(1, "xp"), C.num(2, "fp")
    left, right = C.arg(3, "left"), C.arg(4, "right")
    extra = [as_num(e) for e in (left, right) if e is not None and e.kind != K_NONE]
    alg = {}
    from .interp import alg_lub_pc
    for at in set().union(x.atoms(), xp.atoms(), fp.atoms(), *[e.atoms() for e in extra]):
        c = fp.a(at)
        for e in extra:
            c = alg_lub(c, e.a(at))
        sel = alg_lub_pc(_sel_class(x.a(at)), _sel_class(xp.a(at)))
        alg[at] = alg_weaken(c, sel)
    sign = fp.sign
    for e in extra:
        sign = sign_join(sign, e.sign)
    mono = x.mono if (x.mono and xp.mono and fp.mono and not extra) else frozenset()
    return AV(kind=K_SCALAR if x.shape == () else K_ARRAY, dtype="real", shape=x.shape, alg=alg, sign=sign, mono=mono,
              origin=C.fresh(), tags=tags_of(x, xp, fp, *extra) | frozenset(["interp:linear"]),
              indef=indef_of(x, xp, fp, *extra))


def _sel_class(c):
    """class of a *position* used to select/interpolate: only its invariance matters."""
    if c[0] in ("const", "zero"):
        return CONST
    if is_top(c):
        return c
    k, p = hom_form(c)
    if k == Exp(0):
        return HOM(0, "even" if p == "even" else "none")
    return TOPD


@lib("numpy.polyfit", doc="least-squares polynomial coefficients: linear in y; deg+1 coefficients, highest power first")
def _polyfit(C):
    x, y, deg = C.num(0), C.num(1), C.arg(2, "deg")
    alg = {}
    for at in x.atoms() | y.atoms() | deg.atoms():
        alg[at] = y.a(at) if (x.a(at)[0] in ("const", "zero") and deg.a(at)[0] in ("const", "zero")) else TOPD
    n = (deg.sym + 1) if deg.sym is not None else LinExpr(fresh_atom("$g"))
    return AV(kind=K_ARRAY, dtype="real", shape=(n,), alg=alg, origin=C.fresh(), tags=tags_of(x, y, deg) | frozenset(["polyfit"]),
              indef=indef_of(x, y, deg))


@lib("numpy.polyval")
def _polyval(C):
    p, x = C.num(0), C.num(1)
    alg = {at: (p.a(at) if x.a(at)[0] in ("const", "zero") else TOPD) for at in p.atoms() | x.atoms()}
    return AV(kind=K_ARRAY, dtype="real", shape=x.shape, alg=alg, origin=C.fresh(), tags=tags_of(p, x), indef=indef_of(p, x))


@lib("numpy.isclose", "numpy.allclose", "numpy.array_equal")
def _isclose(C):
    a, b = C.num(0), C.num(1)
    alg = {at: (CONST if (a.a(at)[0] in ("const", "zero") and b.a(at)[0] in ("const", "zero")) else TOPD)
           for at in a.atoms() | b.atoms()}
    sh = bshape(a.shape, b.shape) if C.name.endswith("isclose") else ()
    return AV(kind=K_BOOL if sh == () else K_ARRAY, dtype="bool", shape=sh, alg=alg, tags=tags_of(a, b), indef=indef_of(a, b))


# ---- Fourier
def _fft_like(C, n_pos=1, cplx=True, length=None):
    v = C.num(0)
    n = C.arg(n_pos, "n")
    shape = v.shape
    if n is not None and n.kind != K_NONE:
        ln = n.sym if n.sym is not None else LinExpr(fresh_atom("$F"))
        if v.shape is not None and len(v.shape) >= 1:
            ax, known = axis_of(C, v, n_pos + 1, default=-1)
            k = (ax if ax >= 0 else len(v.shape) + ax) if known else None
            shape = tuple(ln if i == k else d for i, d in enumerate(v.shape)) if k is not None else None
        else:
            shape = (ln,)
    if length is not None and shape is not None:
        shape = shape[:-1] + (LinExpr(fresh_atom("$R")),)
    alg = dict(v.alg)
    if n is not None and n.kind != K_NONE:
        for at in n.atoms():
            alg[at] = alg_weaken(v.a(at), alg_nonlinear(n.a(at)) if n.a(at)[0] not in ("const", "zero") else CONST)
    return AV(kind=K_ARRAY, dtype="complex" if cplx else "real", shape=shape, alg=alg, origin=C.fresh(),
              tags=v.tags | frozenset(["fft:" + C.name.split(".")[-1]]), indef=v.indef)


@lib("numpy.fft.fft", "numpy.fft.ifft", "scipy.fft.fft", "scipy.fft.ifft", doc="DFT along axis with optional length n (zero-pad/truncate): complex, linear, fresh")
def _fft(C):
    return _fft_like(C)


@lib("numpy.fft.rfft", "scipy.fft.rfft", doc="one-sided DFT: n//2+1 bins, linear")
def _rfft(C):
    return _fft_like(C, length="half")


@lib("numpy.fft.irfft", "scipy.fft.irfft")
def _irfft(C):
    return _fft_like(C, cplx=False, length="full")


@lib("numpy.fft.fftfreq", "numpy.fft.rfftfreq")
def _fftfreq(C):
    n, d = C.arg(0, "n"), C.num(1, "d", const_av(1.0))
    ln = n.sym if (n.sym is not None and C.name.endswith(".fftfreq")) else LinExpr(fresh_atom("$q"))
    return AV(kind=K_ARRAY, dtype="real", shape=(ln,), alg=alg1(d, alg_inv), origin=C.fresh(), tags=tags_of(n, d))


@lib("scipy.fftpack.fft", "scipy.fftpack.ifft",
     doc="as numpy.fft; overwrite_x=True destroys x only when x is already complex (real input is copied first)")
def _fftpack(C):
    v = C.num(0)
    ow = C.arg(3, "overwrite_x")
    if ow is not None and (not ow.has_const() or ow.const):
        if v.dtype in ("complex", "top"):
            C.mutate(C.arg(0), lambda a: a.replace(const=_NOCONST), how="overwrite_x=True")
        else:
            C.I.emit("note", C.fr, C.node, what="overwrite_x=True on real input: no effect (API row)", origins=v.origin)
    return _fft_like(C)


# ---- scipy
@lib("scipy.linalg.toeplitz", doc="Toeplitz matrix from first column c and first row r: entries are entries of c or r (linear)")
def _toeplitz(C):
    c = C.num(0)
    r = C.num(1) if len(C.args) > 1 or "r" in C.kwargs else None
    if r is None:
        r = c
    d0 = c.shape[0] if (c.shape is not None and len(c.shape) == 1) else None
    d1 = r.shape[0] if (r.shape is not None and len(r.shape) == 1) else None
    return AV(kind=K_ARRAY, dtype=dtype_join(c.dtype, r.dtype), shape=(d0, d1), alg=alg2(c, r, alg_lub),
              origin=C.fresh(), tags=tags_of(c, r) | frozenset(["toeplitz"]), indef=indef_of(c, r))


@lib("scipy.interpolate.interp1d", doc="returns an interpolant of y over x (kind: linear/previous/next/nearest): linear in y")
def _interp1d(C):
    x, y = C.num(0, "x"), C.num(1, "y")
    kind = C.arg(2, "kind")
    ax, known = axis_of(C, y, 3, default=-1)
    kname = kind.const if (kind is not None and kind.has_const()) else "linear"
    I = C.I

    def f(I2, fr, args, kwargs, node):
        xn = as_num(args[0]) if args else top_av(True, "no arg", I.atoms)
        alg = {}
        from .interp import alg_lub_pc
        for at in x.atoms() | y.atoms() | xn.atoms():
            sel = alg_lub_pc(_sel_class(x.a(at)), _sel_class(xn.a(at)))
            alg[at] = alg_weaken(y.a(at), sel)
        shape = None
        mono = frozenset()
        if y.shape is not None and xn.shape is not None and known:
            k = ax if ax >= 0 else len(y.shape) + ax
            if 0 <= k < len(y.shape):
                shape = y.shape[:k] + xn.shape + y.shape[k + 1:]
                if k in y.mono and x.mono and xn.mono and len(xn.shape) == 1 and \
                        kname in ("linear", "previous", "next", "nearest"):
                    mono = frozenset([k])
        return AV(kind=K_ARRAY, dtype=y.dtype if y.dtype != "int" else "real", shape=shape, alg=alg, sign=y.sign,
                  mono=mono, origin=fresh_tok(I2, fr, node),
                  tags=tags_of(x, y, xn) | frozenset(["interp:" + str(kname)]), indef=indef_of(x, y, xn))
    return AV(kind=K_FUNC, ref=("closure", f), tags=tags_of(x, y))


@lib("scipy.signal.butter", doc="digital Butterworth design: (b, a) depend only on order, normalised cut-off and btype")
def _butter(C):
    n, wn = C.arg(0, "N"), C.num(1, "Wn")
    bt = C.arg(2, "btype")
    alg = {at: alg_nonlinear(c) for at, c in alg_lub_many([as_num(n), wn]).items()}
    coef = AV(kind=K_ARRAY, dtype="real", shape=(LinExpr(fresh_atom("$b")),), alg=alg, origin=C.fresh(),
              tags=tags_of(n, wn) | frozenset(["butter"]), indef=indef_of(n, wn))
    C.I.emit("butter", C.fr, C.node, order=n, wn=wn, btype=bt, kwargs=C.kwargs)
    out = C.arg(None, "output")
    if out is not None and out.has_const() and out.const == "sos":
        return coef.replace(shape=(LinExpr(fresh_atom("$s")), LinExpr(6)))
    return AV(kind=K_TUPLE, items=(coef, coef.replace(origin=C.fresh())), tags=coef.tags)


def _filter_row(tag):
    def h(C):
        if tag.endswith("sos"):
            coefs, x = [C.num(0)], C.num(1, "x")
        else:
            coefs, x = [C.num(0), C.num(1)], C.num(2, "x")
        alg = {}
        for at in set(x.atoms()).union(*[c.atoms() for c in coefs]):
            alg[at] = x.a(at) if all(c.a(at)[0] in ("const", "zero") for c in coefs) else TOPD
        C.I.emit("filter-apply", C.fr, C.node, how=tag)
        return AV(kind=K_ARRAY, dtype="real", shape=x.shape, alg=alg, origin=C.fresh(),
                  tags=tags_of(x, *coefs) | frozenset(["filter:" + tag]), indef=indef_of(x, *coefs))
    return h


LIB["scipy.signal.filtfilt"] = _filter_row("zero-phase")
LIB["scipy.signal.sosfiltfilt"] = _filter_row("zero-phase-sos")
LIB["scipy.signal.lfilter"] = _filter_row("causal")
LIB["scipy.signal.sosfilt"] = _filter_row("causal-sos")
LIB_DOC["scipy.signal.filtfilt"] = "forward-backward filtering: zero phase, squared magnitude; linear in x; same length"
LIB_DOC["scipy.signal.lfilter"] = "one-pass causal IIR filter: linear in x, NOT zero phase"


@lib("scipy.signal.detrend", doc="removes a least-squares line: linear in x, same shape")
def _detrend(C):
    v = C.num(0)
    return elemwise(C, v, lambda a: a, tag="detrend")


@lib("scipy.signal.resample", doc="Fourier resampling to num points: linear in x")
def _resample(C):
    v, n = C.num(0), C.arg(1, "num")
    ln = n.sym if n.sym is not None else LinExpr(fresh_atom("$S"))
    alg = {at: alg_weaken(v.a(at), alg_nonlinear(n.a(at)) if n.a(at)[0] not in ("const", "zero") else CONST)
           for at in v.atoms() | n.atoms()}
    return AV(kind=K_ARRAY, dtype="real", shape=(ln,), alg=alg, origin=C.fresh(), tags=tags_of(v, n) | frozenset(["resample"]),
              indef=indef_of(v, n))


@lib("numpy.genfromtxt", "numpy.loadtxt", doc="parses a text file: data independent of any analysed atom")
def _genfromtxt(C):
    C.I.emit("io", C.fr, C.node, what=C.name, kwargs=C.kwargs)
    return AV(kind=K_ARRAY, dtype="real", shape=None, origin=C.fresh(), tags=frozenset(["file-data"]))


@lib("numpy.savetxt")
def _savetxt(C):
    C.I.emit("io", C.fr, C.node, what=C.name, args=C.args, kwargs=C.kwargs)
    return const_av(None)


@lib("warnings.warn")
def _warn(C):
    return const_av(None)


@lib("collections.OrderedDict")
def _odict(C):
    return AV(kind=K_DICT, dvals={}, dmust=frozenset(), dmay=None, origin=C.fresh(), note="OrderedDict")


@lib("numpy.random.rand", "numpy.random.randn", "numpy.random.random", "numpy.random.normal", "numpy.random.uniform",
     "numpy.random.seed", "numpy.random.default_rng", "random.random", "random.uniform", "time.time", "time.perf_counter",
     doc="nondeterministic source")
def _rng(C):
    C.I.emit("nondeterminism", C.fr, C.node, name=C.name)
    return top_av(False, "nondeterministic", C.I.atoms)


# ----------------------------------------------------------------------------- further rows (not used by the pinned tree;
# they keep a refactoring or a seeded change from becoming merely "unmodelled")
@lib("numpy.roll", doc="circular shift: a permutation of the entries (linear, order of entries changed)")
def _roll(C):
    v = C.num(0)
    sh = C.arg(1, "shift")
    alg = {at: alg_weaken(v.a(at), _sel_class(as_num(sh).a(at)) if sh is not None else CONST) for at in v.atoms() | (as_num(sh).atoms() if sh is not None else set())}
    return AV(kind=K_ARRAY, dtype=v.dtype, shape=v.shape, alg=alg, sign=v.sign, origin=C.fresh(), tags=tags_of(v, sh) | frozenset(["roll"]),
              indef=indef_of(v, sh))


@lib("numpy.tile", "numpy.repeat", doc="repetition of entries: linear, length changes")
def _tile(C):
    v = C.num(0)
    return AV(kind=K_ARRAY, dtype=v.dtype, shape=None if v.shape is None else tuple(None for _ in v.shape), alg=dict(v.alg), sign=v.sign,
              origin=C.fresh(), tags=tags_of(*[a for a in C.args]), indef=v.indef)


@lib("functools.partial", doc="callable with leading positional and keyword arguments fixed")
def _partial(C):
    if not C.args:
        return C.top("partial without a callable")
    f, pre, kw = C.args[0], list(C.args[1:]), dict(C.kwargs)
    return AV(kind=K_FUNC, ref=("closure", lambda I2, fr, args, kwargs, node: I2.call(fr, f, pre + list(args), dict(kw, **kwargs), node)))


@lib("functools.reduce", doc="left fold of a two-argument callable over a sequence whose items are known one by one")
def _reduce(C):
    f, seq, init = C.arg(0), C.arg(1), C.arg(2, "initial")
    if f is None or seq is None or seq.kind not in (K_TUPLE, K_LIST) or seq.items is None or len(seq.items) > 8:
        return C.top("reduce over a sequence that is not known item by item")
    items = list(seq.items)
    if init is not None:
        acc = init
    elif items:
        acc, items = items[0], items[1:]
    else:
        return C.top("reduce of an empty sequence without initial value")
    for x in items:
        acc = C.I.call(C.fr, f, [acc, x], {}, C.node)
    return acc


def _operator_row(opcls, inplace=False):
    def h(C):
        if len(C.args) != 2:
            return C.top("operator function with %d arguments" % len(C.args))
        res = binop(C.I, C.fr, opcls(), as_num(C.args[0]), as_num(C.args[1]), C.node)
        tgt = C.args[0]
        if inplace and tgt.kind in (K_ARRAY, K_LIST):          # operator.iadd(a, b) is a += b: the first operand's storage is written
            keep = res.replace(origin=tgt.origin)
            C.I.mutate(C.fr, tgt, C.node, "augassign", lambda a, keep=keep: keep, strong=True, value=res)
            return keep
        return res
    return h


for _n, _o in (("add", ast.Add), ("iadd", ast.Add), ("sub", ast.Sub), ("isub", ast.Sub), ("mul", ast.Mult), ("imul", ast.Mult),
               ("truediv", ast.Div), ("itruediv", ast.Div), ("pow", ast.Pow), ("floordiv", ast.FloorDiv), ("mod", ast.Mod)):
    LIB["operator." + _n] = _operator_row(_o, inplace=_n.startswith("i") and _n not in ("is_",))
    LIB_DOC["operator." + _n] = "the arithmetic operator as a function (the in-place forms on fresh values)"


@lib("operator.attrgetter", doc="callable reading one named attribute of its argument")
def _attrgetter(C):
    nm = C.arg(0)
    if nm is None or not (nm.has_const() and isinstance(nm.const, str)) or len(C.args) != 1:
        return C.top("attrgetter with a computed or multiple names")
    name = nm.const
    return AV(kind=K_FUNC, ref=("closure", lambda I2, fr, args, kwargs, node, name=name: I2.load_attr(fr, args[0], name, node) if args else
                                top_av(True, "attrgetter without argument", I2.atoms)))


@lib("numpy.nan_to_num", doc="replaces non-finite entries by constants")
def _nan_to_num(C):
    v = C.num(0)
    return elemwise(C, v, lambda a: a if a[0] in ("const", "zero") else alg_lub(a, CONST), sign=v.sign, keep_f0=True)


@lib("numpy.gradient", "numpy.convolve", "numpy.correlate", doc="linear in its (first) argument")
def _gradient(C):
    v = C.num(0)
    w = C.num(1) if len(C.args) > 1 else None
    alg = dict(v.alg) if w is None else alg2(v, w, alg_mul)
    shape = v.shape if C.name.endswith("gradient") else None
    if not C.name.endswith("gradient") and w is not None and v.shape is not None and w.shape is not None and len(v.shape) == 1 and \
            len(w.shape) == 1 and v.shape[0] is not None and w.shape[0] is not None:
        md = C.arg(2, "mode")
        mode = md.const if (md is not None and md.has_const()) else ("full" if C.name.endswith("convolve") else "valid")
        n_, m_ = v.shape[0], w.shape[0]
        if mode == "full":
            shape = (n_ + m_ - 1,)
        elif mode == "same":
            # max(n, m) points: the longer operand decides -- NOT the first one
            shape = (n_,) if n_ == m_ else (LinExpr("max[%r,%r]" % tuple(sorted([n_, m_], key=repr))),)
        elif mode == "valid":
            shape = (LinExpr("max[%r,%r]" % tuple(sorted([n_, m_], key=repr))) - LinExpr("min[%r,%r]" % tuple(sorted([n_, m_], key=repr))) + 1,)
    return AV(kind=K_ARRAY, dtype="real" if v.dtype in ("int", "bool") else v.dtype, shape=shape, alg=alg, origin=C.fresh(),
              tags=tags_of(v, w), indef=indef_of(v, w))


@lib("numpy.percentile", "numpy.quantile", "numpy.nanpercentile", "numpy.nanmedian", doc="order statistic")
def _percentile(C):
    return _reduction(alg_maxred, lambda v: v.sign, tag="red:quantile", order=True)(Ctx(C.I, C.fr, C.name, C.args[:1], {k: v for k, v in C.kwargs.items() if k == "axis"}, C.node))


@lib("numpy.linalg.norm", doc="norm: degree preserved, even, non-negative")
def _norm(C):
    v = C.num(0)
    ax, known = axis_of(C, v, 2)
    shape = reduce_shape(v, ax, known)
    return AV(kind=K_SCALAR if shape == () else K_ARRAY, dtype="real", shape=shape, alg=alg1(v, alg_abs), sign=S_NONNEG,
              origin=frozenset(["lit"]) if shape == () else C.fresh(), tags=v.tags | frozenset(["abs", "red:norm"]), indef=v.indef)


@lib("numpy.hypot", doc="sqrt(a^2 + b^2)")
def _hypot(C):
    a, b = C.num(0), C.num(1)
    alg = {at: alg_abs(alg_lub(a.a(at), b.a(at))) for at in a.atoms() | b.atoms()}
    return AV(kind=result_kind(bshape(a.shape, b.shape), a, b), dtype="real", shape=bshape(a.shape, b.shape), alg=alg, sign=S_NONNEG,
              origin=C.fresh(), tags=tags_of(a, b) | frozenset(["abs"]), indef=indef_of(a, b))


@lib("numpy.arctan2", "numpy.angle", doc="angle: invariant under positive scaling")
def _arctan2(C):
    vs = [as_num(a) for a in C.args]
    alg = {}
    for at in set().union(*[v.atoms() for v in vs]):
        cs = [v.a(at) for v in vs]
        if all(c[0] in ("const", "zero") for c in cs):
            continue
        hs = [hom_form(c) for c in cs if c[0] != "zero"]
        alg[at] = HOM(0, "none") if (all(h is not None for h in hs) and len({h[0] for h in hs}) == 1) else TOPD
    sh = vs[0].shape
    for v in vs[1:]:
        sh = bshape(sh, v.shape)
    return AV(kind=result_kind(sh, *vs), dtype="real", shape=sh, alg=alg, origin=C.fresh(), tags=tags_of(*vs), indef=indef_of(*vs))


@lib("numpy.isin", "numpy.in1d", "numpy.logical_and", "numpy.logical_or", "numpy.logical_not", "numpy.logical_xor",
     "numpy.greater", "numpy.less", "numpy.equal", "numpy.not_equal", "numpy.greater_equal", "numpy.less_equal",
     doc="boolean element-wise results")
def _logical(C):
    vs = [as_num(a) for a in C.args]
    short = C.name.split(".")[-1]
    cmpop = {"greater": ast.Gt(), "less": ast.Lt(), "equal": ast.Eq(), "not_equal": ast.NotEq(), "greater_equal": ast.GtE(),
             "less_equal": ast.LtE()}.get(short)
    if cmpop is not None and len(vs) == 2:
        return compare(C.I, C.fr, cmpop, C.args[0], C.args[1], C.node)
    from .interp import alg_lub_pc
    alg = {}
    for v in vs:
        for at in v.atoms():
            alg[at] = alg_lub_pc(alg.get(at, CONST), v.a(at) if short.startswith("logical") else alg_argorder(v.a(at)))
    sh = vs[0].shape if vs else None
    for v in vs[1:]:
        sh = bshape(sh, v.shape) if short.startswith("logical") else sh
    return AV(kind=K_ARRAY if sh != () else K_BOOL, dtype="bool", shape=sh, alg=alg, sign=S_NONNEG, origin=C.fresh(), tags=tags_of(*vs),
              indef=indef_of(*vs))


@lib("numpy.float64", "numpy.float32", "numpy.float_", "numpy.double", doc="cast to float")
def _npfloat(C):
    return call_builtin(C.I, C.fr, "float", C.args, C.kwargs, C.node) if (C.args and as_num(C.args[0]).shape == ()) else \
        _array(Ctx(C.I, C.fr, "numpy.array", C.args, {"dtype": const_av("float")}, C.node))


@lib("numpy.int64", "numpy.int32", "numpy.int_", "numpy.intp", doc="cast to int (toward zero)")
def _npint(C):
    return call_builtin(C.I, C.fr, "int", C.args, C.kwargs, C.node) if (C.args and as_num(C.args[0]).shape == ()) else \
        _array(Ctx(C.I, C.fr, "numpy.array", C.args, {"dtype": const_av("int")}, C.node))


@lib("numpy.ndim", "numpy.size", "numpy.shape", doc="shape queries")
def _ndim(C):
    v = C.num(0)
    short = C.name.split(".")[-1]
    if short == "shape":
        return nd_attr(C.I, C.fr, v, "shape", C.node)
    if short == "size":
        return nd_attr(C.I, C.fr, v, "size", C.node)
    c = len(v.shape) if v.shape is not None else _NOCONST
    return AV(kind=K_SCALAR, dtype="int", shape=(), const=c, sym=LinExpr(c) if c is not _NOCONST else None, sign=S_NONNEG,
              alg={at: alg_shape(v.a(at)) for at in v.atoms()})


@lib("numpy.isscalar")
def _isscalar(C):
    v = C.arg(0)
    if v.kind in (K_SCALAR, K_BOOL, K_STR) and (v.note == "pyscalar" or v.has_const()):
        return const_av(True)
    if v.kind in (K_ARRAY, K_LIST, K_TUPLE, K_NONE, K_OBJ):
        return const_av(False)
    return AV(kind=K_BOOL, dtype="bool", shape=())


@lib("numpy.cumprod", doc="running product: no homogeneity")
def _cumprod(C):
    v = C.num(0)
    return elemwise(C, v, lambda a: a if a[0] in ("const", "zero") else TOPD, sign=v.sign if is_nonneg(v.sign) else S_ANY)


@lib("numpy.fft.fftshift", "numpy.fft.ifftshift", doc="permutation of bins")
def _fftshift(C):
    v = C.num(0)
    return v.replace(origin=C.fresh(), mono=frozenset(), f0=False, const=_NOCONST, tags=v.tags | frozenset(["fftshift"]))


@lib("numpy.select", "numpy.piecewise", "numpy.choose")
def _select(C):
    vs = [as_num(a) for a in C.args]
    return AV(kind=K_ARRAY, shape=None, alg={at: TOPD for v in vs for at in v.atoms()}, origin=C.fresh(), tags=tags_of(*vs), indef=indef_of(*vs))


@lib("numpy.round_")
def _round_(C):
    return LIB["numpy.round"](C)


@lib("scipy.integrate.cumulative_simpson", doc="cumulative Simpson rule: linear, like cumulative_trapezoid but not the trapezoid rule")
def _cumsimpson(C):
    r = _cumtrapz(C)
    return r.replace(tags=(r.tags - frozenset(["quad:trapezoid"])) | frozenset(["quad:simpson"]))


@lib("numpy.meshgrid", "numpy.eye", "numpy.identity", "numpy.diag", "numpy.triu_indices", "numpy.tril_indices", "numpy.indices")
def _structural(C):
    vs = [as_num(a) for a in C.args]
    return AV(kind=K_ARRAY, shape=None, alg=alg_lub_many(vs) if vs else {}, origin=C.fresh(), tags=tags_of(*vs), indef=indef_of(*vs))
